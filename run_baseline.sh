#!/bin/sh
# Runs the repository's pinned test suite and compares with the 216 stable passes of BASELINE.json.
cd /repo && /venv/bin/python -m pytest -ra -q -p no:cacheprovider --timeout=900 --continue-on-collection-errors --junitxml=/tmp/liquer_junit_$$.xml >/tmp/liquer_pytest_$$.log 2>&1
python3 - "$$" <<'PY'
import json,sys,xml.etree.ElementTree as ET
pid=sys.argv[1]
base=set(json.load(open('/root/.vp/BASELINE.json'))['stable_pass'])
t=ET.parse('/tmp/liquer_junit_%s.xml'%pid)
ok=set()
for tc in t.iter('testcase'):
    if not any(c.tag in('failure','error','skipped') for c in tc):
        ok.add(tc.get('classname')+'::'+tc.get('name'))
missing=sorted(base-ok)
print('baseline passes:',len(base&ok),'of',len(base)); print('missing:',missing)
sys.exit(1 if missing else 0)
PY
rc=$?
rm -f /tmp/liquer_junit_$$.xml /tmp/liquer_pytest_$$.log
exit $rc
