"""Static (dataflow) obligations, discharged without a solver ("back end: static"):

inherits(cls, base, methods): `cls` does not override `methods`, so the proofs about base.method are proofs about cls.method.
origin(cls, sources, primitives): inside every method of `cls`, the receiver / first argument of each file-system primitive
   is a path that originates from one of the `sources` (calls on self), possibly followed by `/ self.METADATA` or `.parent`.
"""
import ast

PRIM_METHODS = {"exists", "is_dir", "is_file", "unlink", "rmdir", "mkdir", "write_bytes", "write_text", "read_bytes", "read_text",
                "iterdir", "resolve", "open", "touch", "rename", "replace", "glob", "rglob", "stat"}
PRIM_FUNCS = {"open"}


def check_inherits(repo, cls, base, methods):
    out = []
    c = repo.cls(cls)
    for m in methods:
        name = "%s.%s.%s#shape:inherits-%s.%s" % (c.module.name if c else "?", cls, m, base, m)
        ok = c is not None and m not in c.methods and repo.is_subclass(cls, base)
        out.append(dict(name=name, kind="shape", result="discharged" if ok else "undischarged", backend="static", seconds=0.0,
                        reason=None if ok else "%s overrides %s (or is no subclass of %s): the proof of %s.%s does not cover it" % (cls, m, base, base, m)))
    return out


class _Origin(ast.NodeVisitor):
    def __init__(self, sources, selfname):
        self.sources = sources
        self.selfname = selfname
        self.ok_names = set()
        self.sites = []

    def is_ok(self, e):
        if isinstance(e, ast.Call) and isinstance(e.func, ast.Attribute) and isinstance(e.func.value, ast.Name) \
                and e.func.value.id == self.selfname and e.func.attr in self.sources:
            return True
        if isinstance(e, ast.Name) and e.id in self.ok_names:
            return True
        if isinstance(e, ast.Attribute) and e.attr == "parent" and self.is_ok(e.value):
            return True
        if isinstance(e, ast.BinOp) and isinstance(e.op, ast.Div) and self.is_ok(e.left) and isinstance(e.right, ast.Attribute) \
                and isinstance(e.right.value, ast.Name) and e.right.value.id == self.selfname and e.right.attr == "METADATA":
            return True
        return False

    def visit_Assign(self, node):
        if len(node.targets) == 1 and isinstance(node.targets[0], ast.Name):
            if self.is_ok(node.value):
                self.ok_names.add(node.targets[0].id)
            else:
                self.ok_names.discard(node.targets[0].id)
        self.generic_visit(node)

    def visit_comprehension(self, node):
        # `for d in <ok>.iterdir()`: children of an inside-root directory are inside the root
        if isinstance(node.iter, ast.Call) and isinstance(node.iter.func, ast.Attribute) and node.iter.func.attr == "iterdir" \
                and self.is_ok(node.iter.func.value) and isinstance(node.target, ast.Name):
            self.ok_names.add(node.target.id)
        self.generic_visit(node)

    def visit_Call(self, node):
        f = node.func
        if isinstance(f, ast.Attribute) and f.attr in PRIM_METHODS and not (isinstance(f.value, ast.Name) and f.value.id in ("os", "json", "f", self.selfname)):
            recv = f.value
            # only path-like receivers: skip file handles `f.write`, strings etc. (write/read are not in PRIM_METHODS)
            self.sites.append((f.attr, node.lineno, self.is_ok(recv), ast.unparse(recv)))
        elif isinstance(f, ast.Name) and f.id in PRIM_FUNCS and node.args:
            self.sites.append((f.id, node.lineno, self.is_ok(node.args[0]), ast.unparse(node.args[0])))
        self.generic_visit(node)


def check_origin(repo, cls, sources, skip=()):
    out = []
    c = repo.cls(cls)
    if c is None:
        return [dict(name="%s#shape:class-exists" % cls, kind="shape", result="undischarged", backend="static", seconds=0.0, reason="class not found")]
    for mname, fdef in sorted(c.methods.items()):
        if mname in sources or mname in skip or not fdef.args.args:
            continue
        v = _Origin(set(sources), fdef.args.args[0].arg)
        v.visit(fdef)
        counts = {}
        for prim, line, ok, txt in v.sites:
            k = counts.get(prim, 0)
            counts[prim] = k + 1
            out.append(dict(name="%s.%s.%s#trace:path-comes-from-%s@%s/%d" % (c.module.name, cls, mname, "|".join(sorted(sources)), prim, k),
                            kind="trace", result="discharged" if ok else "undischarged", backend="static", seconds=0.0, line=line,
                            reason=None if ok else "file-system primitive %s receives `%s`, which does not originate from %s" % (prim, txt, sorted(sources))))
    return out


def run_static(repo, spec):
    kind = spec[0]
    if kind == "inherits":
        return check_inherits(repo, spec[1], spec[2], spec[3])
    if kind == "origin":
        return check_origin(repo, spec[1], spec[2], spec[3] if len(spec) > 3 else ())
    raise ValueError(kind)
