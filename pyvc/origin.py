"""Static (dataflow) obligations, discharged without a solver ("back end: static"):

inherits(cls, base, methods): `cls` does not override `methods`, so the proofs about base.method are proofs about cls.method.
origin(cls, sources, primitives): inside every method of `cls`, the receiver / first argument of each file-system primitive
   is a path that originates from one of the `sources` (calls on self), possibly followed by `/ self.METADATA` or `.parent`.
"""
import ast

PRIM_METHODS = {"exists", "is_dir", "is_file", "unlink", "rmdir", "mkdir", "write_bytes", "write_text", "read_bytes", "read_text",
                "iterdir", "resolve", "open", "touch", "rename", "replace", "glob", "rglob", "stat"}
PRIM_FUNCS = {"open"}


def check_inherits(repo, cls, base, methods):
    out = []
    c = repo.cls(cls)
    for m in methods:
        name = "%s.%s.%s#shape:inherits-%s.%s" % (c.module.name if c else "?", cls, m, base, m)
        ok = c is not None and m not in c.methods and repo.is_subclass(cls, base)
        out.append(dict(name=name, kind="shape", result="discharged" if ok else "undischarged", backend="static", seconds=0.0,
                        reason=None if ok else "%s overrides %s (or is no subclass of %s): the proof of %s.%s does not cover it" % (cls, m, base, base, m)))
    return out


_INT_CALLS = {"getpid", "getppid", "get_ident", "get_native_id", "time_ns", "monotonic_ns", "perf_counter_ns"}     # integers: no path separator


def _plain_name_expr(e):
    """an expression that denotes a single file name (no separator): a constant without '/', or an f-string built from
    such constants, `<path>.name` attributes and argument-less calls that return an integer (os.getpid(), threading.get_ident(), ...)"""
    if isinstance(e, ast.Constant):
        return isinstance(e.value, str) and "/" not in e.value and e.value not in ("", ".", "..")
    if isinstance(e, ast.JoinedStr):
        for v in e.values:
            if isinstance(v, ast.Constant):
                if "/" in str(v.value):
                    return False
            elif isinstance(v, ast.FormattedValue):
                x = v.value
                if not ((isinstance(x, ast.Attribute) and x.attr == "name") or
                        (isinstance(x, ast.Call) and isinstance(x.func, ast.Attribute) and not x.args and not x.keywords
                         and x.func.attr in _INT_CALLS)):
                    return False
        return True
    return False


class _Origin(ast.NodeVisitor):
    def __init__(self, sources, selfname, helpers=(), ok_params=()):
        self.sources = sources
        self.selfname = selfname
        self.helpers = set(helpers)
        self.ok_names = set(ok_params)
        self.sites = []

    def is_ok(self, e):
        if isinstance(e, ast.Call) and isinstance(e.func, ast.Attribute) and isinstance(e.func.value, ast.Name) \
                and e.func.value.id == self.selfname and e.func.attr in self.sources:
            return True
        if isinstance(e, ast.Name) and e.id in self.ok_names:
            return True
        if isinstance(e, ast.Attribute) and e.attr == "parent" and self.is_ok(e.value):
            return True
        if isinstance(e, ast.BinOp) and isinstance(e.op, ast.Div) and self.is_ok(e.left) and isinstance(e.right, ast.Attribute) \
                and isinstance(e.right.value, ast.Name) and e.right.value.id == self.selfname and e.right.attr == "METADATA":
            return True
        if isinstance(e, ast.BinOp) and isinstance(e.op, ast.Div) and self.is_ok(e.left) and _plain_name_expr(e.right):
            return True
        if isinstance(e, ast.IfExp) and self.is_ok(e.body) and self.is_ok(e.orelse):
            return True
        return False

    def visit_Assign(self, node):
        if len(node.targets) == 1 and isinstance(node.targets[0], ast.Name):
            if self.is_ok(node.value):
                self.ok_names.add(node.targets[0].id)
            else:
                self.ok_names.discard(node.targets[0].id)
        self.generic_visit(node)

    def visit_comprehension(self, node):
        # `for d in <ok>.iterdir()`: children of an inside-root directory are inside the root
        if isinstance(node.iter, ast.Call) and isinstance(node.iter.func, ast.Attribute) and node.iter.func.attr == "iterdir" \
                and self.is_ok(node.iter.func.value) and isinstance(node.target, ast.Name):
            self.ok_names.add(node.target.id)
        self.generic_visit(node)

    def visit_Call(self, node):
        f = node.func
        if isinstance(f, ast.Attribute) and f.attr in PRIM_METHODS and not (isinstance(f.value, ast.Name) and f.value.id in ("os", "json", "f", self.selfname)):
            recv = f.value
            # only path-like receivers: skip file handles `f.write`, strings etc. (write/read are not in PRIM_METHODS)
            self.sites.append((f.attr, node.lineno, self.is_ok(recv), ast.unparse(recv)))
        elif isinstance(f, ast.Name) and f.id in PRIM_FUNCS and node.args:
            self.sites.append((f.id, node.lineno, self.is_ok(node.args[0]), ast.unparse(node.args[0])))
        elif isinstance(f, ast.Attribute) and f.attr in self.helpers and isinstance(f.value, ast.Name) and f.value.id == self.selfname and node.args:
            # a helper that takes a path: its argument is checked here, its body is checked with the parameter trusted
            self.sites.append((f.attr, node.lineno, self.is_ok(node.args[0]), ast.unparse(node.args[0])))
        self.generic_visit(node)


def check_origin(repo, cls, sources, skip=(), helpers=()):
    out = []
    c = repo.cls(cls)
    if c is None:
        return [dict(name="%s#shape:class-exists" % cls, kind="shape", result="undischarged", backend="static", seconds=0.0, reason="class not found")]
    for mname, fdef in sorted(c.methods.items()):
        if mname in sources or mname in skip or not fdef.args.args:
            continue
        okp = [fdef.args.args[1].arg] if mname in helpers and len(fdef.args.args) > 1 else []
        v = _Origin(set(sources), fdef.args.args[0].arg, helpers=helpers, ok_params=okp)
        v.visit(fdef)
        counts = {}
        for prim, line, ok, txt in v.sites:
            k = counts.get(prim, 0)
            counts[prim] = k + 1
            out.append(dict(name="%s.%s.%s#trace:path-comes-from-%s@%s/%d" % (c.module.name, cls, mname, "|".join(sorted(sources)), prim, k),
                            kind="trace", result="discharged" if ok else "undischarged", backend="static", seconds=0.0, line=line,
                            reason=None if ok else "file-system primitive %s receives `%s`, which does not originate from %s" % (prim, txt, sorted(sources))))
    return out


def _is_write_open(call):
    if isinstance(call.func, ast.Name) and call.func.id == "open":
        mode = None
        if len(call.args) > 1 and isinstance(call.args[1], ast.Constant):
            mode = call.args[1].value
        for k in call.keywords:
            if k.arg == "mode" and isinstance(k.value, ast.Constant):
                mode = k.value.value
        return isinstance(mode, str) and any(c in mode for c in "wax+")
    return False


def check_atomic_helper(repo, cls, meth):
    """The helper writes the bytes to a *different* (temporary) path and renames it onto the target:
    the only write-mode open()/write_bytes goes to a local name that is not the `path` parameter, and an
    os.replace(tmp, path) / tmp.replace(path) onto the parameter follows it."""
    c = repo.cls(cls)
    name = "%s.%s.%s#trace:writes-a-temporary-file-then-renames-it-onto-the-target" % (c.module.name if c else "?", cls, meth)
    ok, why = False, "method not found"
    fdef = c.methods.get(meth) if c else None
    if fdef is not None and len(fdef.args.args) >= 2:
        target = fdef.args.args[1].arg
        writes, renames = [], []
        for n in ast.walk(fdef):
            if isinstance(n, ast.Call):
                if _is_write_open(n) and n.args:
                    writes.append((n.lineno, ast.unparse(n.args[0])))
                if isinstance(n.func, ast.Attribute) and n.func.attr in ("write_bytes", "write_text"):
                    writes.append((n.lineno, ast.unparse(n.func.value)))
                if isinstance(n.func, ast.Attribute) and n.func.attr == "replace" and n.args:
                    if isinstance(n.func.value, ast.Name) and n.func.value.id == "os" and len(n.args) == 2:
                        renames.append((n.lineno, ast.unparse(n.args[0]), ast.unparse(n.args[1])))
                    elif not (isinstance(n.func.value, ast.Name) and n.func.value.id == "os"):
                        renames.append((n.lineno, ast.unparse(n.func.value), ast.unparse(n.args[0])))
        bad = [w for w in writes if w[1] == target]
        good = [r for r in renames if r[2] == target and any(w[1] == r[1] and w[0] < r[0] for w in writes)]
        # the temporary file must be complete and closed before it is renamed: a rename inside the `with open(tmp, ...)` block
        # (or before an explicit close) would put a file whose buffered content is not yet written under the final name
        early = []
        for w in ast.walk(fdef):
            if isinstance(w, ast.With) and any(isinstance(it.context_expr, ast.Call) and _is_write_open(it.context_expr) for it in w.items):
                for n in ast.walk(w):
                    if isinstance(n, ast.Call) and isinstance(n.func, ast.Attribute) and n.func.attr == "replace" and n.args:
                        early.append(n.lineno)
        opens_outside_with = [n.lineno for n in ast.walk(fdef) if isinstance(n, ast.Call) and _is_write_open(n)
                              and not any(isinstance(w, ast.With) and any(it.context_expr is n for it in w.items) for w in ast.walk(fdef))]
        ok = bool(writes) and not bad and bool(good) and not early and not opens_outside_with
        why = "writes=%r renames=%r target=%r rename-before-close-at-lines=%r write-open-outside-with=%r" % (writes, renames, target, early, opens_outside_with)
    return [dict(name=name, kind="trace", result="discharged" if ok else "undischarged", backend="static", seconds=0.0,
                 reason=None if ok else "not a write-temporary-then-rename helper: " + why)]


def check_no_inplace(repo, cls, methods, helper):
    """In the listed methods every write of file content goes through the atomic helper."""
    out = []
    c = repo.cls(cls)
    for m in methods:
        fdef = c.methods.get(m) if c else None
        name = "%s.%s.%s#trace:file-content-is-written-only-through-%s" % (c.module.name if c else "?", cls, m, helper)
        if fdef is None:
            out.append(dict(name=name, kind="trace", result="undischarged", backend="static", seconds=0.0, reason="method not found"))
            continue
        bad, uses = [], 0
        for n in ast.walk(fdef):
            if isinstance(n, ast.Call):
                if _is_write_open(n):
                    bad.append("open(.., write mode) at line %d" % n.lineno)
                if isinstance(n.func, ast.Attribute) and n.func.attr in ("write_bytes", "write_text", "dump"):
                    bad.append("%s at line %d" % (n.func.attr, n.lineno))
                if isinstance(n.func, ast.Attribute) and n.func.attr == helper:
                    uses += 1
        ok = not bad
        out.append(dict(name=name, kind="trace", result="discharged" if ok else "undischarged", backend="static", seconds=0.0,
                        reason=None if ok else "in-place write: " + "; ".join(bad)))
    return out


def check_call_order(repo, cls, meth, first, then):
    """On every path of the method, every call of `then` is preceded by a call of `first` (syntactic dominance:
    `first` occurs earlier in the same or an enclosing statement list and is not inside a conditional that excludes `then`)."""
    c = repo.cls(cls)
    name = "%s.%s.%s#trace:%s-before-%s" % (c.module.name if c else "?", cls, meth, first, then)
    fdef = c.methods.get(meth) if c else None
    ok, why = False, "method not found"
    if fdef is not None:
        def calls(node, attr):
            return [n for n in ast.walk(node) if isinstance(n, ast.Call) and isinstance(n.func, ast.Attribute) and n.func.attr == attr]

        def dominated(stmts, seen):
            okk = True
            for s in stmts:
                if isinstance(s, (ast.If, ast.Try, ast.With, ast.For, ast.While)):
                    blocks = [getattr(s, f, []) for f in ("body", "orelse", "finalbody")] + [h.body for h in getattr(s, "handlers", [])]
                    here = [n for f in ("test", "iter", "items") for n in ([getattr(s, f)] if hasattr(s, f) and not isinstance(getattr(s, f), list) else [])]
                    for h in here:
                        if calls(h, then) and not seen:
                            okk = False
                    for b in blocks:
                        if b and not dominated(b, seen):
                            okk = False
                else:
                    if calls(s, then) and not seen and not (calls(s, first)):
                        okk = False
                    if calls(s, first):
                        seen = True
            return okk
        ok = bool(calls(fdef, then)) and bool(calls(fdef, first)) and dominated(fdef.body, False)
        why = "%s is reachable without a preceding %s" % (then, first)
    return [dict(name=name, kind="trace", result="discharged" if ok else "undischarged", backend="static", seconds=0.0, reason=None if ok else why)]


def check_contains(repo, qualname, label, snippets, kind="ownership"):
    """Ownership obligation (DESIGN 3.3), decided syntactically: the function contains each of the given expressions /
    statements (compared after normalisation by ast.unparse), e.g. `return deepcopy(self.metadata)`."""
    found = repo.find(qualname)
    name = "%s#%s:%s" % (qualname, kind, label)
    if found is None:
        return [dict(name=name, kind=kind, result="undischarged", backend="static", seconds=0.0, reason="function not found")]
    fdef = found[0]
    have = set()
    for n in ast.walk(fdef):
        if isinstance(n, (ast.expr, ast.stmt)):
            try:
                have.add(ast.unparse(n))
            except Exception:
                pass
    missing = []
    for sn in snippets:
        try:
            tree = ast.parse(sn)
            canon = ast.unparse(tree.body[0].value if isinstance(tree.body[0], ast.Expr) else tree.body[0])
        except SyntaxError:
            canon = sn
        if canon not in have:
            missing.append(canon)
    ok = not missing
    return [dict(name=name, kind=kind, result="discharged" if ok else "undischarged", backend="static", seconds=0.0,
                 reason=None if ok else "expected (deep-copying) expression not found: %s" % "; ".join(missing))]


# ------------------------------------------------------------------ ownership by data flow (robust to renamed locals)
DEEP_FUNCS = {"deepcopy", "copy_state_data", "vars_clone"}          # assumed / separately obliged to return an unshared value
DEEP_METHODS = {"deepcopy", "clone", "as_dict", "from_bytes"}                     # x.clone(), x.as_dict(), copy.deepcopy(x)


def _is_fresh(e, fdef, params, seen, unless=None):
    """Is the value of expression `e` unshared with anything the caller (or the receiver) can reach?  Syntactic data flow:
    constants; calls of the deep copiers; `t.copy(x)` (the one-argument state-type copy, never the shallow `d.copy()`);
    constructor calls / `from_dict` whose arguments are fresh; literals of fresh parts; locals all of whose assignments are fresh."""
    if isinstance(e, ast.Constant):
        return True
    if isinstance(e, ast.Call):
        f = e.func
        if isinstance(f, ast.Name):
            if f.id in DEEP_FUNCS:
                return True
            if f.id[:1].isupper():
                return all(_is_fresh(a, fdef, params, seen) for a in e.args) and all(_is_fresh(k.value, fdef, params, seen) for k in e.keywords)
            return False
        if isinstance(f, ast.Attribute):
            if f.attr in DEEP_METHODS:
                return True
            if f.attr == "copy" and len(e.args) == 1 and not e.keywords:
                return True
            if f.attr == "from_dict":
                return all(_is_fresh(a, fdef, params, seen) for a in e.args)
            if f.attr == "__class__":
                return not e.args
        return False
    if isinstance(e, ast.Name):
        if e.id in params or e.id in seen:
            return False
        assigns = []
        for n in ast.walk(fdef):
            if isinstance(n, ast.Assign):
                for t in n.targets:
                    if isinstance(t, ast.Name) and t.id == e.id:
                        assigns.append(n.value)
                    elif isinstance(t, (ast.Tuple, ast.List)) and any(isinstance(x, ast.Name) and x.id == e.id for x in ast.walk(t)):
                        return False
            elif isinstance(n, (ast.AugAssign, ast.AnnAssign, ast.NamedExpr)) and isinstance(n.target, ast.Name) and n.target.id == e.id:
                if getattr(n, "value", None) is None or isinstance(n, ast.AugAssign):
                    return False
                assigns.append(n.value)
            elif isinstance(n, (ast.For, ast.comprehension)) and any(isinstance(x, ast.Name) and x.id == e.id for x in ast.walk(n.target)):
                return False
            elif isinstance(n, ast.With):
                for it in n.items:
                    if it.optional_vars is not None and any(isinstance(x, ast.Name) and x.id == e.id for x in ast.walk(it.optional_vars)):
                        return False
        return bool(assigns) and all(_is_fresh(v, fdef, params, seen | {e.id}, unless) for v in assigns)
    if isinstance(e, ast.IfExp):
        if unless is not None and any(isinstance(x, ast.Name) and x.id == unless for x in ast.walk(e.test)) and isinstance(e.test, ast.Name):
            return _is_fresh(e.orelse, fdef, params, seen)
        return _is_fresh(e.body, fdef, params, seen) and _is_fresh(e.orelse, fdef, params, seen)
    if isinstance(e, (ast.Tuple, ast.List, ast.Set)):
        return all(_is_fresh(x, fdef, params, seen) for x in e.elts)
    if isinstance(e, ast.Dict):
        return all(k is not None and _is_fresh(k, fdef, params, seen) for k in e.keys) and all(_is_fresh(v, fdef, params, seen) for v in e.values)
    if isinstance(e, ast.JoinedStr):
        return True
    return False


def check_owned(repo, qualname, label, sink, unless=None):
    """Ownership obligation (DESIGN 3.3) by data flow on the real source: every value reaching the named sink is unshared.
    sinks: "return" | "attr:<name>" (stores to <x>.<name>) | "item:<attr>" (stores to <x>.<attr>[..]) |
    "arg:<callee>:<i>" (i-th positional argument of every call of <callee>) | "kwcall:<kw>:<i>" (of every call passing keyword <kw>).  `unless=<flag>`: `a if <flag> else b` needs only b."""
    found = repo.find(qualname)
    name = "%s#ownership:%s" % (qualname, label)
    if found is None:
        return [dict(name=name, kind="ownership", result="undischarged", backend="static", seconds=0.0, reason="function not found")]
    fdef = found[0]
    a = fdef.args
    params = {x.arg for x in a.posonlyargs + a.args + a.kwonlyargs} | ({a.vararg.arg} if a.vararg else set()) | ({a.kwarg.arg} if a.kwarg else set())
    sinks = []
    own = [n for n in ast.walk(fdef)]
    nested = set()
    for n in own:
        if n is not fdef and isinstance(n, (ast.FunctionDef, ast.AsyncFunctionDef, ast.Lambda)):
            nested |= {id(x) for x in ast.walk(n) if x is not n}
    for n in own:
        if id(n) in nested:
            continue
        if sink == "return" and isinstance(n, ast.Return) and n.value is not None:
            sinks.append(n.value)
        elif sink.startswith("attr:") and isinstance(n, ast.Assign):
            for t in n.targets:
                if isinstance(t, ast.Attribute) and t.attr == sink[5:]:
                    sinks.append(n.value)
        elif sink.startswith("item:") and isinstance(n, ast.Assign):
            for t in n.targets:
                if isinstance(t, ast.Subscript) and isinstance(t.value, ast.Attribute) and t.value.attr == sink[5:]:
                    sinks.append(n.value)
        elif sink.startswith("kwcall:") and isinstance(n, ast.Call):
            _, kw, idx = sink.split(":")
            if any(k.arg == kw for k in n.keywords) and len(n.args) > int(idx) and not isinstance(n.args[int(idx)], ast.Starred):
                sinks.append(n.args[int(idx)])
        elif sink.startswith("arg:") and isinstance(n, ast.Call):
            _, callee, idx = sink.split(":")
            f = n.func
            fname = f.id if isinstance(f, ast.Name) else f.attr if isinstance(f, ast.Attribute) else None
            if fname == callee and len(n.args) > int(idx) and not isinstance(n.args[int(idx)], ast.Starred):
                sinks.append(n.args[int(idx)])
    if not sinks:
        return [dict(name=name, kind="ownership", result="undischarged", backend="static", seconds=0.0, reason="no sink of the form %s in the function" % sink)]
    bad = [ast.unparse(v) for v in sinks if not _is_fresh(v, fdef, params, frozenset(), unless)]
    ok = not bad
    return [dict(name=name, kind="ownership", result="discharged" if ok else "undischarged", backend="static", seconds=0.0,
                 reason=None if ok else "value reaching %s is not a deep copy: %s" % (sink, "; ".join(bad)))]


def check_argfrom(repo, qualname, label, callee, idx, producer):
    """Every call of `callee` inside the function passes, as its idx-th positional argument, the result of `<x>.<producer>(...)`
    (possibly through locals all of whose assignments are such calls)."""
    found = repo.find(qualname)
    name = "%s#origin:%s" % (qualname, label)
    if found is None:
        return [dict(name=name, kind="origin", result="undischarged", backend="static", seconds=0.0, reason="function not found")]
    fdef = found[0]

    def from_producer(e, seen=frozenset()):
        if isinstance(e, ast.Call):
            f = e.func
            return (isinstance(f, ast.Attribute) and f.attr == producer) or (isinstance(f, ast.Name) and f.id == producer)
        if isinstance(e, ast.IfExp):
            return from_producer(e.body, seen) and from_producer(e.orelse, seen)
        if isinstance(e, ast.Name) and e.id not in seen:
            vals = [n.value for n in ast.walk(fdef) if isinstance(n, ast.Assign) and any(isinstance(t, ast.Name) and t.id == e.id for t in n.targets)]
            return bool(vals) and all(from_producer(v, seen | {e.id}) for v in vals)
        return False
    sites = []
    for n in ast.walk(fdef):
        if isinstance(n, ast.Call):
            f = n.func
            fname = f.id if isinstance(f, ast.Name) else f.attr if isinstance(f, ast.Attribute) else None
            if fname == callee and len(n.args) > idx:
                sites.append(n.args[idx])
    if not sites:
        return [dict(name=name, kind="origin", result="undischarged", backend="static", seconds=0.0, reason="no call of %s in the function" % callee)]
    bad = [ast.unparse(a) for a in sites if not from_producer(a)]
    ok = not bad
    return [dict(name=name, kind="origin", result="discharged" if ok else "undischarged", backend="static", seconds=0.0,
                 reason=None if ok else "argument %d of %s is not produced by %s: %s" % (idx, callee, producer, "; ".join(bad)))]


def run_static(repo, spec):
    kind = spec[0]
    if kind == "inherits":
        return check_inherits(repo, spec[1], spec[2], spec[3])
    if kind == "origin":
        return check_origin(repo, spec[1], spec[2], spec[3] if len(spec) > 3 else (), spec[4] if len(spec) > 4 else ())
    if kind == "atomic":
        return check_atomic_helper(repo, spec[1], spec[2])
    if kind == "no-inplace":
        return check_no_inplace(repo, spec[1], spec[2], spec[3])
    if kind == "argfrom":
        return check_argfrom(repo, spec[1], spec[2], spec[3], spec[4], spec[5])
    if kind == "owned":
        return check_owned(repo, spec[1], spec[2], spec[3], spec[4] if len(spec) > 4 else None)
    if kind == "contains":
        return check_contains(repo, spec[1], spec[2], spec[3], spec[4] if len(spec) > 4 else "ownership")
    if kind == "order":
        return check_call_order(repo, spec[1], spec[2], spec[3], spec[4])
    raise ValueError(kind)
