"""./check <property> [--tier quick|thorough] [--replay file]

Regenerates every verification condition of the property from /repo's current working tree,
discharges them, replays counterexamples on the real code, runs the labelled bounded stand-ins,
writes evidence/<id>.json and prints VIOLATION / KNOWN-FINDING lines.

exit 0: every obligation discharged (or only listed known findings fail) and no bounded stand-in fired
exit 1: VIOLATION line(s) printed
exit 3: the checker itself failed (never mapped to a violation)
"""
import argparse
import json
import multiprocessing
import os
import re
import subprocess
import sys
import time
import traceback

HERE = os.path.dirname(os.path.dirname(os.path.abspath(__file__)))
REPO = os.environ.get("LIQUER_REPO", "/repo")
VENV_PY = "/venv/bin/python"


def sanitize(name):
    return re.sub(r"[^A-Za-z0-9_.#:@-]+", "_", name).replace("/", "_")[:180]


def load_known():
    p = os.path.join(HERE, "known_findings.json")
    if not os.path.exists(p):
        return []
    return json.load(open(p)).get("findings", [])


def run_venv(args, timeout):
    env = dict(os.environ)
    env["PYTHONPATH"] = HERE + os.pathsep + REPO
    env["LIQUER_VERIF"] = "1"
    env["LIQUER_REPO"] = REPO
    try:
        p = subprocess.run([VENV_PY] + args, capture_output=True, text=True, timeout=timeout, env=env, cwd=HERE)
    except subprocess.TimeoutExpired:
        return None, "timeout after %ss" % timeout
    out = p.stdout.strip().splitlines()
    for line in reversed(out):
        if line.startswith("{"):
            try:
                return json.loads(line), p.stderr[-2000:]
            except Exception:
                pass
    return None, (p.stdout[-1500:] + "\n" + p.stderr[-2500:])


def main(argv=None):
    ap = argparse.ArgumentParser()
    ap.add_argument("pid")
    ap.add_argument("--tier", default=os.environ.get("VERIF_TIER", "quick"))
    ap.add_argument("--replay", default=None)
    ap.add_argument("--jobs", type=int, default=16)
    a = ap.parse_args(argv)
    pid = a.pid
    seed = int(os.environ.get("VERIF_SEED", "0") or 0)
    tier = a.tier if a.tier in ("quick", "thorough") else "quick"
    t0 = time.time()
    if a.replay:
        res, err = run_venv([os.path.join(HERE, "replay", "run.py"), "replay", pid, a.replay], 600)
        print(json.dumps(res, indent=1) if res else err)
        if res and res.get("confirmed"):
            print("VIOLATION property=%s replay=%s" % (pid, a.replay))
            return 1
        return 0

    sys.setrecursionlimit(20000)
    from .run import load_contracts, verify_unit
    load_contracts()
    from . import dsl
    p = dsl.REG.props.get(pid, dict(fucs=[], lemmas=[], notes=[], static=[]))
    timeout = 10.0 if tier == "quick" else 60.0
    allb = tier == "thorough"
    units = [("fuc", f, timeout, allb, REPO) for f in p["fucs"]] + [("lemma", l, timeout, allb, REPO) for l in p["lemmas"]] \
        + [("static", x, timeout, allb, REPO) for x in p.get("static", [])]
    # bounded stand-in runs concurrently (own process, real code under /venv)
    bounded_proc = None
    bfile = os.path.join(HERE, "replay", pid.lower() + ".py")
    if os.path.exists(bfile):
        env = dict(os.environ)
        env["PYTHONPATH"] = HERE + os.pathsep + REPO
        env["LIQUER_VERIF"] = "1"
        bounded_proc = subprocess.Popen([VENV_PY, os.path.join(HERE, "replay", "run.py"), "bounded", pid, tier, str(seed)],
                                        stdout=subprocess.PIPE, stderr=subprocess.PIPE, text=True, env=env, cwd=HERE)
    ctx = multiprocessing.get_context("fork")
    results = []
    if units:
        # watchdog: an in-process solver call that ignores its own timeout (seen once with z3 on a sequence VC: a worker spinning for half an
        # hour) must not hang the check - the units that did not finish in time are run once more in fresh processes; a unit that does not
        # finish then either is a checker error (exit 3), never a verdict
        limit = int(os.environ.get("PYVC_UNIT_DEADLINE", "2400" if tier == "thorough" else "600"))
        done, pending = {}, list(range(len(units)))
        for _attempt in (1, 2):
            if not pending:
                break
            pool = ctx.Pool(min(a.jobs, max(1, len(pending))))
            try:
                handles = [(i, pool.apply_async(verify_unit, (units[i],))) for i in pending]
                deadline = time.time() + limit
                late = []
                for i, h in handles:
                    try:
                        done[i] = h.get(timeout=max(1.0, deadline - time.time()))
                    except multiprocessing.TimeoutError:
                        late.append(i)
            finally:
                pool.terminate()
                pool.join()
            if late:
                print("note: %d unit(s) did not finish within %d s (%s); running them again in fresh processes" % (
                    len(late), limit, ", ".join(str(units[i][1])[:80] for i in late)))
            pending = late
        if pending:
            print("checker error: unit(s) did not terminate: %s" % ", ".join(str(units[i][1])[:120] for i in pending))
            if bounded_proc is not None:
                bounded_proc.kill()
            return 3
        results = [done[i] for i in range(len(units))]

    vcs = [dict(v, unit=r["unit"]) for r in results for v in r["vcs"]]
    by_name = {}
    for v in vcs:
        by_name.setdefault(v["name"], []).append(v)
    n_obl = len(by_name)
    failing = {n: [v for v in vs if v["result"] != "discharged"] for n, vs in by_name.items()}
    failing = {n: vs for n, vs in failing.items() if vs}
    n_dis = n_obl - len(failing)
    if units and (len(vcs) == 0 or n_obl == 0):
        print("checker error: zero obligations generated for %s" % pid)
        return 3
    if not units and bounded_proc is None:
        print("checker error: nothing to check for %s" % pid)
        return 3

    # bounded stand-in result
    bounded = None
    bounded_err = None
    if bounded_proc is not None:
        try:
            out, err = bounded_proc.communicate(timeout=3000 if tier == "thorough" else 900)
            for line in reversed(out.strip().splitlines()):
                if line.startswith("{"):
                    bounded = json.loads(line)
                    break
            if bounded is None:
                bounded_err = (out[-1000:] + "\n" + err[-3000:])
        except subprocess.TimeoutExpired:
            bounded_proc.kill()
            bounded_err = "bounded stand-in timed out"
    if bounded_proc is not None and bounded is None and not failing:
        # an exception that was raised inside the code under test (innermost frame in the repository) and that the stand-in did not
        # expect is a run-time contract that fired ("this operation completes"); anything else is a defect of the checker itself
        frames = re.findall(r'File "([^"]+)", line \d+', bounded_err or "")
        here_idx = max([i for i, fr in enumerate(frames) if os.path.abspath(fr).startswith(HERE + os.sep)] or [-1])
        through_repo = any(os.path.abspath(fr).startswith(os.path.abspath(REPO) + os.sep) for fr in frames[here_idx + 1:])
        if frames and through_repo and "Traceback" in (bounded_err or ""):
            os.makedirs(os.path.join(HERE, "replays", pid), exist_ok=True)
            rp = os.path.join("replays", pid, "bounded_crash.json")
            with open(os.path.join(HERE, rp), "w") as f:
                json.dump(dict(property=pid, obligation="bounded-stand-in:every operation of the explored histories completes or fails in a declared way",
                               traceback=(bounded_err or "")[-3000:], repo=REPO), f, indent=1)
            print("failed obligation: bounded-stand-in:an undeclared exception escaped from the code under test (%s)" % (bounded_err or "").strip().splitlines()[-1][:160])
            print("VIOLATION property=%s replay=%s" % (pid, rp))
            return 1
        print("checker error: bounded stand-in crashed:\n%s" % bounded_err)
        return 3
    if bounded_proc is not None and bounded is None:
        # the stand-in died (typically an exception escaping from the changed code itself) while deductive obligations fail:
        # the failed obligations are reported; the crash is recorded, not mapped to a verdict of its own
        print("note: bounded stand-in crashed (recorded in the evidence); reporting the failed obligations")

    known = load_known()
    os.makedirs(os.path.join(HERE, "replays", pid), exist_ok=True)
    violations = []
    known_hits = []
    samples = []
    for name, vs in sorted(failing.items()):
        v = vs[0]
        entry = next((k for k in known if k.get("property") == pid and k.get("status") == "known"
                      and name in k.get("obligations", [])), None)
        rp = os.path.join("replays", pid, sanitize(name) + ".json")
        doc = dict(property=pid, obligation=name, kind=v["kind"], result=v["result"], reason=v.get("reason"), line=v.get("line"),
                   path=v.get("path"), inputs=v.get("inputs"), model=v.get("model"), solver_output=v.get("tried"),
                   failing_vcs=len(vs), repo=REPO)
        confirmed = None
        detail = None
        if v.get("inputs") is not None:
            with open(os.path.join(HERE, rp), "w") as f:
                json.dump(doc, f, indent=1, default=str)
            res, err = run_venv([os.path.join(HERE, "replay", "run.py"), "replay", pid, os.path.join(HERE, rp)], 300)
            if res is not None:
                confirmed = bool(res.get("confirmed"))
                detail = res
            else:
                detail = dict(error=err)
        if not confirmed and bounded and bounded.get("violations"):
            # a concrete failing input found by the bounded search of the same executable contract
            cand = [b for b in bounded["violations"] if b.get("function") and b["function"] in name] or bounded["violations"]
            doc["bounded_witness"] = cand[0]
            confirmed = True
        doc["replayed"] = confirmed
        doc["replay_detail"] = detail
        with open(os.path.join(HERE, rp), "w") as f:
            json.dump(doc, f, indent=1, default=str)
        if entry is not None:
            known_hits.append((name, entry))
            continue
        violations.append((name, rp, confirmed))
    # bounded stand-in violations with no failing obligation are violations too (run-time contract fired on the real code)
    if bounded and bounded.get("violations"):
        for i, b in enumerate(bounded["violations"][:12]):
            if b.get("known"):
                # only findings listed in the committed known_findings.json are known; the label a stand-in attaches is a hint
                entry = next((k for k in known if k.get("property") == pid and k.get("status") == "known"
                              and k.get("witness") and (k["witness"] in b["known"] or b["known"] in k["witness"])), None)
                if entry is not None:
                    if not any(e is entry for _, e in known_hits):
                        known_hits.append(("bounded-stand-in", entry))
                    continue
            if sum(1 for (n_, _, _) in violations if n_.startswith("bounded-stand-in")) >= 3:
                break
            rp = os.path.join("replays", pid, "bounded_%d.json" % i)
            with open(os.path.join(HERE, rp), "w") as f:
                json.dump(dict(property=pid, obligation="bounded-stand-in:" + str(b.get("contract")), bounded_witness=b, repo=REPO), f,
                          indent=1, default=str)
            violations.append(("bounded-stand-in:" + str(b.get("contract")), rp, True))

    for name, vs in list(by_name.items())[:4]:
        samples.append(dict(obligation=name, vcs=len(vs), result=vs[0]["result"], backend=vs[0]["backend"]))
    for name, rp, c in violations[:3]:
        samples.append(dict(obligation=name, result="VIOLATION", replay=rp, replayed=c))
    if bounded:
        for x in (bounded.get("samples") or [])[:3]:
            samples.append(x)
        for x in (bounded.get("standins") or [])[:3]:
            samples.append(dict(bounded_standin=x.get("name"), bound=x.get("bound"), cases=x.get("cases")))
    by_backend = {}
    for v in vcs:
        if v["result"] == "discharged":
            b = by_backend.setdefault(v["backend"], dict(vcs=0, seconds=0.0))
            b["vcs"] += 1
            b["seconds"] = round(b["seconds"] + v["seconds"], 3)
    slowest = sorted(vcs, key=lambda v: -v["seconds"])[:5]
    assumptions = set()
    fucs = []
    for r in results:
        m = r["meta"]
        for x in m.get("assumptions", []):
            assumptions.add(x)
        for k, q in m.get("used_contracts", []):
            if k in ("assumed", "interface"):
                assumptions.add("%s contract used, not proved here: %s" % (k, q))
        if m.get("dropped_calls"):
            assumptions.add("extraction drops effect-free calls: " + ", ".join(m["dropped_calls"][:12]))
        fucs.append(dict(name=m["qualname"], kind=m["kind"], file=m.get("file"), lines=m.get("lines"), source_hash=m.get("source_hash"),
                         paths=m.get("paths"), vcs=len(r["vcs"]), gen_seconds=round(m.get("gen_seconds", 0), 2)))
    for n in p.get("notes", []):
        assumptions.add(n)
    assumptions.update([
        "Python int is mathematical; str is a sequence of code points (solver alphabet stops at U+2FFFF)",
        "object fields are exactly those declared in the sidecar class declarations; no reflection / monkey-patching inside a FUC",
        "container-valued fields (sets, dicts, lists) are not aliased between objects",
        "spec functions terminate (their definitional equations are instantiated as axioms)",
        "z3/cvc5 are trusted for `unsat`; `sat` models are validated by re-evaluation",
    ])
    level = "proof" if units else "exploration"
    try:        # the level claimed for the property as a whole is the manifest's (a property whose deciding part is bounded says exploration)
        for c_ in json.load(open(os.path.join(HERE, "MANIFEST.json")))["checks"]:
            if c_["property_id"] == pid:
                level = c_["level_claimed"]["category"]
    except Exception:
        pass
    coverage = dict(
        obligations=n_obl, discharged=n_dis, verification_conditions=len(vcs),
        vcs_discharged=sum(1 for v in vcs if v["result"] == "discharged"),
        checker_cmd="./check %s --tier %s" % (pid, tier),
        trusted_base=["pyvc VC generator (/verif/pyvc)", "z3 5.1.0", "cvc5 1.0.3", "z3 4.8.12", "CPython ast module",
                      "sidecar contracts /verif/contracts (specifications are trusted to say what the property says)"],
        functions_under_contract=fucs, by_backend=by_backend,
        slowest=[dict(obligation=v["name"], seconds=round(v["seconds"], 3), backend=v["backend"]) for v in slowest],
        samples=samples,
        bounded_standins=(bounded or {}).get("standins", []),
        known_findings=[dict(obligation=n, what=k.get("what")) for n, k in known_hits],
        undischarged=[dict(obligation=n, result=vs[0]["result"], reason=vs[0].get("reason")) for n, vs in sorted(failing.items())][:40],
    )
    if bounded:
        coverage["evaluations"] = int(bounded.get("evaluations", 0))
        coverage["distinct_nontrivial"] = int(bounded.get("distinct_nontrivial", 0))
        coverage["rule"] = bounded.get("rule", "")
    if bounded and not units and int(bounded.get("evaluations", 0)) == 0:
        print("checker error: the bounded stand-in explored nothing")
        return 3
    ev = dict(property_id=pid, tier=tier, seed=seed, level=level, coverage=coverage, assumptions=sorted(assumptions),
              wall_s=round(time.time() - t0, 2), violations=len(violations))
    os.makedirs(os.path.join(HERE, "evidence"), exist_ok=True)
    with open(os.path.join(HERE, "evidence", pid + ".json"), "w") as f:
        json.dump(ev, f, indent=1, default=str)

    print("%s tier=%s: %d obligations (%d VCs), %d discharged; bounded stand-ins: %s; %.1fs" % (
        pid, tier, n_obl, len(vcs), n_dis,
        ", ".join("%s[%s cases]" % (s.get("name"), s.get("cases")) for s in (bounded or {}).get("standins", [])) or "none",
        time.time() - t0))
    for name, k in known_hits:
        print("KNOWN-FINDING: property=%s %s" % (pid, k.get("what") or name))
    for name, rp, c in violations:
        print("failed obligation: %s%s" % (name, "" if c else "  (no failing input reproduced)"))
        print("VIOLATION property=%s replay=%s%s" % (pid, rp, "" if c else " no-failing-input-found"))
    return 1 if violations else 0


if __name__ == "__main__":
    try:
        rc = main()
    except SystemExit:
        raise
    except Exception:
        traceback.print_exc()
        rc = 3
    sys.exit(rc)
