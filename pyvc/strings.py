"""Assumed contracts of the string idioms the repository uses.

``s.split(sep)`` is kept lazy (``SplitVal``); only the idioms that occur in the FUCs are
given meaning, each through uninterpreted functions whose defining facts are
instantiated at the ground terms of the use site (no quantifiers):

  s.split(sep)[-1]            -> last_seg(s, sep)
  s.split(sep)[0]             -> first_seg(s, sep)
  sep.join(s.split(sep)[:-1]) -> init_seg(s, sep)
  len(s.split(sep))           -> 1 + count(s, sep)

Facts (for a one-character separator):
  contains(s, sep)  =>  s == init_seg ++ sep ++ last_seg   and  not contains(last_seg, sep)
  !contains(s, sep) =>  last_seg == s  and  init_seg == ""
  contains(s, sep)  =>  s == first_seg ++ sep ++ rest      and  not contains(first_seg, sep)
  !contains(s, sep) =>  first_seg == s
These are cross-checked against CPython in the thorough tier (pyvc.crosscheck).
"""
import ast
import z3

from .vals import (Val, PyList, Str, Int, TStr, TSeq, TSet, mk_str, mk_int, mk_bool, fresh, fresh_name, empty_set)
from .state import Unsupported, Raise

S = z3.StringSort()
last_seg = z3.Function("last_seg", S, S, S)
init_seg = z3.Function("init_seg", S, S, S)
first_seg = z3.Function("first_seg", S, S, S)
rest_seg = z3.Function("rest_seg", S, S, S)
seg_count = z3.Function("seg_count", S, S, z3.IntSort())


def split_facts(s, sep):
    has = z3.Contains(s, sep)
    l, i, f, r = last_seg(s, sep), init_seg(s, sep), first_seg(s, sep), rest_seg(s, sep)
    return [
        z3.Implies(has, z3.And(s == z3.Concat(i, sep, l), z3.Not(z3.Contains(l, sep)))),
        z3.Implies(z3.Not(has), z3.And(l == s, i == z3.StringVal(""))),
        z3.Implies(has, z3.And(s == z3.Concat(f, sep, r), z3.Not(z3.Contains(f, sep)))),
        z3.Implies(z3.Not(has), z3.And(f == s, r == z3.StringVal(""))),
        seg_count(s, sep) >= 1,
        (seg_count(s, sep) == 1) == z3.Not(has),
    ]


class SplitVal:
    """Lazy result of s.split(sep) with optional [:-1] / [1:] trimming."""

    def __init__(self, s, sep, drop_last=False, drop_first=False):
        self.s = s
        self.sep = sep
        self.drop_last = drop_last
        self.drop_first = drop_first

    def facts(self, st, ex):
        key = ("split", self.s.get_id(), self.sep.get_id())
        if key not in st.unfolded:
            st.unfolded.add(key)
            for f in split_facts(self.s, self.sep):
                st.axiom(f)
            ex.note_assumption("builtin str.split/join idioms: last_seg/init_seg/first_seg decomposition facts (pyvc/strings.py)")

    def index(self, idx, st, ex, node):
        self.facts(st, ex)
        i = z3.simplify(idx.t)
        if not z3.is_int_value(i):
            raise Unsupported("symbolic index into split()", node)
        i = i.as_long()
        if self.drop_last:
            raise Unsupported("index into split()[:-1]", node)
        if i == -1:
            return mk_str(last_seg(self.s, self.sep))
        if i == 0:
            return mk_str(first_seg(self.s, self.sep))
        raise Unsupported("split()[%d]" % i, node)

    def slice(self, lo, hi, node):
        if lo is None and hi is not None and z3.simplify(hi.t).eq(z3.IntVal(-1)) and not self.drop_last and not self.drop_first:
            return SplitVal(self.s, self.sep, drop_last=True)
        if hi is None and lo is not None and z3.simplify(lo.t).eq(z3.IntVal(1)) and not self.drop_last and not self.drop_first:
            return SplitVal(self.s, self.sep, drop_first=True)
        raise Unsupported("slice of split()", node)

    def contains(self, x, st, ex):
        """`x in s.split(sep)` for a constant, separator-free x and a one-character separator"""
        from .pathmodel import has_component
        xs = z3.simplify(x.t)
        if not (z3.is_string_value(xs) and z3.is_string_value(z3.simplify(self.sep)) and z3.simplify(self.sep).as_string() == "/"
                and "/" not in xs.as_string() and not self.drop_last):
            raise Unsupported("membership in split()")
        return has_component(self.s, xs.as_string())

    def length(self, st, ex):
        self.facts(st, ex)
        n = seg_count(self.s, self.sep)
        return mk_int(n - 1 if self.drop_last else n)

    def join(self, sep, st, ex, node):
        self.facts(st, ex)
        if not z3.simplify(sep.t).eq(z3.simplify(self.sep)):
            raise Unsupported("join with a different separator", node)
        if self.drop_last:
            return mk_str(init_seg(self.s, self.sep))
        if self.drop_first:
            return mk_str(rest_seg(self.s, self.sep))
        return mk_str(self.s)


def comprehension(ex, node, st, as_set=False):
    """[f(x) for x in S if p(x)] over a set-like S (ListOfSet / Set / dict keys).

    filter only (f is x):   result set = Lambda x. S[x] and p(x)            (exact)
    image:                  result set M is fresh; for every membership test `n in M` made later nothing is known
                            except the two sound facts added here for the element type:
                              M[n]  =>  S[sk(n)] and p(sk(n)) and f(sk(n)) == n      (skolem witness)
                            and contracts supply the converse through `member_intro`.
    The element expression and the filter must be pure (no raise, no side effect)."""
    from .vals import TLSet, TSet, TMap, TOpt, opt_isnone, opt_inner, truth as truth_, coerce
    if len(node.generators) != 1 or node.generators[0].is_async:
        raise Unsupported("nested comprehension", node)
    gen = node.generators[0]
    if not isinstance(gen.target, ast.Name):
        raise Unsupported("comprehension target", node)
    for st1, src in ex.ev(gen.iter, st):
        if isinstance(src, Raise):
            yield st1, src
            continue
        if isinstance(src, PyList):
            # small literal list: evaluate element-wise
            raise Unsupported("comprehension over a literal list", node)
        if isinstance(src.ty, TMap):
            src = Val(TLSet(src.ty.key), [src.terms[0], z3.BoolVal(True)])
        if isinstance(src.ty, TSet):
            src = Val(TLSet(src.ty.elem), [src.t, z3.BoolVal(True)])
        if not isinstance(src.ty, TLSet):
            raise Unsupported("comprehension over %r" % (src.ty,), node)
        ety = src.ty.elem
        (es,) = ety.comps()
        x = z3.Const(fresh_name("cx"), es)
        xv = Val(ety, [x])

        def body(var_term):
            frame = dict(st1.env)
            frame[gen.target.id] = Val(ety, [var_term])
            st1.frames.append(frame)
            saved = (st1.ghost, )
            st1.ghost = True
            try:
                conds = [truth_(ex.ev1(c, st1)) for c in gen.ifs]
                elt = ex.ev1(node.elt, st1)
            finally:
                st1.frames.pop()
                st1.ghost = saved[0]
            return (z3.And(conds) if conds else z3.BoolVal(True)), elt
        cond_x, elt_x = body(x)
        is_identity = isinstance(node.elt, ast.Name) and node.elt.id == gen.target.id
        if is_identity:
            arr = z3.Lambda([x], z3.And(z3.Select(src.terms[0], x), cond_x))
            out = Val(TLSet(ety), [arr, src.terms[1]])
            ex.note_assumption("filter comprehensions are encoded as lambda-arrays (z3 only)")
        else:
            if not isinstance(elt_x, Val) or len(elt_x.terms) != 1:
                raise Unsupported("comprehension element of type %r" % (getattr(elt_x, "ty", elt_x),), node)
            rty = elt_x.ty
            (rs,) = rty.comps()
            n = z3.Const(fresh_name("cn"), rs)
            # M = lambda n. exists x. S[x] and p(x) and f(x) == n
            arr = z3.Lambda([n], z3.Exists([x], z3.And(z3.Select(src.terms[0], x), cond_x, elt_x.t == n)))
            # distinct iff the source is and f is injective on the filtered source (stated over two fresh skolems)
            a, b = z3.Const(fresh_name("ca"), es), z3.Const(fresh_name("cb"), es)
            ca, ea = body(a)
            cb, eb = body(b)
            inj = z3.Implies(z3.And(z3.Select(src.terms[0], a), ca, z3.Select(src.terms[0], b), cb, ea.t == eb.t), a == b)
            out = Val(TLSet(rty), [arr, z3.And(src.terms[1], inj)])
            ex.note_assumption("image comprehensions are encoded as lambda-arrays with an existential body (z3 only); "
                               "`no duplicates` is stated as injectivity of the element expression over two skolem elements")
        if as_set:
            out = Val(TSet(out.ty.elem), [out.terms[0]])
        yield st1, out


# ------------------------------------------------------------------ alphabets (C03: URL-safety of encode_token)
ALPH = z3.Function("alph", S, z3.ArraySort(S, z3.BoolSort()))          # the set of characters (one-character strings) of a string
REPL = z3.Function("str_replace_all", S, S, S, S)


def charset_of(text):
    arr = z3.K(S, z3.BoolVal(False))
    for ch in sorted(set(text)):
        arr = z3.Store(arr, z3.StringVal(ch), True)
    return arr


def alph_of(t):
    """alph(t); exact for a string literal"""
    ts = z3.simplify(t)
    if z3.is_string_value(ts):
        return charset_of(ts.as_string())
    return ALPH(t)


def str_replace_all(ex, st, s, a, b):
    """s.replace(a, b) (all occurrences).  Assumed contract, over alphabets only (cross-checked against CPython):
         alph(r) is a subset of  (alph(s) minus {a} if a is one character that does not occur in b, else alph(s))  union  alph(b)"""
    r = REPL(s, a, b)
    a_s, b_s = z3.simplify(a), z3.simplify(b)
    src = alph_of(s)
    if z3.is_string_value(a_s) and z3.is_string_value(b_s) and len(a_s.as_string()) == 1 and a_s.as_string() not in b_s.as_string():
        src = z3.Store(src, a_s, False)
    st.axiom(z3.IsSubset(ALPH(r), z3.SetUnion(src, alph_of(b))))
    ex.note_assumption("str.replace(a, b): alph(result) is contained in (alph(s) without a, when a is a single character not occurring in b) united with alph(b)")
    return r
