"""Name resolution, heap access, call dispatch, built-ins and value methods."""
import ast
import z3

from .vals import (Val, PyList, PyDict, ExcVal, Callable_, Int, Bool, Str, Bytes, NoneT, NONE, Ty, TInt, TBool, TStr, TBytes,
                   TNone, TRef, TOpt, TSet, TMap, TSeq, TTuple, TRec, TOpaque, TLSet, mk_int, mk_bool, mk_str, fresh,
                   mk_none_opt, mk_some, opt_isnone, opt_inner, empty_set, empty_map, empty_seq, seq_unit, coerce, veq,
                   truth, ite_val, fresh_name)
from .state import Unsupported, Raise, State, feasible
from .repo import BUILTIN_EXC
from . import dsl

DSL_TYPES = {"Int": Int, "Bool": Bool, "Str": Str, "Bytes": Bytes, "NoneT": NoneT}
BUILTIN_FUNCS = {"len", "isinstance", "str", "int", "bool", "list", "set", "dict", "sorted", "type", "reversed", "any", "all",
                 "getattr", "hasattr", "tuple", "repr", "super", "callable", "id", "min", "max", "enumerate", "zip", "range"}
BUILTIN_TYPES = {"str", "int", "bool", "list", "set", "dict", "bytes", "float", "tuple", "object"}
TYP = z3.Function("typ", z3.IntSort(), z3.IntSort())


class CallMixin:
    # ------------------------------------------------------------------ names
    def lookup(self, name, st, node=None):
        env = st.env
        if name in env:
            v = env[name]
            if v is None:
                raise Unsupported("use of unbound local %s" % name, node)
            return v
        if env.get("__contract__"):
            outer = env.get("__outer__")
            if outer is not None and name in outer:
                return outer[name]
            if name in DSL_TYPES:
                return Callable_("type", name, obj=DSL_TYPES[name])
            if name in dsl.REG.specs:
                return Callable_("spec", name, obj=dsl.REG.specs[name])
            if name in dsl.REG.lemmas:
                return Callable_("lemma", name, obj=dsl.REG.lemmas[name])
            if name in ("old", "implies", "result", "use", "hint", "iff", "fresh_ref", "subset", "union", "setminus", "mapdom",
                        "singleton", "setadd", "setdel", "mapset", "mapdel", "seqlen", "issub", "isinst", "typeof", "ite", "mapget",
                        "emptyset", "length", "inter", "exc_is", "some", "unopt", "isnone", "const", "cast", "elems", "distinct",
                        "str_init", "str_last", "str_first", "has", "aslist", "inside", "confined", "pname", "pparent", "pjoin", "rec_has", "rec_get", "rec_set", "log_count", "log_arg", "log_result", "log_result_field", "log_raised", "module", "lower", "alph", "charset", "alnum_chars", "raised", "as_any", "as_data", "str_encode", "bytes_decode"):
                return Callable_("dslfn", name)
        mod = env.get("__mod__")
        if mod is not None:
            md = dsl.REG.classes.get("module:" + mod.name)
            if md is not None and name in md.fields:
                return self.heap_read(st, self.module_ref(mod.name), name)
            if name in mod.functions:
                return Callable_("function", mod.name + "." + name)
            if name in mod.classes:
                return Callable_("class", name)
            if name in mod.consts:
                return self.module_const(mod, name)
            if name in mod.imports:
                src, orig = mod.imports[name]
                if orig is None:
                    return Callable_("module", src)
                m2 = self.repo.module(src) if src and src.startswith("liquer") else None
                if m2 is not None:
                    if orig in m2.functions:
                        return Callable_("function", m2.name + "." + orig)
                    if orig in m2.classes:
                        return Callable_("class", orig)
                    if orig in m2.consts:
                        return self.module_const(m2, orig)
                return Callable_("external", "%s.%s" % (src, orig))
            # star imports from liquer.constants
            for s in mod.tree.body:
                if isinstance(s, ast.ImportFrom) and any(a.name == "*" for a in s.names) and s.module.startswith("liquer"):
                    m2 = self.repo.module(s.module)
                    if m2 and name in m2.functions:
                        return Callable_("function", m2.name + "." + name)
                    if m2 and name in m2.classes:
                        return Callable_("class", name)
                    if m2 and name in m2.consts:
                        return self.module_const(m2, name)
        if self.repo.cls(name) is not None:
            return Callable_("class", name)
        if name in dsl.REG.classes:
            return Callable_("class", name)
        if name in BUILTIN_EXC:
            return Callable_("class", name)
        if name in BUILTIN_TYPES or name in BUILTIN_FUNCS:
            return Callable_("builtin", name)
        if name in ("True", "False"):
            return mk_bool(name == "True")
        raise Unsupported("unresolved name %s" % name, node)

    def module_ref(self, modname):
        """the singleton pseudo-object holding a module's mutable globals"""
        return Val(TRef("module:" + modname), [z3.IntVal(-(abs(hash(modname)) % 1000) - 1)])

    def module_const(self, mod, name):
        key = (mod.name, name)
        if key not in self._const_cache:
            st = State()
            st.frames = [{"__mod__": mod}]
            st.ghost = True
            res = list(self.ev(mod.consts[name], st))
            if len(res) != 1 or isinstance(res[0][1], Raise):
                raise Unsupported("module constant %s.%s" % key)
            self._const_cache[key] = res[0][1]
        return self._const_cache[key]

    def module_attr(self, modc, attr, node):
        m = self.repo.module(modc.name) if modc.name.startswith("liquer") else None
        if m is not None:
            if attr in m.functions:
                return Callable_("function", m.name + "." + attr)
            if attr in m.classes:
                return Callable_("class", attr)
            if attr in m.consts:
                return self.module_const(m, attr)
        return Callable_("external", modc.name + "." + attr)

    def ev_in_module(self, expr, mod, st):
        st.frames.append({"__mod__": mod})
        try:
            res = list(self.ev(expr, st))
        finally:
            pass
        for s, v in res:
            s.frames.pop()
            yield s, v

    # ------------------------------------------------------------------ heap
    def class_decl_chain(self, clsname):
        seen, out = set(), []

        def go(n):
            if n in seen:
                return
            seen.add(n)
            out.append(n)
            d = dsl.REG.classes.get(n)
            bases = list(d.bases) if d else []
            c = self.repo.cls(n)
            if c:
                bases += [b for b in c.bases if b not in bases]
            for b in bases:
                go(b)
        go(clsname)
        return out

    def field_owner(self, clsname, field):
        for n in self.class_decl_chain(clsname):
            d = dsl.REG.classes.get(n)
            if d and field in d.views:      # interface view field realised by a concrete field of this class
                return self.field_owner(clsname, d.views[field]) if d.views[field] != field else (n, d.fields[field])
        for n in self.class_decl_chain(clsname):
            d = dsl.REG.classes.get(n)
            if d and field in d.fields:
                return n, d.fields[field]
        return None, None

    def field_type(self, clsname, field):
        return self.field_owner(clsname, field)[1]

    def heap_arrays(self, st, owner, field, fty):
        key = (owner, field)
        if key not in st.heap:
            st.heap[key] = [z3.Const("heap0!%s.%s!%d" % (owner, field, i), z3.ArraySort(z3.IntSort(), s))
                            for i, s in enumerate(fty.comps())]
        return key, st.heap[key]

    def real_field(self, clsname, field):
        for n in self.class_decl_chain(clsname):
            d = dsl.REG.classes.get(n)
            if d and field in d.views:
                return d.views[field]
        return field

    def heap_read(self, st, ref, field):
        field = self.real_field(ref.ty.cls, field)
        owner, fty = self.field_owner(ref.ty.cls, field)
        key, arrs = self.heap_arrays(st, owner, field, fty)
        v = Val(fty, [z3.Select(a, ref.t) for a in arrs])
        self.assume_wellformed(st, v)
        return v

    def heap_write(self, st, ref, field, value, node=None):
        fty0 = self.field_type(ref.ty.cls, field) if isinstance(ref, Val) and isinstance(ref.ty, TRef) else None
        if fty0 is not None and isinstance(value, Val) and isinstance(value.ty, TOpt) and not isinstance(fty0, TOpt) and value.ty.inner == fty0:
            value = self.narrow(st, value, fty0, node, "value-stored-in-.%s" % field)      # Opt(T) into a T field: must not be None here
        field = self.real_field(ref.ty.cls, field)
        owner, fty = self.field_owner(ref.ty.cls, field)
        if owner is None:
            # the static class does not declare the field: a declared subclass does, and the path says the object is one (isinstance test)
            subs = [n for n, d in dsl.REG.classes.items() if field in d.fields and ref.ty.cls in self.class_decl_chain(n)]
            if len(subs) == 1 and not feasible(st.pc, z3.Not(self.isinstance_term(ref, subs[0]))):
                ref = Val(TRef(subs[0]), ref.terms)
                owner, fty = self.field_owner(ref.ty.cls, field)
        if owner is None and self.cur_ci is not None and field in (self.cur_ci.decl.opts.get("untracked_fields") or ()):
            self.note_assumption("assignments to the attribute .%s are not modelled (declared untracked by the contract of %s)" % (field, self.cur_ci.decl.qualname))
            return
        if owner is None:
            raise Unsupported("assignment to undeclared field %s.%s" % (ref.ty.cls, field), node)
        try:
            value = coerce(value, fty)
        except TypeError as e:
            raise Unsupported("assignment to field %s.%s: %s" % (ref.ty.cls, field, e), node)
        key, arrs = self.heap_arrays(st, owner, field, fty)
        st.heap[key] = [z3.Store(a, ref.t, t) for a, t in zip(arrs, value.terms)]
        st.written.add(key)
        st.written_at.setdefault(key, []).append(ref.t)

    def assume_wellformed(self, st, v):
        """Ground well-formedness facts of a freshly read value (allocated refs, non-negative lengths are built in)."""
        if isinstance(v, Val) and isinstance(v.ty, TRef):
            st.axiom(z3.Select(st.alloc, v.t))
            self.assume_type(st, v)
        if isinstance(v, Val) and isinstance(v.ty, TOpt) and isinstance(v.ty.inner, TRef):
            st.axiom(z3.Or(opt_isnone(v), z3.Select(st.alloc, v.terms[1])))
            st.axiom(z3.Or(opt_isnone(v), self.isinstance_term(opt_inner(v), v.ty.inner.cls)))

    def class_id(self, name):
        if name not in self._class_ids:
            self._class_ids[name] = len(self._class_ids) + 1
        return self._class_ids[name]

    def known_subclasses(self, name):
        subs = set(self.repo.subclasses(name))
        for d in dsl.REG.classes.values():
            if name in self.class_decl_chain(d.name):
                subs.add(d.name)
        subs.add(name)
        return sorted(subs)

    def isinstance_term(self, ref, clsname):
        d = dsl.REG.classes.get(clsname)
        names = [n for n in self.known_subclasses(clsname) if not (d is not None and d.sealed and n == clsname)]
        return z3.Or([TYP(ref.t) == self.class_id(n) for n in names])

    def assume_type(self, st, ref, exact=False):
        d = dsl.REG.classes.get(ref.ty.cls)
        if exact:
            st.axiom(TYP(ref.t) == self.class_id(ref.ty.cls))
        elif d is not None and d.abstract:
            pass     # interface: any implementation
        else:
            st.axiom(self.isinstance_term(ref, ref.ty.cls))

    def alloc_ref(self, st, clsname):
        r = Val(TRef(clsname), [z3.Const(fresh_name("new_" + clsname), z3.IntSort())])
        st.assume(z3.Not(z3.Select(st.alloc, r.t)))
        st.alloc = z3.Store(st.alloc, r.t, True)
        st.assume(TYP(r.t) == self.class_id(clsname))
        st.fresh_refs.append(r)
        return r

    # ------------------------------------------------------------------ calls
    def ev_args(self, node, st):
        """yields (st, (args, kwargs)) or (st, Raise)"""
        plain = [a.value if isinstance(a, ast.Starred) else a for a in node.args]
        starred = [isinstance(a, ast.Starred) for a in node.args]
        kws = [k for k in node.keywords]
        for st1, vs in self.ev_list(plain + [k.value for k in kws], st):
            if isinstance(vs, Raise):
                yield st1, vs
                continue
            n = len(node.args)
            args = []
            for v, is_star in zip(vs[:n], starred):
                if is_star and isinstance(v, PyList):
                    args += v.items                      # *literal: spliced
                else:
                    args.append(v)                       # *sequence of unknown length: handed over as one value (the callee's *args)
            kwargs = {}
            for k, v in zip(kws, vs[n:]):
                if k.arg is None:
                    if isinstance(v, PyDict):
                        kwargs.update(v.items)
                    else:
                        kwargs["__starstar__"] = v       # **mapping of unknown keys
                else:
                    kwargs[k.arg] = v
            yield st1, (args, kwargs)

    def call(self, node, st):
        f = node.func
        # contract-language functions
        if isinstance(f, ast.Name) and st.env.get("__contract__") and f.id in ("old", "forall", "exists", "setof"):
            yield from self.dsl_special(f.id, node, st)
            return
        if isinstance(f, ast.Attribute) and any(isinstance(a, (ast.GeneratorExp, ast.ListComp)) for a in node.args):
            op = self.opaque_spec(f.attr, "?." + f.attr)
            if op is not None and isinstance(op[0], Ty):
                # text assembled from a comprehension and handed to an opaque callee: the argument is not evaluated
                yield st, self.opaque_call(op[0], "?." + f.attr, [NONE], {}, st, node)
                return
        if isinstance(f, ast.Name) and f.id in ("all", "any") and len(node.args) == 1 and isinstance(node.args[0], (ast.GeneratorExp, ast.ListComp)):
            op = self.opaque_spec(f.id, f.id)
            if op is not None and isinstance(op[0], Ty):
                # a test over a comprehension that the FUC's contract declares opaque: any outcome, the element expressions are not
                # evaluated (they are assumed free of effects and exceptions - listed as an assumption)
                self.note_assumption("the comprehension inside %s(...) at line %s is assumed free of effects and exceptions" % (f.id, node.lineno))
                yield st, self.opaque_call(op[0], f.id, [NONE], {}, st, node)
                return
        if isinstance(f, ast.Attribute):
            if isinstance(f.value, ast.Call) and isinstance(f.value.func, ast.Name) and f.value.func.id == "super":
                yield from self.call_super(node, st)
                return
            for st1, obj in self.ev(f.value, st):
                if isinstance(obj, Raise):
                    yield st1, obj
                    continue
                for st2, av in self.ev_args(node, st1):
                    if isinstance(av, Raise):
                        yield st2, av
                        continue
                    args, kwargs = av
                    yield from self.call_attr(obj, f.attr, args, kwargs, st2, node)
            return
        for st1, fn in self.ev(f, st):
            if isinstance(fn, Raise):
                yield st1, fn
                continue
            for st2, av in self.ev_args(node, st1):
                if isinstance(av, Raise):
                    yield st2, av
                    continue
                args, kwargs = av
                yield from self.call_value(fn, args, kwargs, st2, node)

    def call_attr(self, obj, attr, args, kwargs, st, node):
        if isinstance(obj, Callable_) and obj.kind == "module":
            yield from self.call_value(self.module_attr(obj, attr, node), args, kwargs, st, node)
            return
        if isinstance(obj, Callable_) and obj.kind == "class":
            # classmethod / unbound call
            fdef, cinfo = self.repo.lookup_method(obj.name, attr)
            if fdef is None:
                raise Unsupported("unknown class attribute %s.%s" % (obj.name, attr), node)
            kind = cinfo.kinds.get(attr)
            if kind == "classmethod":
                yield from self.call_repo(cinfo.module.name + "." + cinfo.name + "." + attr, fdef, cinfo.module, cinfo,
                                          [obj] + args, kwargs, st, node)
            else:
                yield from self.call_repo(cinfo.module.name + "." + cinfo.name + "." + attr, fdef, cinfo.module, cinfo,
                                          args, kwargs, st, node)
            return
        if isinstance(obj, Val) and isinstance(obj.ty, TOpt) and isinstance(obj.ty.inner, TRef):
            for st1, isn in self.branch(st, opt_isnone(obj)):
                if isn:
                    yield st1, Raise(ExcVal("AttributeError"))
                else:
                    yield from self.call_attr(opt_inner(obj), attr, args, kwargs, st1, node)
            return
        if isinstance(obj, Val) and isinstance(obj.ty, TRef) and attr == "__class__":
            # self.__class__(...): the constructor of the declared class
            self.note_assumption("`self.__class__` is the declared class %s (no instance of a subclass reaches the function)" % obj.ty.cls)
            yield from self.call_value(Callable_("class", obj.ty.cls), args, kwargs, st, node)
            return
        if isinstance(obj, Val) and isinstance(obj.ty, TRef) and getattr(dsl.REG.classes.get(obj.ty.cls), "record", None) and attr == "get":
            yield from self.rec_method(self.unbox_record(obj, st), attr, args, kwargs, st, node, None)
            return
        if isinstance(obj, Val) and isinstance(obj.ty, TRef):
            fty = self.field_type(obj.ty.cls, attr)
            if fty is not None and isinstance(fty, TRef):
                # a callable object kept in a field (self.f(...)): its __call__ contract
                fobj = self.heap_read(st, obj, attr)
                star_only = isinstance(node, ast.Call) and len(node.args) == 1 and isinstance(node.args[0], ast.Starred) and not node.keywords \
                    and len(args) == 1 and not isinstance(args[0], PyList)
                # f(*seq): all positional arguments come from one sequence of unknown length - the interface method __call_star__(self, rest)
                yield from self.call_attr(fobj, "__call_star__" if star_only else "__call__", args, kwargs, st, node)
                return
            if fty is not None:    # callable stored in a field: not supported
                raise Unsupported("call of field %s" % attr, node)
            yield from self.call_method(obj, attr, args, kwargs, st, node)
            return
        if isinstance(obj, Val) and isinstance(obj.ty, TOpt):
            # a method call on None is an AttributeError: fork
            for st1, isn in self.branch(st, opt_isnone(obj)):
                if isn:
                    yield st1, Raise(ExcVal("AttributeError"))
                else:
                    yield from self.value_method(opt_inner(obj), attr, args, kwargs, st1, node)
            return
        yield from self.value_method(obj, attr, args, kwargs, st, node)

    def call_value(self, fn, args, kwargs, st, node):
        if isinstance(fn, Val) and (isinstance(fn.ty, TRef) or (isinstance(fn.ty, TOpt) and isinstance(fn.ty.inner, TRef))):
            yield from self.call_attr(fn, "__call__", args, kwargs, st, node)
            return
        if isinstance(fn, Val) and isinstance(fn.ty, TOpaque) and fn.ty.name == "Opaque(Class)" and st.env.get("__cls__") is not None:
            # `cls(...)` inside a classmethod: the class the method is defined in (a subclass overriding __init__ is not modelled)
            self.note_assumption("cls(...) in a classmethod constructs the defining class %s" % st.env["__cls__"].name)
            yield from self.construct(st.env["__cls__"].name, args, kwargs, st, node)
            return
        if not isinstance(fn, Callable_):
            raise Unsupported("call of non-callable %r" % (fn,), node)
        k = fn.kind
        if k == "builtin":
            yield from self.call_builtin(fn.name, args, kwargs, st, node)
        elif k == "dslfn":
            yield st, self.dsl_fn(fn.name, args, kwargs, st, node)
        elif k == "spec":
            yield st, self.apply_spec(fn.obj, args, st, node)
        elif k == "lemma":
            self.apply_lemma(fn.obj, args, st, node)
            yield st, NONE
        elif k == "type":
            raise Unsupported("type used as function", node)
        elif k == "function":
            found = self.repo.find(fn.name)
            if found is None:
                raise Unsupported("function %s not found" % fn.name, node)
            fdef, mod, cinfo = found
            yield from self.call_repo(fn.name, fdef, mod, None, args, kwargs, st, node)
        elif k == "class":
            op = self.opaque_spec(fn.name.split(".")[-1], fn.name)      # the FUC's own slice statement wins over a global class declaration
            if op:
                yield st, self.opaque_call(op[0], fn.name, args, kwargs, st, node)
            else:
                yield from self.construct(fn.name, args, kwargs, st, node)
        elif k == "boundmethod":
            yield from self.call_attr(fn.bound, fn.name, args, kwargs, st, node)
        elif k == "external":
            yield from self.call_external(fn.name, args, kwargs, st, node)
        else:
            raise Unsupported("call of %r" % fn, node)

    def call_external(self, name, args, kwargs, st, node):
        if name in ("copy.deepcopy", "copy.copy") and len(args) == 1:
            # values are immutable in the model: a (deep) copy is an equal value (ownership is a separate, static obligation)
            self.note_assumption("copy.deepcopy returns an equal value")
            yield st, args[0]
            return
        decl = dsl.REG.contracts.get(name)
        op = self.opaque_spec(name.split(".")[-1], name)
        if op is not None:          # externals: the FUC's own slice statement wins over a global assumed contract
            yield st, self.opaque_call(op[0], name, args, kwargs, st, node)
            return
        if decl is None:
            raise Unsupported("un-contracted external call %s" % name, node)
        yield from self.apply_contract(decl, args, kwargs, st, node, None)

    def call_super(self, node, st):
        cls = st.env.get("__cls__")
        selfv = st.env.get(st.env.get("__selfname__", "self"))
        attr = node.func.attr
        if cls is None or selfv is None:
            raise Unsupported("super() outside a method", node)
        mro = self.repo.mro(cls.name)[1:]
        for n in mro:
            c = self.repo.cls(n)
            if c and attr in c.methods:
                for st1, av in self.ev_args(node, st):
                    if isinstance(av, Raise):
                        yield st1, av
                        continue
                    args, kwargs = av
                    qn = c.module.name + "." + c.name + "." + attr
                    yield from self.call_repo(qn, c.methods[attr], c.module, c, [selfv] + args, kwargs, st1, node)
                return
        if attr == "__init__":      # object / Exception __init__
            yield st, NONE
            return
        raise Unsupported("super().%s not found" % attr, node)

    def call_method(self, obj, meth, args, kwargs, st, node):
        """Method call on a reference: callee contract (own or interface) or declared inline."""
        clsname = obj.ty.cls
        d = dsl.REG.classes.get(clsname)
        fdef, cinfo = self.repo.lookup_method(clsname, meth)
        iface_key = None
        for n in self.class_decl_chain(clsname):
            if "%s.%s" % (n, meth) in dsl.REG.interfaces:
                iface_key = "%s.%s" % (n, meth)
                break
        if d is not None and d.abstract and iface_key:
            yield from self.apply_contract(dsl.REG.interfaces[iface_key], [obj] + args, kwargs, st, node, None)
            return
        if fdef is None:
            if iface_key:
                yield from self.apply_contract(dsl.REG.interfaces[iface_key], [obj] + args, kwargs, st, node, None)
                return
            # refine the static class by the path condition (after an isinstance test)
            from .state import feasible
            for cand in self.known_subclasses(clsname):
                if cand == clsname or self.repo.cls(cand) is None:
                    continue
                f2, c2 = self.repo.lookup_method(cand, meth)
                if f2 is not None and not feasible(st.pc, z3.Not(self.isinstance_term(obj, cand))):
                    yield from self.call_method(Val(TRef(cand), obj.terms), meth, args, kwargs, st, node)
                    return
            op = self.opaque_spec(meth, clsname + "." + meth)
            if op is not None:
                for exc in self.opaque_raises(op[0]):
                    yield st.clone(), Raise(ExcVal(exc))
                yield st, self.opaque_call(op[0], clsname + "." + meth, [obj] + args, kwargs, st, node)
                return
            raise Unsupported("method %s.%s not found" % (clsname, meth), node)
        qn = cinfo.module.name + "." + cinfo.name + "." + meth
        kind = cinfo.kinds.get(meth)
        if kind == "classmethod":
            full_args = [Callable_("class", cinfo.name)] + args
        else:
            full_args = args if kind == "staticmethod" else [obj] + args
        yield from self.call_repo(qn, fdef, cinfo.module, cinfo, full_args, kwargs, st, node)

    def call_repo(self, qualname, fdef, mod, cinfo, args, kwargs, st, node):
        decl = dsl.REG.contracts.get(qualname)
        if decl is not None and not (qualname in dsl.REG.inline):
            yield from self.apply_contract(decl, args, kwargs, st, node, (fdef, mod, cinfo))
            return
        if qualname in dsl.REG.inline or (fdef.name == "__init__" and not self.opaque_spec(fdef.name, qualname)):
            yield from self.call_inline(qualname, fdef, mod, cinfo, args, kwargs, st, node)
            return
        op = self.opaque_spec(fdef.name, qualname)
        if op is not None:
            for exc in self.opaque_raises(op[0]):
                yield st.clone(), Raise(ExcVal(exc))
            yield st, self.opaque_call(op[0], qualname, args, kwargs, st, node)
            return
        if cinfo is not None:
            for n in self.class_decl_chain(cinfo.name):
                key = "%s.%s" % (n, fdef.name)
                if key in dsl.REG.interfaces:
                    self.note_assumption("%s is used through the interface contract %s (its refinement is not proved here)" % (qualname, key))
                    yield from self.apply_contract(dsl.REG.interfaces[key], args, kwargs, st, node, None)
                    return
        raise Unsupported("call of un-contracted repository function %s" % qualname, node)

    def opaque_spec(self, name, qualname):
        """slice verification: callees the contract of the current FUC declares opaque (frame: nothing modelled changes)"""
        if self.cur_ci is None:
            return None
        table = self.cur_ci.decl.opts.get("opaque") or {}
        for k in (qualname, ".".join(qualname.split(".")[-2:]), name):
            if k in table:
                return (table[k],)
        return None

    def opaque_raises(self, spec):
        return list(spec[1]) if isinstance(spec, tuple) else []

    def opaque_call(self, spec, qualname, args, kwargs, st, node):
        if isinstance(spec, tuple):
            spec = spec[0]
        self.note_assumption("slice: %s is opaque here (returns an arbitrary value of its declared type, changes no modelled state)" % qualname)
        if spec == "self" or spec == "arg0":
            return args[0]
        if spec == "arg1":
            return args[1]
        if isinstance(spec, Ty):
            if isinstance(spec, TNone):
                return NONE
            v = fresh(spec, "opq_" + qualname.split(".")[-1])
            if isinstance(spec, TRef):
                st.axiom(z3.Select(st.alloc, v.t))
                self.assume_type(st, v)
            return v
        raise Unsupported("opaque spec for %s" % qualname, node)

    def bind_params(self, fdef, args, kwargs, st, node, mod=None):
        """Bind call arguments to parameters; defaults are evaluated in the function's module.
        Returns dict name -> value (or raises Unsupported)."""
        a = fdef.args
        names = [x.arg for x in a.posonlyargs + a.args]
        env = {}
        if len(args) > len(names) and a.vararg is None:
            raise Unsupported("too many positional arguments for %s" % fdef.name, node)
        for n, v in zip(names, args):
            env[n] = v
        if a.vararg is not None:
            env[a.vararg.arg] = PyList(args[len(names):], is_tuple=True)
        kwonly = [x.arg for x in a.kwonlyargs]
        for k, v in kwargs.items():
            if k == "__starstar__":
                if a.kwarg is not None:
                    env[a.kwarg.arg] = v
                continue
            if k in names or k in kwonly:
                if k in env:
                    raise Unsupported("duplicate argument %s" % k, node)
                env[k] = v
            elif a.kwarg is None:
                raise Unsupported("unexpected keyword %s" % k, node)
        defaults = dict(zip(names[len(names) - len(a.defaults):], a.defaults))
        for x, dflt in zip(a.kwonlyargs, a.kw_defaults):
            if dflt is not None:
                defaults[x.arg] = dflt
        for n in names + kwonly:
            if n not in env:
                if n not in defaults:
                    raise Unsupported("missing argument %s for %s" % (n, fdef.name), node)
                env[n] = self.const_expr(defaults[n], mod, node)
        return env

    def const_expr(self, expr, mod, node):
        s = State()
        s.frames = [{"__mod__": mod}]
        s.ghost = True
        res = list(self.ev(expr, s))
        if len(res) != 1 or isinstance(res[0][1], Raise):
            raise Unsupported("non-constant default", node)
        return res[0][1]

    def call_inline(self, qualname, fdef, mod, cinfo, args, kwargs, st, node):
        if st.depth > 12:
            raise Unsupported("inline depth exceeded at %s" % qualname, node)
        env = self.bind_params(fdef, args, kwargs, st, node, mod)
        env["__mod__"] = mod
        env["__cls__"] = cinfo
        env["__qual__"] = qualname
        if cinfo is not None and fdef.args.args:
            env["__selfname__"] = fdef.args.args[0].arg
        st.frames.append(env)
        st.depth += 1
        for st1, out in self.exec_block(fdef.body, st):
            st1.frames.pop()
            st1.depth -= 1
            kind = out[0]
            if kind == "return":
                yield st1, out[1]
            elif kind == "normal":
                yield st1, NONE
            elif kind == "raise":
                yield st1, Raise(out[1])
            else:
                raise Unsupported("break/continue escaped function", node)

    def construct(self, clsname, args, kwargs, st, node):
        if clsname in BUILTIN_EXC or self.repo.is_subclass(clsname, "Exception") or self.repo.is_subclass(clsname, "BaseException"):
            fields = dict(kwargs)
            yield st, ExcVal(clsname, args, fields)
            return
        if clsname not in dsl.REG.classes:
            raise Unsupported("construction of undeclared class %s" % clsname, node)
        ref = self.alloc_ref(st, clsname)
        fdef, cinfo = self.repo.lookup_method(clsname, "__init__")
        if fdef is None:
            yield st, ref
            return
        qn = cinfo.module.name + "." + cinfo.name + ".__init__"
        for st1, r in self.call_repo(qn, fdef, cinfo.module, cinfo, [ref] + args, kwargs, st, node):
            yield st1, (r if isinstance(r, Raise) else ref)

    # ------------------------------------------------------------------ built-ins
    def call_builtin(self, name, args, kwargs, st, node):
        from .strings import SplitVal
        if name == "len":
            (x,) = args
            if isinstance(x, PyList):
                yield st, mk_int(len(x.items))
            elif isinstance(x, SplitVal):
                yield st, x.length(st, self)
            elif isinstance(x.ty, (TStr, TBytes, TSeq)):
                yield st, mk_int(z3.Length(x.t))
            elif isinstance(x.ty, (TLSet, TSet)):
                yield st, self.card(x, st)
            elif isinstance(x.ty, TOpt) and isinstance(x.ty.inner, (TStr, TBytes, TSeq)):
                for st1, isn in self.branch(st, opt_isnone(x)):
                    if isn:
                        yield st1, Raise(ExcVal("TypeError"))
                    else:
                        yield st1, mk_int(z3.Length(x.terms[1]))
            elif isinstance(x.ty, TOpt) and isinstance(x.ty.inner, (TLSet, TSet, TMap)):
                for st1, isn in self.branch(st, opt_isnone(x)):
                    if isn:
                        yield st1, Raise(ExcVal("TypeError"))
                    else:
                        inner = opt_inner(x)
                        if isinstance(inner.ty, TMap):
                            inner = Val(TSet(inner.ty.key), [inner.terms[0]])
                        yield st1, self.card(inner, st1)
            elif isinstance(x.ty, TMap):
                yield st, self.card(Val(TSet(x.ty.key), [x.terms[0]]), st)
            else:
                raise Unsupported("len of %r" % x.ty, node)
        elif name == "isinstance":
            x, c = args
            yield st, mk_bool(self.isinstance_val(x, c, node))
        elif name == "str":
            (x,) = args
            if isinstance(x, Val) and isinstance(x.ty, TStr):
                yield st, x
            else:
                yield st, mk_str(self.to_str_term(x, st))
        elif name == "list":
            if not args:
                yield st, PyList([])
            else:
                (x,) = args
                if isinstance(x, PyList) or isinstance(x.ty, (TSeq, TLSet)):
                    yield st, x         # values are immutable in the model: a copy of a list is an equal list
                else:
                    raise Unsupported("list(%r)" % x.ty, node)
        elif name == "set":
            if not args:
                yield st, empty_set(Str)      # every set in the FUCs holds strings
            else:
                (x,) = args
                if isinstance(x, PyList):
                    yield st, self.to_set(x, TSet(x.items[0].ty if x.items else Str), node)
                elif isinstance(x.ty, TSet):
                    yield st, x
                elif isinstance(x.ty, TLSet):
                    yield st, Val(TSet(x.ty.elem), [x.terms[0]])
                elif isinstance(x.ty, TOpt) and isinstance(x.ty.inner, (TLSet, TSet)):
                    for st1, isn in self.branch(st, opt_isnone(x)):
                        if isn:
                            yield st1, Raise(ExcVal("TypeError"))
                        else:
                            yield st1, Val(TSet(x.ty.inner.elem), [x.terms[1]])
                else:
                    raise Unsupported("set(%r)" % x.ty, node)
        elif name == "sorted":
            (x,) = args
            if isinstance(x, PyList):
                x = coerce(x, TLSet(x.items[0].ty if x.items else Str))
            if isinstance(x.ty, TSet):
                yield st, Val(TLSet(x.ty.elem), [x.t, z3.BoolVal(True)])
            elif isinstance(x.ty, TLSet):
                yield st, x
            else:
                raise Unsupported("sorted(%r)" % x.ty, node)
        elif name == "reversed":
            from .vals import Reversed
            (x,) = args
            if isinstance(x, PyList):
                yield st, PyList(list(reversed(x.items)))
            elif isinstance(x.ty, TSeq):
                yield st, Reversed(x)
            else:
                raise Unsupported("reversed(%r)" % x.ty, node)
        elif name == "bool":
            yield st, mk_bool(truth(args[0]))
        elif name == "repr":
            yield st, fresh(Str, "repr")
        elif name == "getattr":
            obj, nm = args[0], z3.simplify(args[1].t)
            if z3.is_string_value(nm) and isinstance(obj, Val) and isinstance(obj.ty, TOpaque):
                # an attribute of an arbitrary object: some value (opaque table key "@<attr>") or absent
                op = self.opaque_spec("@" + nm.as_string(), "?.@" + nm.as_string())
                vty = op[0] if op is not None and isinstance(op[0], Ty) else TOpaque("Any")
                if len(args) > 2:
                    s2 = st.clone()
                    yield s2, args[2]
                else:
                    yield st.clone(), Raise(ExcVal("AttributeError"))
                yield st, fresh(vty, "attr_" + nm.as_string())
                return
            if not (z3.is_string_value(nm) and isinstance(obj, Val) and isinstance(obj.ty, TRef)):
                raise Unsupported("getattr with a computed name", node)
            if self.field_type(obj.ty.cls, nm.as_string()) is not None:
                self.note_assumption("getattr(x, %r, default): the attribute is modelled as a declared field (absent = its default)" % nm.as_string())
                yield st, self.heap_read(st, obj, nm.as_string())
            elif len(args) > 2:
                yield st, args[2]
            else:
                yield st, Raise(ExcVal("AttributeError"))
        elif name == "type":
            (x,) = args
            self._cur_st_any = st
            yield st, self.type_of(x, node)
        elif name == "dict":
            if not args and "__starstar__" not in kwargs:
                yield st, PyDict(kwargs)
            elif not args and len(kwargs) == 1 and isinstance(kwargs.get("__starstar__"), Val) and isinstance(kwargs["__starstar__"].ty, (TRec, TMap)):
                yield st, kwargs["__starstar__"]        # dict(**d): a copy; values are immutable in the model, so the copy is the same value
            elif len(args) == 1 and not kwargs and isinstance(args[0], Val) and isinstance(args[0].ty, (TRec, TMap)):
                yield st, args[0]                       # dict(d): likewise
            elif self.cur_ci is not None and self.cur_ci.decl.opts.get("opaque") is not None:
                self.note_assumption("slice: dict(mapping, ...) yields an untracked dictionary")
                yield st, fresh(TOpaque("Any"), "dictcopy")
            else:
                raise Unsupported("dict(x)", node)
        else:
            raise Unsupported("builtin %s" % name, node)

    def card(self, x, st):
        """len() of a list known by its element set: only `== 0` is meaningful; card is uninterpreted otherwise."""
        arr = x.terms[0]
        f = z3.Function("card!%s" % arr.sort().domain(), arr.sort(), z3.IntSort())
        n = f(arr)
        (es,) = x.ty.elem.comps()
        st.axiom(n >= 0)
        st.axiom((n == 0) == (arr == z3.K(es, z3.BoolVal(False))))
        self.note_assumption("len() of a set-like value is an uninterpreted cardinality with card>=0 and card==0 <=> empty")
        return mk_int(n)

    def type_of(self, x, node):
        if isinstance(x, Val) and isinstance(x.ty, TOpt):
            self.check(self._cur_st_any, z3.Not(opt_isnone(x)), "safe", "not-none@type()", node)
            x = opt_inner(x)
        if isinstance(x, Val):
            m = {TStr: "str", TInt: "int", TBool: "bool", TBytes: "bytes", TSeq: "list", TRec: "dict", TMap: "dict", TSet: "set", TLSet: "list"}
            for t, n in m.items():
                if isinstance(x.ty, t):
                    return Callable_("builtin", n)
        if isinstance(x, PyDict):
            return Callable_("builtin", "dict")
        if isinstance(x, PyList):
            return Callable_("builtin", "tuple" if x.is_tuple else "list")
        if isinstance(x, Val) and isinstance(x.ty, TOpaque):
            # the run-time class of an opaque value: an uninterpreted function of the value
            (srt,) = x.ty.comps()
            tsort = TOpaque("Type").comps()[0]
            return Val(TOpaque("Type"), [z3.Function("typeof!%s" % srt, srt, tsort)(x.t)])
        raise Unsupported("type() of %r" % (x,), node)

    def isinstance_val(self, x, c, node):
        if isinstance(c, PyList):
            return z3.Or([self.isinstance_val(x, ci, node) for ci in c.items])
        if not isinstance(c, Callable_):
            raise Unsupported("isinstance second argument", node)
        if isinstance(x, PyList):
            return z3.BoolVal(c.name in (("tuple",) if x.is_tuple else ("list",)))
        if isinstance(x, ExcVal):
            return z3.BoolVal(self.repo.is_subclass(x.cls, c.name))
        ty = x.ty
        if isinstance(ty, TNone):
            return z3.BoolVal(False)
        if isinstance(ty, TOpt):
            return z3.And(z3.Not(opt_isnone(x)), self.isinstance_val(opt_inner(x), c, node))
        if isinstance(ty, TRef):
            if c.kind == "builtin":
                return z3.BoolVal(c.name == "object")
            if self.repo.cls(c.name) is None and c.name not in dsl.REG.classes:
                raise Unsupported("isinstance against unknown class %s" % c.name, node)
            return self.isinstance_term(x, c.name)
        table = {"str": TStr, "int": (TInt, TBool), "bool": TBool, "bytes": TBytes, "list": (TSeq, TLSet), "set": TSet,
                 "dict": (TMap, TRec), "tuple": TTuple}
        if c.kind == "builtin" and isinstance(ty, TOpaque):
            # an arbitrary value may well be a str / int / dict ...: uninterpreted predicate of the value (never a constant)
            (srt,) = ty.comps()
            return z3.Function("isinst!%s!%s" % (c.name, srt), srt, z3.BoolSort())(x.t)
        if c.kind == "builtin" and c.name in table:
            return z3.BoolVal(isinstance(ty, table[c.name]))
        if c.kind == "class":
            if isinstance(ty, TOpaque):
                # an arbitrary object: whether it is an instance of the class is an uninterpreted predicate of the value
                (srt,) = ty.comps()
                return z3.Function("isinst!%s!%s" % (c.name, srt), srt, z3.BoolSort())(x.t)
            return z3.BoolVal(False)
        raise Unsupported("isinstance(%r, %r)" % (ty, c), node)

    # ------------------------------------------------------------------ methods of values
    def value_method(self, obj, meth, args, kwargs, st, node):
        from .strings import SplitVal
        self._cur_st = st
        if isinstance(obj, Callable_) and obj.kind == "emptyset":
            raise Unsupported("method on untyped empty set", node)
        lv = node.func.value if isinstance(node, ast.Call) and isinstance(node.func, ast.Attribute) else None
        if isinstance(obj, PyList):
            if meth == "append" and not obj.is_tuple:
                self.write_back(lv, PyList(obj.items + [args[0]]), st, node)
                yield st, NONE
                return
            raise Unsupported("method %s on literal list" % meth, node)
        ty = obj.ty
        lv = node.func.value if isinstance(node, ast.Call) and isinstance(node.func, ast.Attribute) else None
        if isinstance(ty, (TStr, TBytes)):
            if meth == "startswith":
                yield st, mk_bool(z3.PrefixOf(args[0].t, obj.t))
            elif meth == "endswith":
                yield st, mk_bool(z3.SuffixOf(args[0].t, obj.t))
            elif meth == "split" and len(args) == 1:
                yield st, SplitVal(obj.t, args[0].t)
            elif meth == "join":
                (x,) = args
                if isinstance(x, SplitVal):
                    yield st, x.join(obj, st, self, node)
                else:
                    raise Unsupported("join of %r" % (x,), node)
            elif meth == "replace" and len(args) == 2:
                from .strings import str_replace_all
                yield st, mk_str(str_replace_all(self, st, obj.t, args[0].t, args[1].t))
            elif meth in ("lower", "upper", "strip") and not args:
                f = z3.Function("str_" + meth, z3.StringSort(), z3.StringSort())
                self.note_assumption("str.%s() is an uninterpreted function of the string" % meth)
                yield st, mk_str(f(obj.t))
            elif meth == "decode" and isinstance(ty, TBytes):
                yield st, mk_str(self.bytes_decode(obj.t, self._codec_name(args, kwargs, node), st))
            elif meth == "encode" and isinstance(ty, TStr):
                yield st, Val(Bytes, [self.str_encode(obj.t, self._codec_name(args, kwargs, node), st)])
            else:
                raise Unsupported("str.%s" % meth, node)
            return
        if isinstance(ty, TSet):
            if meth == "add":
                new = Val(ty, [z3.Store(obj.t, self.narrow(st, args[0], ty.elem, node, "set.add").t, True)])
                self.write_back(lv, new, st, node)
                yield st, NONE
            elif meth in ("remove", "discard"):
                x = args[0]
                if isinstance(x.ty, TOpt) and x.ty.inner.comps() == ty.elem.comps():
                    new = Val(ty, [z3.If(opt_isnone(x), obj.t, z3.Store(obj.t, x.terms[1], False))])
                else:
                    new = Val(ty, [z3.Store(obj.t, x.t, False)]) if x.ty.comps() == ty.elem.comps() else obj
                inn = self.contains(obj, x, node)
                if meth == "discard":
                    self.write_back(lv, new, st, node)
                    yield st, NONE
                else:
                    for st1, ok in self.branch(st, inn):
                        if ok:
                            self.write_back(lv, new, st1, node)
                            yield st1, NONE
                        else:
                            yield st1, Raise(ExcVal("KeyError"))
            elif meth == "union":
                yield st, Val(ty, [z3.SetUnion(obj.t, self.to_set(args[0], ty, node).t)])
            elif meth == "difference":
                yield st, Val(ty, [z3.SetDifference(obj.t, self.to_set(args[0], ty, node).t)])
            elif meth == "update":
                new = Val(ty, [z3.SetUnion(obj.t, self.to_set(args[0], ty, node).t)])
                self.write_back(lv, new, st, node)
                yield st, NONE
            else:
                raise Unsupported("set.%s" % meth, node)
            return
        if isinstance(ty, TMap):
            if meth == "get":
                k = args[0]
                dflt = args[1] if len(args) > 1 else NONE
                inn = self.contains(obj, k, node)
                for st1, ok in self.branch(st, inn):
                    if ok:
                        kk = coerce(k, ty.key) if not isinstance(k.ty, TOpt) else opt_inner(k)
                        yield st1, Val(ty.val, [z3.Select(a, kk.t) for a in obj.terms[1:]])
                    else:
                        yield st1, dflt
            elif meth == "keys":
                yield st, Val(TSet(ty.key), [obj.terms[0]])
            else:
                raise Unsupported("dict.%s" % meth, node)
            return
        if isinstance(ty, TSeq):
            if meth == "append":
                new = Val(ty, [z3.Concat(obj.t, z3.Unit(self.narrow(st, args[0], ty.elem, node, "list.append").t))])
                self.write_back(lv, new, st, node)
                yield st, NONE
            elif meth == "extend":
                new = Val(ty, [z3.Concat(obj.t, self.narrow(st, args[0], ty, node, "list.extend").t)])
                self.write_back(lv, new, st, node)
                yield st, NONE
            else:
                raise Unsupported("list.%s" % meth, node)
            return
        if isinstance(ty, TRec):
            yield from self.rec_method(obj, meth, args, kwargs, st, node, lv)
            return
        op = self.opaque_spec(meth, "?." + meth)
        if op is not None:
            yield st, self.opaque_call(op[0], "?." + meth, [obj] + args, kwargs, st, node)
            return
        raise Unsupported("method %s on %r" % (meth, ty), node)

    def narrow(self, st, v, ty, node, what="value"):
        """Opt(T) used where a plain T is needed: obligation `not None`, then the inner value."""
        if isinstance(v, Val) and isinstance(v.ty, TOpt) and not isinstance(ty, (TOpt, TNone)):
            self.check(st, z3.Not(opt_isnone(v)), "safe", "not-none@%s" % what, node)
            v = opt_inner(v)
        return coerce(v, ty)

    def to_set(self, x, ty, node):
        if isinstance(x, Val) and isinstance(x.ty, TSet):
            return x
        if isinstance(x, Val) and isinstance(x.ty, TLSet):
            return Val(TSet(x.ty.elem), [x.terms[0]])
        if isinstance(x, Val) and isinstance(x.ty, TOpt) and isinstance(x.ty.inner, (TLSet, TSet)):
            self.check(self._cur_st, z3.Not(opt_isnone(x)), "safe", "not-none@set-argument", node)
            return Val(TSet(x.ty.inner.elem), [x.terms[1]])
        if isinstance(x, PyList):
            out = empty_set(ty.elem)
            for it in x.items:
                out = Val(ty, [z3.Store(out.t, it.t, True)])
            return out
        raise Unsupported("conversion of %r to set" % (x,), node)

    def utf8(self, s, st):
        return self.str_encode(s, "utf-8", st)

    def _codec_name(self, args, kwargs, node):
        c = args[0] if args else kwargs.get("encoding")
        if c is None:
            return "utf-8"
        t = z3.simplify(c.t) if isinstance(c, Val) and isinstance(c.ty, TStr) else None
        if t is None or not z3.is_string_value(t):
            raise Unsupported("codec name is not a literal", node)
        return t.as_string().lower().replace("_", "-")

    def str_encode(self, s, codec, st):
        """s.encode(codec): an uninterpreted function per codec with the codec law decode(encode(s)) == s instantiated at this term
        (texts the codec cannot encode - lone surrogates for utf-8 - are assumed away)"""
        enc = z3.Function("str_encode!%s" % codec, z3.StringSort(), z3.StringSort())
        dec = z3.Function("bytes_decode!%s" % codec, z3.StringSort(), z3.StringSort())
        t = enc(s)
        st.axiom(dec(t) == s)
        self.note_assumption("str.encode(%r) / bytes.decode(%r) are uninterpreted functions with decode(encode(s)) == s (encodable texts only)" % (codec, codec))
        return t

    def bytes_decode(self, b, codec, st):
        dec = z3.Function("bytes_decode!%s" % codec, z3.StringSort(), z3.StringSort())
        self.note_assumption("bytes.decode(%r) is an uninterpreted function (undecodable bytes are assumed away)" % codec)
        return dec(b)

    def rec_method(self, obj, meth, args, kwargs, st, node, lv):
        ty = obj.ty
        if meth == "get":
            fname = self._lit_key(args[0], node)
            dflt = args[1] if len(args) > 1 else NONE
            if fname not in ty.fields:
                raise Unsupported("record %s has no declared field %s" % (ty.rname, fname), node)
            lo, hi, ft = ty.field_slice(fname)
            if isinstance(dflt, PyDict) and not dflt.items and isinstance(ft, TMap):
                dflt = empty_map(ft.key, ft.val)
            if isinstance(dflt, PyList) and not dflt.items and isinstance(ft, TSeq):
                dflt = empty_seq(ft.elem)
            if isinstance(dflt, (PyDict, PyList)) and not dflt.items and isinstance(ft, TOpaque):
                dflt = Val(ft, [z3.Const("empty-literal!%s" % ft.comps()[0], ft.comps()[0])])     # `{}` / `[]` as a value of an opaque field type
            if isinstance(dflt, Val):
                if fname in ty.required:
                    yield st, Val(ft, obj.terms[lo + 1:hi])
                    return
                try:       # one conditional value instead of two paths
                    yield st, ite_val(obj.terms[lo], Val(ft, obj.terms[lo + 1:hi]), dflt)
                    return
                except Exception:
                    pass
            for st1, ok in self.branch(st, ty.present(obj.terms, fname)):
                yield st1, (Val(ft, obj.terms[lo + 1:hi]) if ok else dflt)
            return
        if meth == "update" and len(args) == 1 and isinstance(args[0], Val) and isinstance(args[0].ty, TRec) and args[0].ty.rname == ty.rname:
            other = args[0]
            terms = list(obj.terms)
            for f in ty.fields:
                lo, hi, ft = ty.field_slice(f)
                present = other.terms[lo]
                terms[lo] = z3.Or(obj.terms[lo], present)
                for j in range(lo + 1, hi):
                    terms[j] = z3.If(present, other.terms[j], obj.terms[j])
            terms[-1] = z3.Const(fresh_name("recrest"), terms[-1].sort())      # the undeclared keys: merged, untracked
            self.write_back(lv, Val(ty, terms), st, node)
            yield st, NONE
            return
        op = self.opaque_spec(meth, "?." + meth)
        if op is not None:
            yield st, self.opaque_call(op[0], "?." + meth, [obj] + args, kwargs, st, node)
            return
        raise Unsupported("dict(record).%s" % meth, node)
