"""Extraction of the real source: every run parses /repo's current working tree.

Nothing is imported from the repository; functions are looked up by qualified
name in the parsed modules.  What extraction drops (and the evidence states):
docstrings, decorators (``@classmethod``/``@staticmethod``/``@property`` are
honoured), type annotations, and calls to print / logging / traceback.print_exc.
"""
import ast
import hashlib
import os

BUILTIN_EXC = {
    "BaseException": None, "Exception": "BaseException", "KeyError": "LookupError", "LookupError": "Exception",
    "IndexError": "LookupError", "ValueError": "Exception", "TypeError": "Exception", "AssertionError": "Exception",
    "AttributeError": "Exception", "NotImplementedError": "RuntimeError", "RuntimeError": "Exception",
    "FileNotFoundError": "OSError", "FileExistsError": "OSError", "OSError": "Exception", "NameError": "Exception",
    "StopIteration": "Exception", "ZeroDivisionError": "ArithmeticError", "ArithmeticError": "Exception",
    "UnicodeDecodeError": "ValueError", "JSONDecodeError": "ValueError",
}


class ClassInfo:
    def __init__(self, name, module, node):
        self.name = name
        self.module = module
        self.node = node
        self.bases = []
        for b in node.bases:
            if isinstance(b, ast.Name):
                self.bases.append(b.id)
            elif isinstance(b, ast.Attribute):
                self.bases.append(b.attr)
        self.methods = {}
        self.consts = {}
        self.kinds = {}
        for s in node.body:
            if isinstance(s, ast.FunctionDef):
                kind = "method"
                for d in s.decorator_list:
                    dn = d.id if isinstance(d, ast.Name) else (d.attr if isinstance(d, ast.Attribute) else None)
                    if dn in ("classmethod", "staticmethod", "property"):
                        kind = dn
                    if dn == "setter":
                        kind = "setter"
                if kind == "setter":
                    self.methods["__set__" + s.name] = s
                    continue
                self.methods[s.name] = s
                self.kinds[s.name] = kind
            elif isinstance(s, ast.Assign) and len(s.targets) == 1 and isinstance(s.targets[0], ast.Name):
                self.consts[s.targets[0].id] = s.value


class ModuleInfo:
    def __init__(self, name, path):
        self.name = name
        self.path = path
        with open(path) as f:
            self.source = f.read()
        self.tree = ast.parse(self.source)
        self.functions = {}
        self.classes = {}
        self.consts = {}
        self.imports = {}
        for s in self.tree.body:
            if isinstance(s, ast.FunctionDef):
                self.functions[s.name] = s
            elif isinstance(s, ast.ClassDef):
                self.classes[s.name] = ClassInfo(s.name, self, s)
            elif isinstance(s, ast.Assign) and len(s.targets) == 1 and isinstance(s.targets[0], ast.Name):
                self.consts[s.targets[0].id] = s.value
            elif isinstance(s, ast.ImportFrom):
                for a in s.names:
                    self.imports[a.asname or a.name] = (s.module, a.name)
            elif isinstance(s, ast.Import):
                for a in s.names:
                    self.imports[a.asname or a.name] = (a.name, None)


class Repo:
    def __init__(self, root="/repo"):
        self.root = root
        self.modules = {}
        self.class_index = {}

    def module(self, modname):
        if modname not in self.modules:
            rel = modname.replace(".", "/")
            path = os.path.join(self.root, rel + ".py")
            if not os.path.exists(path):
                path = os.path.join(self.root, rel, "__init__.py")
            if not os.path.exists(path):
                return None
            m = ModuleInfo(modname, path)
            self.modules[modname] = m
            for c in m.classes.values():
                self.class_index.setdefault(c.name, c)
        return self.modules[modname]

    def find(self, qualname):
        """qualname like liquer.store.OverlayStore.get_bytes or liquer.store.parent_key.
        Returns (FunctionDef, ModuleInfo, ClassInfo|None) or None."""
        parts = qualname.split(".")
        for i in range(len(parts) - 1, 0, -1):
            m = self.module(".".join(parts[:i]))
            if m is None:
                continue
            rest = parts[i:]
            if len(rest) == 1 and rest[0] in m.functions:
                return m.functions[rest[0]], m, None
            if len(rest) == 2 and rest[0] in m.classes and rest[1] in m.classes[rest[0]].methods:
                c = m.classes[rest[0]]
                return c.methods[rest[1]], m, c
            return None
        return None

    def cls(self, name):
        return self.class_index.get(name)

    def mro(self, name):
        out = []

        def go(n):
            if n in out:
                return
            out.append(n)
            c = self.cls(n)
            if c:
                for b in c.bases:
                    go(b)
        go(name)
        return out

    def is_subclass(self, sub, sup):
        if sub == sup:
            return True
        if sub in BUILTIN_EXC and self.cls(sub) is None:
            b = BUILTIN_EXC[sub]
            return b is not None and self.is_subclass(b, sup)
        c = self.cls(sub)
        if c is None:
            return False
        return any(self.is_subclass(b, sup) for b in c.bases)

    def subclasses(self, sup):
        return sorted(n for n in self.class_index if self.is_subclass(n, sup))

    def lookup_method(self, clsname, meth):
        for n in self.mro(clsname):
            c = self.cls(n)
            if c and meth in c.methods:
                return c.methods[meth], c
        return None, None

    def class_const(self, clsname, attr):
        for n in self.mro(clsname):
            c = self.cls(n)
            if c and attr in c.consts:
                return c.consts[attr], c
        return None, None


def source_hash(node, modinfo):
    seg = ast.get_source_segment(modinfo.source, node) or ast.dump(node)
    return hashlib.sha256(seg.encode()).hexdigest()[:16]
