"""Turn a solver model into concrete, JSON-able inputs for the replay harness."""
import re
import z3

from .vals import Val, TInt, TBool, TStr, TBytes, TNone, TRef, TOpt, TSet, TMap, TSeq, TTuple, TRec, TOpaque
from .calls import TYP
from . import dsl


def _py(t):
    if z3.is_int_value(t):
        return t.as_long()
    if z3.is_true(t):
        return True
    if z3.is_false(t):
        return False
    if z3.is_string_value(t):
        return t.as_string()
    return str(t)


def string_candidates(model):
    cands = set([""])
    for d in model.decls():
        try:
            txt = model[d].sexpr() if hasattr(model[d], "sexpr") else str(model[d])
        except Exception:
            txt = str(model[d])
        for mm in re.finditer(r'"((?:[^"]|"")*)"', txt):
            cands.add(mm.group(1).replace('""', '"'))
    out = set()
    for c in cands:
        try:
            out.add(z3.StringVal(c).as_string() if False else c)
        except Exception:
            pass
    return sorted(out)[:200]


class Concretizer:
    def __init__(self, ex, model, heap0):
        self.ex = ex
        self.m = model
        self.heap0 = heap0
        self.ids = {v: k for k, v in ex._class_ids.items()}
        self.strs = None

    def ev(self, t):
        return self.m.eval(t, model_completion=True)

    def value(self, v, depth=0):
        ty = v.ty
        if isinstance(ty, TNone):
            return None
        if isinstance(ty, (TInt, TBool, TStr, TBytes)):
            return _py(self.ev(v.t))
        if isinstance(ty, TOpt):
            if z3.is_true(self.ev(v.terms[0])):
                return None
            return self.value(Val(ty.inner, v.terms[1:]), depth)
        if isinstance(ty, TSeq):
            n = _py(self.ev(z3.Length(v.t)))
            n = n if isinstance(n, int) else 0
            return [self.value(Val(ty.elem, [v.t[z3.IntVal(i)]]), depth + 1) for i in range(min(n, 12))]
        if isinstance(ty, TTuple):
            out, i = [], 0
            for t in ty.items:
                k = len(t.comps())
                out.append(self.value(Val(t, v.terms[i:i + k]), depth + 1))
                i += k
            return out
        if isinstance(ty, TRef):
            return self.ref(v, depth)
        if isinstance(ty, TSet):
            if self.strs is None:
                self.strs = string_candidates(self.m)
            if isinstance(ty.elem, TStr):
                return sorted(s for s in self.strs if z3.is_true(self.ev(z3.Select(v.t, z3.StringVal(s)))))
            return str(self.ev(v.t))
        if isinstance(ty, TMap):
            if self.strs is None:
                self.strs = string_candidates(self.m)
            out = {}
            if isinstance(ty.key, TStr):
                for s in self.strs:
                    k = z3.StringVal(s)
                    if z3.is_true(self.ev(z3.Select(v.terms[0], k))):
                        out[s] = self.value(Val(ty.val, [z3.Select(a, k) for a in v.terms[1:]]), depth + 1)
            return out
        if isinstance(ty, TRec):
            out = {}
            for f in ty.fields:
                lo, hi, ft = ty.field_slice(f)
                if z3.is_true(self.ev(v.terms[lo])):
                    out[f] = self.value(Val(ft, v.terms[lo + 1:hi]), depth + 1)
            return out
        if isinstance(ty, TOpaque):
            return "opaque:" + str(self.ev(v.t))
        return str([str(self.ev(t)) for t in v.terms])

    def ref(self, v, depth):
        rid = _py(self.ev(v.t))
        tid = _py(self.ev(TYP(v.t)))
        cls = self.ids.get(tid, v.ty.cls)
        sd = dsl.REG.classes.get(v.ty.cls)
        if cls not in self.ex.known_subclasses(v.ty.cls) or (dsl.REG.classes.get(cls) and dsl.REG.classes[cls].sealed) \
                or (sd is not None and sd.abstract):
            cls = v.ty.cls        # typ of this ref is unconstrained in the VC: use the declared class
        out = {"__ref__": rid, "__class__": cls}
        if depth > 4:
            return out
        for n in self.ex.class_decl_chain(cls if cls in dsl.REG.classes else v.ty.cls):
            d = dsl.REG.classes.get(n)
            if not d:
                continue
            if d.abstract and not (sd is not None and sd.abstract):
                continue      # ghost view fields of the interface are meaningless on a concrete object
            for f, fty in d.fields.items():
                key = (n, f)
                if key in self.heap0:
                    fv = Val(fty, [z3.Select(a, v.t) for a in self.heap0[key]])
                    out[f] = self.value(fv, depth + 1)
        return out


def concretize(ex, model, info):
    inputs = info.get("inputs") or {}
    heap0 = info.get("heap0") or {}
    c = Concretizer(ex, model, heap0)
    out = {}
    for n, v in inputs.items():
        try:
            out[n] = c.value(v)
        except Exception as e:      # never let a pretty-printer problem hide a verdict
            out[n] = "unprintable: %s" % e
    return out
