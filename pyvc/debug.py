"""Debug aid: explain which part of a refuted goal is false under the counter-model."""
import sys
import z3
from .run import load_contracts


def explain(m, g, depth=0, out=None, maxdepth=12, want=False):
    """Descend only into the sub-formulas responsible for `g` evaluating to `want`'s opposite."""
    out = out if out is not None else []
    val = z3.is_true(m.eval(g, model_completion=True))
    pad = "  " * depth
    k = g.decl().kind() if z3.is_app(g) else None
    txt = str(g).replace("\n", " ")
    out.append("%s[%s] %s" % (pad, val, txt[:160]))
    if depth >= maxdepth:
        return out
    ch = g.children() if z3.is_app(g) else []
    if k == z3.Z3_OP_AND:
        for c in ch:
            if z3.is_true(m.eval(c, model_completion=True)) != val or not val:
                if not z3.is_true(m.eval(c, model_completion=True)):
                    explain(m, c, depth + 1, out, maxdepth)
    elif k == z3.Z3_OP_OR:
        for c in ch:
            cv = z3.is_true(m.eval(c, model_completion=True))
            if val and cv:
                explain(m, c, depth + 1, out, maxdepth)
                break
            if not val:
                explain(m, c, depth + 1, out, maxdepth)
    elif k == z3.Z3_OP_NOT:
        explain(m, ch[0], depth + 1, out, maxdepth)
    elif k == z3.Z3_OP_ITE and z3.is_bool(g):
        cv = z3.is_true(m.eval(ch[0], model_completion=True))
        out.append("%s  ite-cond=%s: %s" % (pad, cv, str(ch[0]).replace("\n", " ")[:200]))
        explain(m, ch[0], depth + 2, out, maxdepth)
        explain(m, ch[1] if cv else ch[2], depth + 1, out, maxdepth)
    elif k in (z3.Z3_OP_EQ, z3.Z3_OP_IFF, z3.Z3_OP_IMPLIES):
        for c in ch:
            if z3.is_bool(c):
                explain(m, c, depth + 1, out, maxdepth)
            else:
                out.append("%s   side = %s   <- %s" % (pad, m.eval(c, model_completion=True), str(c).replace("\n", " ")[:160]))
    return out


if __name__ == "__main__":
    load_contracts()
    from .engine import Exec
    kind, name, pattern = sys.argv[1], sys.argv[2], sys.argv[3]
    which = int(sys.argv[4]) if len(sys.argv) > 4 else 0
    ex = Exec("/repo")
    obls, meta = ex.verify_fuc(name) if kind == "fuc" else ex.verify_lemma(name)
    n = 0
    for ob in obls:
        if pattern in ob.name:
            s = z3.Solver()
            s.set("timeout", 10000)
            s.add(ob.formula())
            r = s.check()
            if r == z3.sat:
                if n == which:
                    m = s.model()
                    print(ob.name, ob.info)
                    print("\n".join(explain(m, z3.simplify(ob.goal))))
                    if "-pc" in sys.argv:
                        for a in ob.assumptions:
                            print("PC:", str(a).replace("\n", " ")[:300])
                    break
                n += 1
