"""The verifier: generates verification conditions for one function under contract (FUC)
or one lemma, from the real source, function by function (callees by contract)."""
import ast
import os
import time
import traceback
import z3

from .vals import (Val, PyList, ExcVal, Callable_, NONE, Ty, TNone, TRef, TOpt, TSeq, fresh, coerce, veq, truth, opt_isnone,
                   opt_inner, mk_bool)
from .state import State, Obligation, Unsupported, Raise, feasible
from .repo import Repo, source_hash
from .expr import ExprMixin
from .stmt import StmtMixin
from .calls import CallMixin, TYP
from .contracts import ContractMixin, CI
from . import dsl


class Exec(ExprMixin, StmtMixin, CallMixin, ContractMixin):
    def __init__(self, repo_root="/repo"):
        self.repo = Repo(repo_root)
        for m in ("liquer.parser", "liquer.store", "liquer.cache", "liquer.state", "liquer.context", "liquer.commands",
                  "liquer.constants", "liquer.metadata", "liquer.state_types", "liquer.recipes", "liquer.remote_store",
                  "liquer.server.blueprint", "liquer.util", "liquer.indexer", "liquer.dependencies"):
            self.repo.module(m)
        self.obls = []
        self.assumptions = set()
        self.dropped_calls = set()
        self.used_contracts = set()
        self._const_cache = {}
        self._class_ids = {}
        self._spec_ufs = {}
        self.cur_ci = None
        self.cur_qual = None
        self.cur_name = None
        self.loop_ordinals = {}
        self.suppress = 0
        self.cur_inputs = None
        self.cur_heap0 = None
        self.in_discovery = 0
        self.path_counter = 0

    def note_assumption(self, text):
        self.assumptions.add(text)

    def add_obligation(self, st, goal, kind, label, node=None):
        if self.suppress:
            return
        name = "%s#%s:%s" % (self.cur_name, kind, label)
        self.obls.append(Obligation(name, kind, st.pc, goal, info=dict(line=getattr(node, "lineno", None), path=list(st.path),
                                                                       inputs=self.cur_inputs, heap0=self.cur_heap0)))

    # ------------------------------------------------------------------ FUC
    def fresh_param(self, st, name, ty, exact=False):
        v = fresh(ty, name)
        if isinstance(ty, TRef):
            st.assume(z3.Select(st.alloc, v.t))
            self.assume_type(st, v, exact=exact)
        elif isinstance(ty, TOpt) and isinstance(ty.inner, TRef):
            st.assume(z3.Or(opt_isnone(v), z3.Select(st.alloc, v.terms[1])))
            st.assume(z3.Or(opt_isnone(v), self.isinstance_term(opt_inner(v), ty.inner.cls)))
        return v

    def verify_fuc(self, qualname):
        """Returns dict(obligations=[Obligation], meta=...)."""
        decl = dsl.REG.contracts[qualname]
        self.obls = []
        self.cur_name = qualname
        self.cur_qual = qualname
        meta = dict(qualname=qualname, kind=decl.kind, file=None, source_hash=None, paths=0)
        # "<qualname>@<view>": a second, more detailed contract of the same function, verified on its own; callers keep using the
        # contract registered under the plain name
        found = self.repo.find(qualname.split("@")[0])
        if found is None:
            self.obls.append(Obligation(qualname + "#shape:function-exists", "shape", [], z3.BoolVal(False),
                                        info=dict(reason="function not found in /repo")))
            return self.obls, meta
        fdef, mod, cinfo = found
        meta["file"] = mod.path
        meta["source_hash"] = source_hash(fdef, mod)
        meta["lines"] = [fdef.lineno, fdef.end_lineno]
        try:
            self._verify_fuc(decl, fdef, mod, cinfo, meta)
        except Unsupported as e:
            self.obls.append(Obligation(qualname + "#shape:supported-subset", "shape", [], z3.BoolVal(False),
                                        info=dict(reason=str(e))))
        except RecursionError:
            self.obls.append(Obligation(qualname + "#shape:supported-subset", "shape", [], z3.BoolVal(False),
                                        info=dict(reason="recursion limit")))
        except (AttributeError, TypeError, KeyError, IndexError, AssertionError, ValueError, z3.Z3Exception) as e:
            # a construct the symbolic executor does not model precisely enough to even reject cleanly: same meaning as Unsupported
            # (the function left the verified subset); on the unchanged tree this never happens - every FUC executes to the end
            import traceback as _tb
            where = _tb.extract_tb(e.__traceback__)[-1]
            self.obls.append(Obligation(qualname + "#shape:supported-subset", "shape", [], z3.BoolVal(False),
                                        info=dict(reason="outside the executable subset (%s: %s at %s:%s)" % (type(e).__name__, e, os.path.basename(where.filename), where.lineno))))
        finally:
            self.cur_ci = None
        return self.obls, meta

    def _verify_fuc(self, decl, fdef, mod, cinfo, meta):
        qualname = decl.qualname
        real = [a.arg for a in fdef.args.posonlyargs + fdef.args.args + fdef.args.kwonlyargs]
        spec = [a.arg for a in decl.ast.args.posonlyargs + decl.ast.args.args + decl.ast.args.kwonlyargs]
        if real != spec:
            self.obls.append(Obligation(qualname + "#shape:signature", "shape", [], z3.BoolVal(False),
                                        info=dict(reason="signature %r differs from contract %r" % (real, spec))))
            return
        self.loop_ordinals = {}
        k = 0
        for n in ast.walk(fdef):
            if isinstance(n, (ast.For, ast.While)):
                self.loop_ordinals[id(n)] = k
                k += 1
        st = State()
        env = {}
        is_method = cinfo is not None and cinfo.kinds.get(fdef.name) not in ("staticmethod", "classmethod")
        for i, n in enumerate(real):
            ty = decl.params.get(n)
            if ty is None:
                raise Unsupported("contract of %s gives no type for parameter %s" % (qualname, n))
            if isinstance(ty, Callable_):
                env[n] = ty
                continue
            abstract_self = isinstance(ty, TRef) and ty.cls in dsl.REG.classes and dsl.REG.classes[ty.cls].abstract
            env[n] = self.fresh_param(st, n, ty, exact=(i == 0 and is_method and not abstract_self))
        if fdef.args.vararg is not None:
            vn = fdef.args.vararg.arg
            vty = decl.params.get(vn)
            if vty is None:
                raise Unsupported("contract of %s gives no type for *%s" % (qualname, vn))
            env[vn] = self.fresh_param(st, vn, vty)         # the tuple of extra positional arguments, as a sequence
        if fdef.args.kwarg is not None:
            kn = fdef.args.kwarg.arg
            kty = decl.params.get(kn)
            if kty is None:
                raise Unsupported("contract of %s gives no type for **%s" % (qualname, kn))
            env[kn] = self.fresh_param(st, kn, kty)         # the dictionary of extra keyword arguments
        for pre in decl.opts.get("distinct", []):
            a, b = pre
            st.assume(env[a].t != env[b].t)
        body_env = dict(env)
        body_env.update({"__mod__": mod, "__cls__": cinfo, "__qual__": qualname.split("@")[0]})
        if is_method:
            body_env["__selfname__"] = real[0]
        st.frames = [body_env]
        ci = self.instantiate(decl, env, st, mod=mod)
        ci.old = st.snapshot()
        self.cur_ci = ci
        self.cur_inputs = {n: v for n, v in env.items() if isinstance(v, Val)}
        self.cur_heap0 = ci.old.heap
        for lab, c in ci.requires:
            st.assume(c)
        # vacuity guard: the precondition must be satisfiable
        self.obls.append(Obligation(qualname + "#cover:precondition", "cover", st.pc, z3.BoolVal(True), expect="sat"))
        npaths = 0
        for st1, out in self.exec_block(fdef.body, st):
            npaths += 1
            self.finish_path(decl, ci, st1, out)
        meta["paths"] = npaths
        if npaths == 0:
            self.obls.append(Obligation(qualname + "#cover:some-path", "cover", [], z3.BoolVal(False), expect="sat"))

    def finish_path(self, decl, ci, st, out):
        kind = out[0]
        if kind in ("break", "continue"):
            raise Unsupported("break/continue outside loop")
        if kind == "raise":
            exc = out[1]
            matching = [(c, w, l) for (c, w, l, _) in ci.raises if self.repo.is_subclass(exc.cls, c)]
            if not matching:
                self.add_obligation(st, z3.BoolVal(False), "raises", "unexpected-%s" % exc.cls)
            else:
                goal = z3.Or([w if w is not None else z3.BoolVal(True) for (_, w, _) in matching])
                self.check(st, goal, "raises", "only-when:%s" % matching[0][2])
            self.check_frame(ci, st, on_raise=True)
            for lab, enode in ci.ensures:
                if lab.startswith("always:"):
                    self.check(st, self.eval_in_contract(ci, enode, st, {"result": NONE}), "post", lab)
                elif lab.startswith("onraise:"):
                    # "onraise:<ExceptionClass>:<label>": a clause about the exception object (raised("field")) and the state / ghost log
                    # at the moment that exception leaves the function
                    _, cls_, lab2 = lab.split(":", 2)
                    if self.repo.is_subclass(exc.cls, cls_):
                        self.cur_exc = exc
                        try:
                            self.check(st, self.eval_in_contract(ci, enode, st, {"result": NONE}), "post", "on-%s:%s" % (cls_, lab2))
                        finally:
                            self.cur_exc = None
            return
        result = out[1] if kind == "return" else NONE
        if isinstance(result, Raise):
            raise Unsupported("internal: raise as value")
        try:
            if isinstance(decl.returns, Ty) and not isinstance(decl.returns, TNone):
                result = self.narrow(st, result, decl.returns, None, "return-value")
            elif isinstance(decl.returns, TNone) and not (isinstance(result, Val) and isinstance(result.ty, TNone)):
                raise TypeError("returns a value, contract says None")
        except TypeError as e:
            self.add_obligation(st, z3.BoolVal(False), "post", "return-type")
            st.path.append("return-type: %s" % e)
            return
        for cname, when, lab, _ in ci.raises:
            if when is not None:
                self.check(st, z3.Not(when), "raises", "must-raise:%s" % lab)
        if decl.opts.get("functional"):
            sp = dsl.REG.specs[decl.opts["functional"]]
            saved = (st.ghost, st.pure)
            st.ghost, st.pure = True, True
            st.frames.append(dict(ci.env))
            try:
                expect = self.apply_spec(sp, [ci.env[n] for n in sp.params], st, None)
            finally:
                st.frames.pop()
                st.ghost, st.pure = saved
            self.check(st, veq(result, expect), "post", "functional:result-is-%s-of-the-arguments" % sp.qualname)
        for lab, enode in ci.ensures:
            if lab.startswith("onraise:"):
                continue
            c = self.eval_in_contract(ci, enode, st, {"result": result})
            self.check(st, c, "post", lab[7:] if lab.startswith("always:") else lab)
        self.check_frame(ci, st)

    def check_frame(self, ci, st, on_raise=False):
        old = ci.old
        if on_raise and any(w is None for (_, w, _, _) in ci.raises):
            return      # a contract with an unconditional `raises` clause says nothing about the state after a failure
        for key in sorted(st.written):
            owner, field = key
            if key in ci.modifies_any:
                continue
            fty = dsl.REG.classes[owner].fields[field]
            new = st.heap[key]
            _, oldarrs = self.heap_arrays(old, owner, field, fty)
            allowed = [ref for (ref, o, f) in ci.modifies if (o, f) == key] if not on_raise else []
            allowed = allowed + list(st.fresh_refs)     # writes to objects allocated by this call are not observable
            expect = list(oldarrs)
            for ref in allowed:
                expect = [z3.Store(e, ref.t, z3.Select(n, ref.t)) for e, n in zip(expect, new)]
            goal = z3.And([n == e for n, e in zip(new, expect)])
            self.check(st, goal, "frame", ("unchanged-on-raise:" if on_raise else "only-modifies:") + "%s.%s" % key)

    # ------------------------------------------------------------------ lemmas
    def verify_lemma(self, name):
        decl = dsl.REG.lemmas[name]
        self.obls = []
        self.cur_name = "lemma:" + name
        self.cur_qual = None
        meta = dict(qualname="lemma:" + name, kind="lemma", file=decl.file, paths=0)
        try:
            st = State()
            env = {n: self.fresh_param(st, n, t) for n, t in decl.params.items()}
            ci = CI(decl)
            frame = dict(env)
            frame.update({"__contract__": True, "__ci__": ci, "__mode__": "lemma-verify", "__mod__": None})
            ci.env = frame
            self.cur_ci = ci
            st.frames = [frame]
            st.ghost = True
            st.pure = False
            n = 0
            covered = False
            for st1, out in self.exec_block(decl.ast.body, st):
                n += 1
                if not covered:
                    self.obls.append(Obligation(self.cur_name + "#cover:precondition", "cover",
                                                [c for (_, c) in ci.requires], z3.BoolVal(True), expect="sat"))
                    covered = True
                st1.ghost = False
                ci.env = st1.env
                for lab, enode in ci.ensures:
                    c = self.eval_in_contract(ci, enode, st1)
                    self.check(st1, c, "lemma", lab)
            meta["paths"] = n
        except Unsupported as e:
            self.obls.append(Obligation(self.cur_name + "#shape:supported-subset", "shape", [], z3.BoolVal(False),
                                        info=dict(reason=str(e))))
        finally:
            self.cur_ci = None
        return self.obls, meta
