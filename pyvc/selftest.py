"""Engine self-test: every committed property-breaking patch under selftest/<PID>/*.diff (and seeded/<name>/patch.diff
whose meta.json names the property) must make at least one obligation of that property fail on a scratch copy of /repo.
A mutant that passes marks the engine (or the contracts) as too weak.   python3-vt -m pyvc.selftest <PID> [--seeded]"""
import glob
import json
import os
import shutil
import subprocess
import sys
import tempfile

HERE = os.path.dirname(os.path.dirname(os.path.abspath(__file__)))


def scratch_copy():
    d = tempfile.mkdtemp(prefix="liquer_selftest_")
    subprocess.run(["rsync", "-a", "--exclude", ".git", "--exclude", "__pycache__", "--exclude", "docs", "--exclude", "examples",
                    "/repo/", d + "/"], check=True)
    return d


def run_mutant(pid, patch, tier="quick"):
    d = scratch_copy()
    try:
        p = subprocess.run(["patch", "-p1", "-s", "-d", d, "-i", patch], capture_output=True, text=True)
        if p.returncode != 0:
            return dict(patch=patch, status="patch-failed", detail=p.stdout + p.stderr)
        env = dict(os.environ, LIQUER_REPO=d)
        r = subprocess.run([os.path.join(HERE, "check"), pid, "--tier", tier], capture_output=True, text=True, env=env, cwd=HERE)
        failed = [l.split("failed obligation: ")[1] for l in r.stdout.splitlines() if l.startswith("failed obligation: ")]
        viol = [l for l in r.stdout.splitlines() if l.startswith("VIOLATION")]
        return dict(patch=os.path.relpath(patch, HERE), status="caught" if (r.returncode == 1 and viol) else "MISSED", rc=r.returncode,
                    failed=failed[:8], replayed=sum(1 for v in viol if "no-failing-input-found" not in v), out=r.stdout[-600:] if r.returncode not in (0, 1) else "")
    finally:
        shutil.rmtree(d, ignore_errors=True)


def main():
    pid = sys.argv[1]
    only_harmless = "--harmless-only" in sys.argv
    patches = [] if only_harmless else sorted(glob.glob(os.path.join(HERE, "selftest", pid, "*.diff")))
    for mf in sorted(glob.glob(os.path.join(HERE, "seeded", "*", "meta.json"))):
        try:
            meta = json.load(open(mf))
        except Exception:
            continue
        if not only_harmless and (meta.get("property") == pid or pid in meta.get("properties", [])):
            patches.append(os.path.join(os.path.dirname(mf), "patch.diff"))
    # the evidence file of the real tree must not be clobbered by mutant runs
    ev = os.path.join(HERE, "evidence", pid + ".json")
    saved = open(ev).read() if os.path.exists(ev) else None
    out = []
    try:
        for p in patches:
            r = run_mutant(pid, p)
            out.append(r)
            print(r["status"], r["patch"], r.get("failed", [])[:3], r.get("detail", ""), r.get("out", ""))
    finally:
        if saved is not None:
            open(ev, "w").write(saved)
    # semantics-preserving edits (renamed locals, reordered independent statements, ...): the check must stay quiet on them
    harmless = []
    try:
        for p in sorted(glob.glob(os.path.join(HERE, "selftest", pid, "harmless", "*.diff"))):
            r = run_mutant(pid, p)
            r["status"] = "quiet" if r.get("rc") == 0 else ("patch-failed" if r["status"] == "patch-failed" else "FALSE-ALARM")
            harmless.append(r)
            print(r["status"], r["patch"], r.get("failed", [])[:3], r.get("detail", ""))
    finally:
        if saved is not None:
            open(ev, "w").write(saved)
    missed = [r for r in out if r["status"] != "caught"]
    alarms = [r for r in harmless if r["status"] != "quiet"]
    os.makedirs(os.path.join(HERE, "selftest", "results"), exist_ok=True)
    if only_harmless:
        rf = os.path.join(HERE, "selftest", "results", pid + ".json")
        doc = json.load(open(rf)) if os.path.exists(rf) else dict(property=pid, breaking=[])
        doc["harmless"] = [dict(patch=r["patch"], status=r["status"], failed=r.get("failed", [])[:4]) for r in harmless]
        json.dump(doc, open(rf, "w"), indent=1)
        print(json.dumps(dict(property=pid, harmless=len(harmless), false_alarms=[r["patch"] for r in alarms])))
        return 1 if alarms else 0
    with open(os.path.join(HERE, "selftest", "results", pid + ".json"), "w") as f:
        json.dump(dict(property=pid, breaking=[dict(patch=os.path.relpath(r["patch"], HERE) if os.path.isabs(r["patch"]) else r["patch"],
                                                    status=r["status"], failed=r.get("failed", [])[:4], replayed=r.get("replayed")) for r in out],
                       harmless=[dict(patch=r["patch"], status=r["status"], failed=r.get("failed", [])[:4]) for r in harmless]), f, indent=1)
    print(json.dumps(dict(property=pid, mutants=len(out), caught=len(out) - len(missed), missed=[r["patch"] for r in missed],
                          harmless=len(harmless), false_alarms=[r["patch"] for r in alarms])))
    return 1 if (missed or alarms) else 0


if __name__ == "__main__":
    sys.exit(main())
