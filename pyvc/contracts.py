"""Contracts: instantiation, use at call sites, spec functions, lemmas, loop invariants."""
import ast
import z3

from .vals import (Val, PyList, PyDict, ExcVal, Callable_, Int, Bool, Str, NoneT, NONE, Ty, TInt, TBool, TStr, TBytes, TNone, TRef,
                   TOpt, TSet, TMap, TSeq, TTuple, TRec, TOpaque, TLSet, mk_int, mk_bool, mk_str, fresh, mk_none_opt, mk_some,
                   opt_isnone, opt_inner, empty_set, empty_map, empty_seq, coerce, veq, truth, ite_val, fresh_name)
from .state import Unsupported, Raise, State, feasible
from . import dsl


LOG_FUNCS = {"log_count", "log_arg", "log_result", "log_result_field", "log_raised"}


def _mentions_log(node):
    return any(isinstance(n, ast.Call) and isinstance(n.func, ast.Name) and n.func.id in LOG_FUNCS for n in ast.walk(node))


class CI:
    """A contract instantiated at concrete (symbolic) arguments."""

    def __init__(self, decl):
        self.decl = decl
        self.env = {}
        self.requires = []     # (label, z3 bool)
        self.ensures = []      # (label, ast node)
        self.raises = []       # (exc class name, z3 bool 'when', label, keeps_state)
        self.modifies = []     # (ref Val, owner, field)
        self.modifies_any = set()
        self.decreases = []    # z3 ints
        self.invariants = {}   # loop ordinal -> [(label, ast node)]
        self.loop_decreases = {}
        self.old = None


class ContractMixin:
    DIRECTIVES = {"requires", "ensures", "raises", "modifies", "modifies_all", "modifies_any", "decreases", "invariant", "hint", "use",
                  "loop_decreases", "unfold", "assume_external"}

    # ------------------------------------------------------------------ directives
    def directive(self, call, st):
        name = call.func.id
        ci = st.env["__ci__"]
        mode = st.env.get("__mode__", "contract")
        kw = {k.arg: k.value for k in call.keywords}

        def label_of(i, default):
            if "label" in kw:
                return kw["label"].value
            if len(call.args) > i and isinstance(call.args[i], ast.Constant) and isinstance(call.args[i].value, str):
                return call.args[i].value
            return default
        if name == "requires":
            c = truth(self.ev1(call.args[0], st))
            lab = label_of(1, "requires%d" % len(ci.requires))
            ci.requires.append((lab, c))
            if mode == "lemma-verify":
                st.assume(c)
        elif name == "ensures":
            ci.ensures.append((label_of(1, "ensures%d" % len(ci.ensures)), call.args[0]))
        elif name == "raises":
            cname = call.args[0].id
            when = truth(self.ev1(kw["when"], st)) if "when" in kw else None
            ci.raises.append((cname, when, label_of(99, cname), False))
        elif name == "modifies":
            for a in call.args:
                if not isinstance(a, ast.Attribute):
                    raise Unsupported("modifies() takes attribute designators", call)
                ref = self.ev1(a.value, st)
                if isinstance(ref.ty, TOpt):
                    ref = opt_inner(ref)
                fname = self.real_field(ref.ty.cls, a.attr)
                owner, fty = self.field_owner(ref.ty.cls, fname)
                if owner is None:
                    raise Unsupported("modifies: unknown field %s" % a.attr, call)
                ci.modifies.append((ref, owner, fname))
        elif name == "modifies_all":
            for a in call.args:
                ref = self.ev1(a, st)
                if isinstance(ref.ty, TOpt):
                    ref = opt_inner(ref)
                for n in self.class_decl_chain(ref.ty.cls):
                    d = dsl.REG.classes.get(n)
                    if d:
                        for f in d.fields:
                            ci.modifies.append((ref, n, f))
        elif name == "modifies_any":
            # wildcard frame: this field may change on any object (slice verification)
            owner, field = call.args[0].value.split(".")
            ci.modifies_any.add((owner, field))
        elif name == "decreases":
            ci.decreases.append(self.ev1(call.args[0], st).t)
        elif name == "invariant":
            k = call.args[0].value
            lam = call.args[1]
            ci.invariants.setdefault(k, []).append((label_of(2, "inv%d" % len(ci.invariants.get(k, []))), lam.body))
        elif name == "loop_decreases":
            ci.loop_decreases[call.args[0].value] = call.args[1].body
        elif name == "hint":
            if mode == "lemma-verify" or mode == "fuc-ghost":
                c = truth(self.ev1(call.args[0], st))
                saved = st.ghost
                st.ghost = False
                self.check(st, c, "lemma", "hint:" + label_of(1, ast.unparse(call.args[0])[:60]), call)
                st.ghost = saved
        elif name == "unfold":
            saved = st.unfold_budget
            st.unfold_budget = 2 if len(call.args) < 2 else call.args[1].value + 1
            self.ev1(call.args[0], st)
            st.unfold_budget = saved
        elif name == "use":
            raise Unsupported("use(): call the lemma by name instead", call)
        else:
            raise Unsupported("directive %s" % name, call)

    # ------------------------------------------------------------------ contract-language functions
    def dsl_special(self, name, node, st):
        if name == "old":
            if st.old is None:
                raise Unsupported("old() without a pre-state", node)
            saved_heap, saved_alloc = st.heap, st.alloc
            st.heap, st.alloc = st.old.heap, st.old.alloc
            try:
                v = self.ev1(node.args[0], st)
            finally:
                st.heap, st.alloc = saved_heap, saved_alloc
            yield st, v
            return
        if name == "setof":
            lam = node.args[0]
            if not isinstance(lam, ast.Lambda) or len(lam.args.args) != 1:
                raise Unsupported("setof(lambda x: cond)", node)
            ety = Str
            if len(node.args) > 1:
                tv = self.ev1(node.args[1], st)
                ety = tv.obj if isinstance(tv, Callable_) else ety
            (es,) = ety.comps()
            x = z3.Const(fresh_name("sx"), es)
            frame = dict(st.env)
            frame[lam.args.args[0].arg] = Val(ety, [x])
            st.frames.append(frame)
            try:
                c = truth(self.ev1(lam.body, st))
            finally:
                st.frames.pop()
            yield st, Val(TSet(ety), [z3.Lambda([x], c)])
            return
        raise Unsupported("quantifier %s: write the goal over a skolem constant / array equality instead" % name, node)

    def dsl_fn(self, name, args, kwargs, st, node):
        if name == "implies":
            return mk_bool(z3.Implies(truth(args[0]), truth(args[1])))
        if name == "iff":
            return mk_bool(truth(args[0]) == truth(args[1]))
        if name == "ite":
            return ite_val(truth(args[0]), args[1], args[2])
        if name == "union":
            return Val(args[0].ty, [z3.SetUnion(args[0].t, args[1].t)])
        if name == "inter":
            return Val(args[0].ty, [z3.SetIntersect(args[0].t, args[1].t)])
        if name == "setminus":
            return Val(args[0].ty, [z3.SetDifference(args[0].t, args[1].t)])
        if name == "subset":
            return mk_bool(z3.IsSubset(args[0].t, args[1].t))
        if name == "singleton":
            return Val(TSet(args[0].ty), [z3.Store(empty_set(args[0].ty).t, args[0].t, True)])
        if name == "emptyset":
            return empty_set(args[0].obj if isinstance(args[0], Callable_) else Str)
        if name == "setadd":
            return Val(args[0].ty, [z3.Store(args[0].t, coerce(args[1], args[0].ty.elem).t, True)])
        if name == "setdel":
            return Val(args[0].ty, [z3.Store(args[0].t, coerce(args[1], args[0].ty.elem).t, False)])
        if name == "mapdom":
            return Val(TSet(args[0].ty.key), [args[0].terms[0]])
        if name == "mapget":
            m, k = args
            return Val(m.ty.val, [z3.Select(a, k.t) for a in m.terms[1:]])
        if name == "mapset":
            return self.store_item(args[0], args[1], args[2], st, node)
        if name == "mapdel":
            m, k = args
            return Val(m.ty, [z3.Store(m.terms[0], k.t, False)] + m.terms[1:])
        if name in ("length", "seqlen"):
            return mk_int(z3.Length(args[0].t))
        if name == "isinst":
            return mk_bool(self.isinstance_term(args[0], z3.simplify(args[1].t).as_string()))
        if name == "isnone":
            return mk_bool(veq(args[0], NONE))
        if name == "some":
            return mk_some(args[0])
        if name == "unopt":
            return opt_inner(args[0]) if isinstance(args[0].ty, TOpt) else args[0]
        if name == "fresh_ref":
            r = args[0]
            if st.old is None:
                raise Unsupported("fresh_ref outside a postcondition", node)
            return mk_bool(z3.Not(z3.Select(st.old.alloc, r.t)))
        if name == "typeof":
            from .calls import TYP
            return mk_int(TYP(args[0].t))
        if name == "elems":
            x = args[0]
            if isinstance(x.ty, TLSet):
                return Val(TSet(x.ty.elem), [x.terms[0]])
            if isinstance(x.ty, TSet):
                return x
            raise Unsupported("elems(%r)" % x.ty, node)
        if name == "distinct":
            return mk_bool(args[0].terms[1]) if isinstance(args[0].ty, TLSet) else mk_bool(True)
        if name == "aslist":
            return Val(TLSet(args[0].ty.elem), [args[0].t, z3.BoolVal(True)])
        if name == "has":
            return mk_bool(self.contains(args[0], args[1], node))
        if name in ("str_init", "str_last", "str_first"):
            from .strings import SplitVal, init_seg, last_seg, first_seg
            sv = SplitVal(args[0].t, args[1].t)
            sv.facts(st, self)
            f = {"str_init": init_seg, "str_last": last_seg, "str_first": first_seg}[name]
            return mk_str(f(args[0].t, args[1].t))
        if name == "alph":
            from .strings import alph_of
            return Val(TSet(Str), [alph_of(args[0].t)])
        if name == "charset":
            from .strings import charset_of
            return Val(TSet(Str), [charset_of(z3.simplify(args[0].t).as_string())])
        if name == "alnum_chars":
            c = z3.Const(fresh_name("ch"), z3.StringSort())
            rng = z3.Union(z3.Range("a", "z"), z3.Range("A", "Z"), z3.Range("0", "9"))
            return Val(TSet(Str), [z3.Lambda([c], z3.InRe(c, rng))])
        if name == "lower":
            return mk_str(z3.Function("str_lower", z3.StringSort(), z3.StringSort())(args[0].t))
        if name == "module":
            return self.module_ref(z3.simplify(args[0].t).as_string())
        if name == "log_result_field":
            # a field of the object a logged call returned, *as of the end of that call*
            suffix = z3.simplify(args[0].t).as_string()
            field = z3.simplify(args[1].t).as_string()
            calls = [env for (q, env) in st.log if q.endswith(suffix) and "__result__" in env]
            if not calls:
                ty = None
                for table in (dsl.REG.contracts, dsl.REG.interfaces):
                    for qn, d in table.items():
                        if qn.endswith(suffix) and isinstance(d.returns, TRef):
                            ty = self.field_type(d.returns.cls, field)
                return fresh(ty or Str, "nocall")
            res = calls[-1]["__result__"]
            saved = st.heap
            st.heap = calls[-1]["__heap_after__"]
            try:
                return self.heap_read(st, res, field)
            finally:
                st.heap = saved
        if name == "log_result":
            suffix = z3.simplify(args[0].t).as_string()
            calls = [env for (q, env) in st.log if q.endswith(suffix) and "__result__" in env]
            idx = z3.simplify(args[1].t).as_long() if len(args) > 1 else -1
            if calls and -len(calls) <= idx < len(calls):
                return calls[idx]["__result__"]
            ty = Str
            for table in (dsl.REG.contracts, dsl.REG.interfaces):
                for qn, d in table.items():
                    if qn.endswith(suffix) and isinstance(d.returns, Ty):
                        ty = d.returns
            return fresh(ty, "nocall")
        if name in ("log_count", "log_arg", "log_result", "log_result_field", "log_raised"):
            sfx_ = z3.simplify(args[0].t).as_string()
            if any(q_.endswith(sfx_) for q_ in st.log_untracked):
                raise Unsupported("the ghost call log of %s is not tracked through loops (a call of it occurs in a loop body)" % sfx_, node)
        if name == "log_raised":
            suffix = z3.simplify(args[0].t).as_string()
            return mk_int(len([1 for (q, env) in st.log if q.endswith(suffix) and "__raised__" in env]))
        if name in ("log_count", "log_arg"):
            # ghost call log of this path: calls made through contracts since the function was entered
            suffix = z3.simplify(args[0].t).as_string()
            calls = [env for (q, env) in st.log if q.endswith(suffix)]
            if name == "log_count":
                return mk_int(len(calls))
            argn = z3.simplify(args[1].t).as_string()
            idx = z3.simplify(args[2].t).as_long() if len(args) > 2 else -1
            if not calls or not (-len(calls) <= idx < len(calls)):
                # no such call on this path: an unconstrained value of the parameter's type (nothing can be proved about it)
                ty = Str
                for table in (dsl.REG.contracts, dsl.REG.interfaces):
                    for qn, d in table.items():
                        if qn.endswith(suffix) and argn in d.params and isinstance(d.params[argn], Ty):
                            ty = d.params[argn]
                return fresh(ty, "nocall")
            return calls[idx][argn]
        if name in ("rec_has", "rec_get", "rec_set"):
            rec = args[0]
            f = z3.simplify(args[1].t).as_string()
            lo, hi, ft = rec.ty.field_slice(f)
            if name == "rec_has":
                return mk_bool(rec.ty.present(rec.terms, f))
            if name == "rec_get":
                return Val(ft, rec.terms[lo + 1:hi])
            return self.store_item(rec, args[1], args[2], st, node)
        if name == "inside":
            from . import pathmodel
            st.axiom(pathmodel.inside(args[0], args[0]).t)
            return pathmodel.inside(args[0], args[1])
        if name == "confined":
            from . import pathmodel
            return mk_bool(pathmodel.confined(args[0].t))
        if name in ("pname", "pparent", "pjoin"):
            # the pure path algebra of pyvc/pathmodel.py as specification functions: p.name, p.parent, p / s
            from . import pathmodel
            U = pathmodel._ufs()
            if name == "pname":
                return mk_str(U["pname"](args[0].t))
            if name == "pparent":
                return Val(pathmodel.PATH, [U["pparent"](args[0].t)])
            return Val(pathmodel.PATH, [U["pjoin"](args[0].t, args[1].t)])
        if name == "cast":
            return Val(TRef(z3.simplify(args[1].t).as_string()), args[0].terms)
        if name == "const":
            ty = args[0].obj if isinstance(args[0], Callable_) else args[0]
            nm = z3.simplify(args[1].t).as_string()
            return Val(ty, [z3.Const("ghost!%s!%d" % (nm, i), srt) for i, srt in enumerate(ty.comps())])
        if name == "str_encode":
            return Val(TBytes(), [self.str_encode(args[0].t, z3.simplify(args[1].t).as_string(), st)])
        if name == "bytes_decode":
            return mk_str(self.bytes_decode(args[0].t, z3.simplify(args[1].t).as_string(), st))
        if name == "as_any":
            return coerce(args[0], TOpaque("Any"))
        if name == "as_data":
            return coerce(args[0], TOpaque("Data"))
        if name == "raised":
            # a field (keyword argument) of the exception object that is leaving the function (only inside an "onraise:" clause)
            exc = getattr(self, "cur_exc", None)
            f = z3.simplify(args[0].t).as_string()
            if exc is not None and f not in exc.fields and self.unknown_exc_field(exc, f) is not None:
                return exc.fields[f]
            if exc is None or f not in (exc.fields or {}):
                raise Unsupported("raised(%r): the exception carries no such field here (%s with fields %s)" % (
                    f, getattr(exc, "cls", None), sorted((getattr(exc, "fields", None) or {}).keys())), node)
            return exc.fields[f]
        if name == "result":
            raise Unsupported("result is a name, not a function", node)
        raise Unsupported("contract function %s" % name, node)

    # ------------------------------------------------------------------ instantiate
    def instantiate(self, decl, env, st, mode="contract", mod=None, run_body=True):
        ci = CI(decl)
        frame = dict(env)
        frame.update({"__contract__": True, "__ci__": ci, "__mode__": mode, "__mod__": mod})
        ci.env = frame
        saved = (st.ghost, st.pure)
        st.ghost, st.pure = True, True
        st.frames.append(frame)
        try:
            for s in decl.ast.body:
                if isinstance(s, ast.Expr) and isinstance(s.value, ast.Constant):
                    continue
                if isinstance(s, ast.Expr) and isinstance(s.value, ast.Call) and isinstance(s.value.func, ast.Name) \
                        and s.value.func.id in self.DIRECTIVES:
                    self.directive(s.value, st)
                elif isinstance(s, ast.Assign) and len(s.targets) == 1 and isinstance(s.targets[0], ast.Name):
                    if _mentions_log(s.value):
                        raise Unsupported("a let-binding is evaluated at function entry, where the ghost call log is empty: write the "
                                          "log expression inside the clause (%s)" % s.targets[0].id, s)
                    frame[s.targets[0].id] = self.ev1(s.value, st)
                elif isinstance(s, ast.Pass):
                    pass
                elif isinstance(s, ast.Expr) and isinstance(s.value, ast.Call) and isinstance(s.value.func, ast.Name) \
                        and s.value.func.id in dsl.REG.lemmas:
                    # a lemma instance: its precondition is an obligation here, its conclusion a fact
                    args = [self.ev1(a, st) for a in s.value.args]
                    self.apply_lemma(dsl.REG.lemmas[s.value.func.id], args, st, s)
                else:
                    raise Unsupported("contract bodies are straight-line (directives and let-bindings)", s)
        finally:
            st.frames.pop()
            st.ghost, st.pure = saved
        return ci

    def eval_in_contract(self, ci, node, st, extra=None, as_bool=True):
        frame = dict(ci.env)
        if extra:
            frame.update(extra)
        saved = (st.ghost, st.pure, st.old)
        st.ghost, st.pure, st.old = True, True, ci.old
        st.frames.append(frame)
        try:
            v = self.ev1(node, st)
        finally:
            st.frames.pop()
            st.ghost, st.pure, st.old = saved
        return truth(v) if as_bool else v

    def coerce_args(self, decl, env, node, st=None):
        for n, t in decl.params.items():
            if n in env and isinstance(t, Ty) and not isinstance(env[n], Callable_):
                v = env[n]
                if st is not None and isinstance(v, Val) and isinstance(v.ty, TOpt) and not isinstance(t, (TOpt, TNone)):
                    # narrowing: the callee takes a plain value; None here would be a type error in the callee
                    self.check(st, z3.Not(opt_isnone(v)), "safe", "not-none@argument-%s-of-%s" % (n, decl.qualname.split(".")[-1]), node)
                    env[n] = opt_inner(v)
                try:
                    env[n] = coerce(env[n], t)
                except TypeError as e:
                    raise Unsupported("argument %s of %s: %s" % (n, decl.qualname, e), node)
        return env

    # ------------------------------------------------------------------ use of a contract at a call site
    def apply_contract(self, decl, args, kwargs, st, node, target):
        env = self.bind_params(decl.ast, args, kwargs, st, node, None)
        env = self.coerce_args(decl, env, node, st)
        mod = st.env.get("__mod__")
        ci = self.instantiate(decl, env, st, mod=mod)
        callee = decl.qualname.split(".")[-2:] if "." in decl.qualname else [decl.qualname]
        callee = ".".join(callee)
        for lab, c in ci.requires:
            self.check(st, c, "pre", "%s@%s" % (lab, callee), node)
        if self.cur_ci is not None and decl is self.cur_ci.decl and ci.decreases:
            for d_new, d_old in zip(ci.decreases, self.cur_ci.decreases):
                self.check(st, z3.And(d_new >= 0, d_new < d_old), "decreases", "recursive-call@%s" % callee, node)
        elif self.cur_ci is not None and decl is self.cur_ci.decl and not ci.decreases:
            self.note_assumption("termination of recursive %s not proved (no decreases clause)" % decl.qualname)
        self.used_contracts.add((decl.kind, decl.qualname))
        log_entry = None
        if not decl.opts.get("pure"):
            log_entry = dict(env)
            st.log.append((decl.qualname, log_entry))      # ghost call log (pure observers are not recorded)
        ci.old = st.snapshot()
        whens = [w for (_, w, _, _) in ci.raises if w is not None]
        for cname, when, lab, _ in ci.raises:
            if when is None or feasible(st.pc, when):
                s2 = st.clone()
                if when is not None:
                    s2.assume(when)
                if log_entry is not None:
                    e2 = dict(log_entry)
                    e2["__raised__"] = cname
                    s2.log[-1] = (decl.qualname, e2)
                yield s2, Raise(ExcVal(cname))
        for w in whens:
            st.assume(z3.Not(w))
        if whens and not feasible(st.pc, z3.BoolVal(True)):
            return
        # havoc the frame
        for owner, field in ci.modifies_any:
            fty = dsl.REG.classes[owner].fields[field]
            key, arrs = self.heap_arrays(st, owner, field, fty)
            st.heap[key] = [z3.Const(fresh_name("hvany_%s" % field), a.sort()) for a in arrs]
            st.written.add(key)
        for ref, owner, field in ci.modifies:
            fty = dsl.REG.classes[owner].fields[field]
            key, arrs = self.heap_arrays(st, owner, field, fty)
            newv = fresh(fty, "hv_%s" % field)
            st.heap[key] = [z3.Store(a, ref.t, t) for a, t in zip(arrs, newv.terms)]
            st.written.add(key)
            st.written_at.setdefault(key, []).append(ref.t)
        if decl.opts.get("functional"):
            # the callee's result is a function of its arguments (proved as `post:functional` on the callee):
            # use the term itself, which is also meaningful under binders (comprehensions)
            sp = dsl.REG.specs[decl.opts["functional"]]
            result = self.apply_spec(sp, [env[n] for n in sp.params], st, node)
        else:
            result = fresh(decl.returns, "ret_" + callee.split(".")[-1]) if not isinstance(decl.returns, TNone) else NONE
        self.assume_wellformed_result(st, result)
        if decl.opts.get("returns_fresh") and isinstance(result, Val) and isinstance(result.ty, TRef):
            st.assume(z3.Not(z3.Select(ci.old.alloc, result.t)))
            st.fresh_refs.append(result)
        feasible_before = None
        for lab, enode in ci.ensures:
            if _mentions_log(enode) or lab.startswith("onraise:"):
                continue        # a clause over the callee's own ghost call history (or over its failure) says nothing a caller can use here
            if feasible_before is None:
                feasible_before = feasible(st.pc, z3.BoolVal(True))
            st.assume(self.eval_in_contract(ci, enode, st, {"result": result}))
        if feasible_before and not feasible(st.pc, z3.BoolVal(True)):
            # vacuity guard: a contract whose postcondition cannot hold here would silently prune the path
            self.add_obligation(st, z3.BoolVal(False), "shape", "postcondition-of-%s-is-contradictory-at-a-call-site" % callee, node)
            return
        if log_entry is not None:
            log_entry["__result__"] = result
            log_entry["__heap_after__"] = dict(st.heap)       # the heap as the callee left it (for log_result_field)
        yield st, result

    def assume_wellformed_result(self, st, v):
        if isinstance(v, Val) and isinstance(v.ty, TRef):
            self.assume_type(st, v)
            st.alloc = z3.Store(st.alloc, v.t, True)

    # ------------------------------------------------------------------ spec functions
    def spec_ufs(self, decl):
        if decl.qualname not in self._spec_ufs:
            argsorts = []
            for n, t in decl.params.items():
                argsorts += t.comps()
            for owner, field in decl.opts.get("reads", []):
                fty = dsl.REG.classes[owner].fields[field]
                argsorts += [z3.ArraySort(z3.IntSort(), srt) for srt in fty.comps()]
            self._spec_ufs[decl.qualname] = [z3.Function("%s#%d" % (decl.qualname, i), *(argsorts + [s]))
                                             for i, s in enumerate(decl.returns.comps())]
        return self._spec_ufs[decl.qualname]

    def apply_spec(self, decl, args, st, node):
        names = list(decl.params)
        if len(args) != len(names):
            raise Unsupported("spec %s arity" % decl.qualname, node)
        vals = []
        for n, a in zip(names, args):
            try:
                vals.append(coerce(a, decl.params[n]))
            except TypeError as e:
                raise Unsupported("spec %s argument %s: %s" % (decl.qualname, n, e), node)
        if decl.opts.get("macro"):
            return self.run_spec_body(decl, vals, st, node, macro=True)
        flat = []
        for v in vals:
            flat += v.terms
        for owner, field in decl.opts.get("reads", []):
            flat += self.heap_arrays(st, owner, field, dsl.REG.classes[owner].fields[field])[1]
        result = Val(decl.returns, [f(*flat) for f in self.spec_ufs(decl)])
        key = (decl.qualname,) + tuple(z3.simplify(t).get_id() for t in flat)
        if st.unfold_budget > 0 and key not in st.unfolded and not decl.opts.get("uninterpreted"):
            st.unfolded.add(key)
            saved = st.unfold_budget
            st.unfold_budget -= 1
            try:
                for pc, v in self.run_spec_body(decl, vals, st, node):
                    ax = z3.Implies(z3.And(pc) if pc else z3.BoolVal(True), veq(result, coerce(v, decl.returns)))
                    st.axiom(ax)
            finally:
                st.unfold_budget = saved
        return result

    def run_spec_body(self, decl, vals, st, node, macro=False):
        s = State()
        s.heap = st.heap
        s.alloc = st.alloc
        s.ghost = True
        s.pure = False
        s.unfold_budget = st.unfold_budget
        s.unfolded = st.unfolded
        s.old = st.old
        s.axiom_sink = st.axiom_sink if st.axiom_sink is not None else st.pc
        frame = {n: v for n, v in zip(decl.params, vals)}
        frame.update({"__contract__": True, "__mode__": "spec", "__mod__": st.env.get("__mod__"), "__ci__": None})
        s.frames = [frame]
        outs = []
        for s1, out in self.exec_block(decl.ast.body, s):
            if out[0] != "return":
                raise Unsupported("spec function %s must return on every path" % decl.qualname, node)
            outs.append((list(s1.pc), out[1]))
        if macro:
            res = coerce(outs[-1][1], decl.returns)
            for pc, v in reversed(outs[:-1]):
                res = ite_val(z3.And(pc) if pc else z3.BoolVal(True), coerce(v, decl.returns), res)
            return res
        return outs

    # ------------------------------------------------------------------ lemmas
    def apply_lemma(self, decl, args, st, node):
        names = list(decl.params)
        env = {}
        for n, a in zip(names, args):
            env[n] = coerce(a, decl.params[n])
        ci = self.instantiate_lemma_header(decl, env, st)
        for lab, c in ci.requires:
            saved = st.ghost
            st.ghost = False
            self.check(st, c, "pre", "%s@lemma:%s" % (lab, decl.qualname), node)
            st.ghost = saved
        if self.cur_ci is not None and decl is self.cur_ci.decl:
            for d_new, d_old in zip(ci.decreases, self.cur_ci.decreases):
                saved = st.ghost
                st.ghost = False
                self.check(st, z3.And(d_new >= 0, d_new < d_old), "decreases", "induction@lemma:%s" % decl.qualname, node)
                st.ghost = saved
        self.used_contracts.add(("lemma", decl.qualname))
        for lab, enode in ci.ensures:
            st.assume(self.eval_in_contract(ci, enode, st))

    def instantiate_lemma_header(self, decl, env, st):
        """Directives of a lemma (requires / decreases / ensures) without its proof body."""
        ci = CI(decl)
        frame = dict(env)
        frame.update({"__contract__": True, "__ci__": ci, "__mode__": "lemma-use", "__mod__": None})
        ci.env = frame
        saved = (st.ghost, st.pure)
        st.ghost, st.pure = True, True
        st.frames.append(frame)
        try:
            for s in decl.ast.body:
                if isinstance(s, ast.Expr) and isinstance(s.value, ast.Call) and isinstance(s.value.func, ast.Name) \
                        and s.value.func.id in ("requires", "ensures", "decreases"):
                    self.directive(s.value, st)
                elif isinstance(s, ast.Assign) and len(s.targets) == 1 and isinstance(s.targets[0], ast.Name):
                    try:
                        frame[s.targets[0].id] = self.ev1(s.value, st)
                    except Unsupported:
                        pass
        finally:
            st.frames.pop()
            st.ghost, st.pure = saved
        return ci

    # ------------------------------------------------------------------ loops
    def loop_with_invariant(self, node, st, kind, iterable=None, reverse=False, items_of=None, enum_from=None):
        qual = st.env.get("__qual__")
        ordinal = self.loop_ordinals.get(id(node))
        ci = self.cur_ci
        if ci is None or qual != (self.cur_qual or "").split("@")[0] or ordinal is None or ordinal not in ci.invariants:
            if kind == "for" and isinstance(iterable, Val) and isinstance(iterable.ty, (TSeq, TSet, TLSet)) and ci is not None:
                wl, wh, _t, _r = self.discover_writes(node, st, kind, iterable, items_of, enum_from)
                if not wl and not wh and not any(isinstance(n, (ast.Return, ast.Raise, ast.Break)) for n in ast.walk(node)):
                    # the body changes nothing that is modelled (only opaque / effect-free calls): skipping it is exact
                    self.note_assumption("loop at line %s of %s has no modelled effect and is skipped (assumed to terminate)" % (node.lineno, qual))
                    yield from self.exec_block(node.orelse, st)
                    return
            raise Unsupported("loop without an invariant in %s (loop %s)" % (qual, ordinal), node)
        invs = ci.invariants[ordinal]
        ghosts = {}
        seq_mode = set_mode = False
        if kind == "for":
            if isinstance(iterable, Val) and isinstance(iterable.ty, TSeq):
                seq_mode = True
                ghosts["_i"] = mk_int(0)
                ghosts["_iter"] = iterable
            elif isinstance(iterable, Val) and isinstance(iterable.ty, (TSet, TLSet)):
                if isinstance(iterable.ty, TLSet):
                    self.note_assumption("iteration over a list known only by its element set visits each element once (order and duplicates abstracted)")
                    iterable = Val(TSet(iterable.ty.elem), [iterable.terms[0]])
                set_mode = True
                ghosts["_seen"] = empty_set(iterable.ty.elem)
                ghosts["_iter"] = iterable
            else:
                raise Unsupported("iteration over %r" % (iterable,), node)

        for _lab, _body in invs:
            if _mentions_log(_body):
                raise Unsupported("a loop invariant cannot speak about the ghost call log (the log is per path, not per iteration)", node)

        def inv_terms(s, gh):
            frame_extra = dict(s.env)
            frame_extra.update(gh)
            frame_extra.pop("__contract__", None)
            out = []
            for lab, body in invs:
                extra = {k: v for k, v in frame_extra.items() if not k.startswith("__")}
                out.append((lab, self.eval_in_contract(ci, body, s, extra)))
            return out

        # 1. discover the write set with one scratch pass over the body
        wl, wh, types, wrefs = self.discover_writes(node, st, kind, iterable, items_of, enum_from)
        # coerce entry values of locals to their loop types (e.g. [] -> Seq)
        types.update({n: t for n, t in ci.decl.opts.get("locals", {}).items() if n in wl})
        for n, ty in types.items():
            if n in st.env and st.env[n] is not None and isinstance(ty, Ty):
                try:
                    st.env[n] = coerce(st.env[n], ty)
                except (TypeError, AttributeError):
                    raise Unsupported("local %s changes type inside the loop (%r before it)" % (n, st.env[n]), node)
        # 2. invariant holds on entry
        for lab, c in inv_terms(st, ghosts):
            self.check(st, c, "inv-init", "loop%d:%s" % (ordinal, lab), node)
        # 3. havoc
        for n in wl:
            if n in st.env and isinstance(st.env[n], Val):
                st.env[n] = fresh(st.env[n].ty, "lp_" + n)
                self.assume_wellformed(st, st.env[n])
        for key in wh:
            owner, field = key
            fty = dsl.REG.classes[owner].fields[field]
            arrs = self.heap_arrays(st, owner, field, fty)[1]
            refs = wrefs.get(key, [])
            if refs and all(z3.is_const(r) and r.decl().kind() == z3.Z3_OP_UNINTERPRETED for r in refs):
                # every write in the body goes to a loop-invariant object: havoc only there
                new = list(arrs)
                seen_ids = set()
                for r in refs:
                    if r.get_id() in seen_ids:
                        continue
                    seen_ids.add(r.get_id())
                    hv = fresh(fty, "lp_%s" % field)
                    new = [z3.Store(a, r, t) for a, t in zip(new, hv.terms)]
                    st.written_at.setdefault(key, []).append(r)
                st.heap[key] = new
            else:
                st.heap[key] = [z3.Const(fresh_name("lpheap_%s" % field), a.sort()) for a in arrs]
            st.written.add(key)
        if seq_mode:
            i = z3.Const(fresh_name("_i"), z3.IntSort())
            st.assume(z3.And(i >= 0, i <= z3.Length(iterable.t)))
            ghosts["_i"] = mk_int(i)
        if set_mode:
            ghosts["_seen"] = fresh(TSet(iterable.ty.elem), "_seen")
            st.assume(z3.IsSubset(ghosts["_seen"].t, iterable.t))
        for lab, c in inv_terms(st, ghosts):
            st.assume(c)
        measure0 = None
        if ordinal in ci.loop_decreases:
            extra = {k: v for k, v in st.env.items() if not k.startswith("__")}
            extra.update(ghosts)
            measure0 = self.eval_in_contract(ci, ci.loop_decreases[ordinal], st, extra, as_bool=False).t
        elif kind == "while":
            self.note_assumption("termination of while loop %d in %s not proved" % (ordinal, qual))
        # 4. exit path and iteration path
        exit_st = st.clone()
        if seq_mode:
            iter_conds = [(st, ghosts["_i"].t < z3.Length(iterable.t))]
            exit_cond = [(exit_st, ghosts["_i"].t == z3.Length(iterable.t))]
        elif set_mode:
            x = fresh(iterable.ty.elem, "_x")
            iter_conds = [(st, z3.And(z3.Select(iterable.t, x.t), z3.Not(z3.Select(ghosts["_seen"].t, x.t))))]
            exit_cond = [(exit_st, ghosts["_seen"].t == iterable.t)]
        else:
            iter_conds, exit_cond = [], []
            for s1, c in self.ev(node.test, st):
                if isinstance(c, Raise):
                    yield s1, ("raise", c.exc)
                    continue
                s2 = s1.clone()
                iter_conds.append((s1, truth(c)))
                exit_cond.append((s2, z3.Not(truth(c))))
        for s1, c in iter_conds:
            if not feasible(s1.pc, c):
                continue
            s1.assume(c)
            gh = dict(ghosts)
            if seq_mode:
                pos = (z3.Length(iterable.t) - 1 - ghosts["_i"].t) if reverse else ghosts["_i"].t
                elem = Val(iterable.ty.elem, [iterable.t[pos]])
                self.assume_wellformed(s1, elem)
                if enum_from is not None:
                    elem = PyList([mk_int(enum_from + ghosts["_i"].t), elem], is_tuple=True)
                starts = self.assign(node.target, elem, s1, node)
            elif set_mode and items_of is not None:
                vx = Val(items_of.ty.val, [z3.Select(a, x.t) for a in items_of.terms[1:]])
                starts = self.assign(node.target, PyList([x, vx], is_tuple=True), s1, node)
            elif set_mode:
                starts = self.assign(node.target, x, s1, node)
            else:
                starts = [(s1, ("normal",))]
            for s2, o in starts:
                if o[0] != "normal":
                    yield s2, o
                    continue
                for s3, out in self.exec_block(node.body, s2):
                    if out[0] in ("normal", "continue"):
                        gh2 = dict(gh)
                        if seq_mode:
                            gh2["_i"] = mk_int(gh["_i"].t + 1)
                        if set_mode:
                            gh2["_seen"] = Val(gh["_seen"].ty, [z3.Store(gh["_seen"].t, x.t, True)])
                        for lab, c2 in inv_terms(s3, gh2):
                            self.check(s3, c2, "inv-keep", "loop%d:%s" % (ordinal, lab), node)
                        if measure0 is not None:
                            extra = {k: v for k, v in s3.env.items() if not k.startswith("__")}
                            extra.update(gh2)
                            m1 = self.eval_in_contract(ci, ci.loop_decreases[ordinal], s3, extra, as_bool=False).t
                            self.check(s3, z3.And(measure0 >= 0, m1 < measure0), "decreases", "loop%d" % ordinal, node)
                    elif out[0] == "break":
                        yield s3, ("normal",)
                    else:
                        yield s3, out
        for s1, c in exit_cond:
            if not feasible(s1.pc, c):
                continue
            s1.assume(c)
            yield from self.exec_block(node.orelse, s1)

    def discover_writes(self, node, st, kind, iterable, items_of=None, enum_from=None):
        s = st.clone()
        s.written = set()
        s.written_locals = set()
        s.written_at = {}
        self.suppress += 1
        wrefs = {}
        saved_ci_inv = None
        wl, wh, types = set(), set(), {}
        try:
            if kind == "for":
                dummy = fresh(iterable.ty.elem, "_d")
                if enum_from is not None:
                    dummy = PyList([fresh(Int, "_di"), dummy], is_tuple=True)
                if items_of is not None:
                    dummy = PyList([dummy, fresh(items_of.ty.val, "_dv")], is_tuple=True)
                starts = list(self.assign(node.target, dummy, s, node))
            else:
                starts = [(s, ("normal",))]
            self.in_discovery += 1
            try:
                for s1, o in starts:
                    if o[0] != "normal":
                        continue
                    n_log0 = len(s1.log)
                    for s2, out in self.exec_block(node.body, s1):
                        # calls made inside a loop body are not in the ghost call log of the state after the loop:
                        # the log of those callees is marked untracked (a clause over it is a shape error, never a silent pass)
                        for (q_, _e) in s2.log[n_log0:]:
                            st.log_untracked.add(q_)
                        wl |= s2.written_locals
                        wh |= s2.written
                        for k_, rs_ in s2.written_at.items():
                            wrefs.setdefault(k_, []).extend(rs_)
                        for n in s2.written_locals:
                            v = s2.env.get(n)
                            if isinstance(v, Val):
                                types[n] = v.ty
            finally:
                self.in_discovery -= 1
        finally:
            self.suppress -= 1
        for t in ast.walk(node.target) if kind == "for" else []:
            if isinstance(t, ast.Name):
                wl.discard(t.id)
        return wl, wh, types, wrefs
