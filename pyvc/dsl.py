"""Sidecar DSL: contracts, class declarations, spec functions and lemmas.

Sidecar modules are ordinary Python files; importing one registers its
declarations in ``REG``.  Contract / spec / lemma bodies are never *called*:
the engine reads their source AST and interprets it symbolically with the
same translator it uses for the repository code.
"""
import ast
import inspect
import textwrap

from .vals import (Int, Bool, Str, Bytes, NoneT, TRef, TOpt, TSet, TMap, TSeq, TTuple, TRec, TOpaque, TLSet)

Ref, Opt, Set, Map, Seq, Tuple, Rec, Opaque, ListOfSet = TRef, TOpt, TSet, TMap, TSeq, TTuple, TRec, TOpaque, TLSet


class ClassDecl:
    def __init__(self, qualname, bases, fields, abstract, views, sealed=False):
        self.sealed = sealed
        self.qualname = qualname
        self.name = qualname.split(".")[-1]
        self.bases = list(bases)
        self.fields = dict(fields)
        self.abstract = abstract
        self.tuple_fields = []
        self.views = dict(views)     # ghost (interface) field name -> concrete field of this class holding it     # ghost field name -> spec function name computing it from concrete fields


class FuncDecl:
    def __init__(self, kind, qualname, fn, params, returns, **opts):
        self.kind = kind              # contract | interface | assumed | spec | lemma
        self.qualname = qualname
        self.params = dict(params or {})
        self.returns = returns
        self.opts = opts
        src = textwrap.dedent(inspect.getsource(fn))
        tree = ast.parse(src)
        self.ast = tree.body[0]
        self.file = inspect.getsourcefile(fn)
        self.pyfn = fn

    def __repr__(self):
        return "<%s %s>" % (self.kind, self.qualname)


class Registry:
    def __init__(self):
        self.classes = {}       # short name -> ClassDecl
        self.contracts = {}     # qualname -> FuncDecl (kind contract/assumed)
        self.interfaces = {}    # "Iface.method" -> FuncDecl
        self.specs = {}         # name -> FuncDecl
        self.lemmas = {}        # name -> FuncDecl
        self.inline = set()     # qualnames of repo functions that are executed inline at call sites
        self.skip_calls = set()
        self.props = {}         # property id -> dict(fucs=[...], lemmas=[...])
        self.consts = {}
        self.scenarios = {}     # obligation-name prefix -> replay scenario callable
        self.overridden = []    # (qualname, what happened) for contracts declared more than once


REG = Registry()


def classdef(qualname, bases=(), fields=None, abstract=False, views=None, sealed=False, tuple_fields=None, record=None):
    d = ClassDecl(qualname, bases, fields or {}, abstract, views or {}, sealed)
    d.tuple_fields = list(tuple_fields or [])      # a tuple kept in a list, modelled as an immutable object with these fields
    d.record = record      # a dictionary kept in a list: an object whose field `record` holds the dictionary (x["k"], x.get, "k" in x)
    REG.classes[d.name] = d
    return d


def module_state(modname, fields):
    """Module-level variables that functions read and assign (`global x`): fields of a singleton pseudo-object."""
    d = ClassDecl("module:" + modname, (), fields, False, {})
    d.name = "module:" + modname
    REG.classes[d.name] = d
    return d


def contract(qualname, params=None, returns=NoneT, **opts):
    """Contract that is proved on the function's source (and used at its call sites).  One per function (a second, more detailed
    one goes under "<qualname>@<view>"); it replaces an assumed contract of the same function whatever the load order."""
    def deco(fn):
        prev = REG.contracts.get(qualname)
        if prev is not None and prev.kind == "contract":
            raise RuntimeError("two @contract declarations for %s (%s and %s)" % (qualname, prev.file, fn.__code__.co_filename))
        if prev is not None:
            REG.overridden.append((qualname, "assumed contract replaced by the proved one"))
        REG.contracts[qualname] = FuncDecl("contract", qualname, fn, params, returns, **opts)
        return fn
    return deco


def assumed(qualname, params=None, returns=NoneT, **opts):
    """Contract that is used at call sites but not proved (outside the verifier's reach).  Never replaces a proved contract."""
    def deco(fn):
        prev = REG.contracts.get(qualname)
        if prev is not None and prev.kind == "contract":
            REG.overridden.append((qualname, "assumed contract ignored: the function has a proved contract"))
            return fn
        if prev is not None:
            REG.overridden.append((qualname, "assumed contract declared twice: the later declaration is used"))
        REG.contracts[qualname] = FuncDecl("assumed", qualname, fn, params, returns, **opts)
        return fn
    return deco


def interface(name, params=None, returns=NoneT, **opts):
    """Contract of an interface method, e.g. ``Store.get_bytes``."""
    def deco(fn):
        REG.interfaces[name] = FuncDecl("interface", name, fn, params, returns, **opts)
        return fn
    return deco


def spec(params=None, returns=Bool, **opts):
    def deco(fn):
        REG.specs[fn.__name__] = FuncDecl("spec", fn.__name__, fn, params, returns, **opts)
        return fn
    return deco


def lemma(params=None, **opts):
    def deco(fn):
        REG.lemmas[fn.__name__] = FuncDecl("lemma", fn.__name__, fn, params, NoneT, **opts)
        return fn
    return deco


def inline(*qualnames):
    REG.inline.update(qualnames)


def prop(pid, fucs=(), lemmas=(), notes=None, static=()):
    d = REG.props.setdefault(pid, dict(fucs=[], lemmas=[], notes=[], static=[]))
    d.setdefault("static", [])
    d["static"] += list(static)
    d["fucs"] += list(fucs)
    d["lemmas"] += list(lemmas)
    if notes:
        d["notes"].append(notes)


def scenario(prefix):
    def deco(fn):
        REG.scenarios[prefix] = fn
        return fn
    return deco
