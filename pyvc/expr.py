"""Expression evaluation (symbolic).  ``ev`` is a generator of (state, value|Raise):
an expression may fork the path (short-circuit operators, calls that may raise)."""
import ast
import z3

from .vals import (Val, PyList, PyDict, ExcVal, Callable_, Int, Bool, Str, Bytes, NoneT, NONE, TInt, TBool, TStr, TBytes,
                   TNone, TRef, TOpt, TSet, TMap, TSeq, TTuple, TRec, TOpaque, TLSet, mk_int, mk_bool, mk_str, mk_bytes, fresh,
                   mk_none_opt, mk_some, opt_isnone, opt_inner, empty_set, empty_map, empty_seq, seq_unit, coerce, veq,
                   truth, ite_val, fresh_name)
from .state import Unsupported, Raise, feasible
from . import dsl
from .vals import Ty

SKIP_CALL_NAMES = {"print"}
SKIP_CALL_BASES = {"logging", "logger", "traceback", "warnings"}


def is_skipped_call(node):
    f = node.func
    if isinstance(f, ast.Name) and f.id in SKIP_CALL_NAMES:
        return True
    if isinstance(f, ast.Attribute):
        b = f.value
        while isinstance(b, ast.Attribute):
            b = b.value
        if isinstance(b, ast.Name) and b.id in SKIP_CALL_BASES and not (b.id == "traceback" and f.attr == "format_exc"):
            return True
    return False


class ExprMixin:
    # ------------------------------------------------------------------ forking helpers
    def branch(self, st, cond, label=None):
        """Yield (state, taken) for the feasible sides of ``cond``."""
        cond = z3.simplify(cond)
        if z3.is_true(cond):
            yield st, True
            return
        if z3.is_false(cond):
            yield st, False
            return
        t = feasible(st.pc, cond)
        f = feasible(st.pc, z3.Not(cond))
        if t and f:
            s2 = st.clone()
            st.assume(cond)
            if label:
                st.path.append(label + "=T")
                s2.path.append(label + "=F")
            yield st, True
            s2.assume(z3.Not(cond))
            yield s2, False
        elif t:
            yield st, True
        elif f:
            yield st, False

    def ev_list(self, nodes, st):
        if not nodes:
            yield st, []
            return
        for st1, v in self.ev(nodes[0], st):
            if isinstance(v, Raise):
                yield st1, v
                continue
            for st2, rest in self.ev_list(nodes[1:], st1):
                if isinstance(rest, Raise):
                    yield st2, rest
                else:
                    yield st2, [v] + rest

    def ev1(self, node, st):
        """Evaluate in pure mode: exactly one result, no forking."""
        saved = st.pure
        st.pure = True
        try:
            res = list(self.ev(node, st))
        finally:
            st.pure = saved
        if len(res) != 1 or isinstance(res[0][1], Raise):
            raise Unsupported("contract expression is not pure/total: %s" % ast.unparse(node), node)
        return res[0][1]

    def check(self, st, goal, kind, label, node=None):
        """Emit an obligation for ``goal`` under the current path and assume it afterwards."""
        goal = z3.simplify(goal)
        if st.ghost:
            return
        if z3.is_true(goal):
            if kind in ("post", "raises", "frame", "lemma", "inv-init", "inv-keep", "decreases", "pre"):
                self.add_obligation(st, goal, kind, label, node)       # still an obligation of the contract: recorded as discharged by rewriting
            return
        self.add_obligation(st, goal, kind, label, node)
        st.assume(goal)

    # ------------------------------------------------------------------ main dispatcher
    def ev(self, node, st):
        m = getattr(self, "ev_" + type(node).__name__, None)
        if m is None:
            raise Unsupported("expression %s" % type(node).__name__, node)
        return m(node, st)

    def ev_Constant(self, node, st):
        v = node.value
        if v is None:
            yield st, NONE
        elif isinstance(v, bool):
            yield st, mk_bool(v)
        elif isinstance(v, int):
            yield st, mk_int(v)
        elif isinstance(v, str):
            yield st, mk_str(v)
        elif isinstance(v, bytes):
            yield st, mk_bytes(v)
        else:
            raise Unsupported("constant %r" % (v,), node)

    def ev_Name(self, node, st):
        yield st, self.lookup(node.id, st, node)

    def ev_Tuple(self, node, st):
        for st1, vs in self.ev_list(node.elts, st):
            yield st1, (vs if isinstance(vs, Raise) else PyList(vs, is_tuple=True))

    def ev_List(self, node, st):
        for st1, vs in self.ev_list(node.elts, st):
            yield st1, (vs if isinstance(vs, Raise) else PyList(vs))

    def ev_Set(self, node, st):
        for st1, vs in self.ev_list(node.elts, st):
            if isinstance(vs, Raise):
                yield st1, vs
                continue
            out = empty_set(vs[0].ty)
            for v in vs:
                out = Val(out.ty, [z3.Store(out.t, v.t, True)])
            yield st1, out

    def ev_Dict(self, node, st):
        keys = []
        for k in node.keys:
            if not (isinstance(k, ast.Constant) and isinstance(k.value, str)):
                raise Unsupported("dict literal with non-constant key", node)
            keys.append(k.value)
        for st1, vs in self.ev_list(node.values, st):
            yield st1, (vs if isinstance(vs, Raise) else PyDict(zip(keys, vs)))

    def ev_JoinedStr(self, node, st):
        parts = [p.value if isinstance(p, ast.FormattedValue) else p for p in node.values]
        for st1, vs in self.ev_list(parts, st):
            if isinstance(vs, Raise):
                yield st1, vs
                continue
            terms = [self.to_str_term(v, st1) for v in vs]
            if not terms:
                yield st1, mk_str("")
            elif len(terms) == 1:
                yield st1, mk_str(terms[0])
            else:
                yield st1, mk_str(z3.Concat(*terms))

    def to_str_term(self, v, st):
        if isinstance(v, Val) and isinstance(v.ty, TStr):
            return v.t
        if isinstance(v, Val) and isinstance(v.ty, TOpt) and isinstance(v.ty.inner, TStr):
            return z3.If(opt_isnone(v), z3.StringVal("None"), v.terms[1])
        if isinstance(v, Val) and isinstance(v.ty, TNone):
            return z3.StringVal("None")
        if isinstance(v, Val) and isinstance(v.ty, TInt):
            return z3.IntToStr(v.t)
        # str() of anything else: an unconstrained string (assumption: only used in messages)
        return z3.Const(fresh_name("strof"), z3.StringSort())

    def ev_BoolOp(self, node, st):
        is_and = isinstance(node.op, ast.And)
        if st.pure:
            vals = [self.ev1(v, st) for v in node.values]
            if all(isinstance(v, Val) and isinstance(v.ty, TBool) for v in vals):
                yield st, mk_bool((z3.And if is_and else z3.Or)([v.t for v in vals]))
            else:
                out = vals[-1]
                for v in reversed(vals[:-1]):
                    c = truth(v)
                    out = ite_val(c, out, v) if is_and else ite_val(c, v, out)
                yield st, out
            return
        # operands that are total, effect-free booleans: one term instead of one path per short-circuit outcome
        terms = []
        ok = True
        if ok:
            s2 = st.clone()
            try:
                vals = []
                for v in node.values:
                    res = list(self.ev(v, s2))
                    if len(res) != 1 or isinstance(res[0][1], Raise) or res[0][0] is not s2:
                        ok = False
                        break
                    vals.append(res[0][1])
                if ok and len(s2.pc) == len(st.pc) and s2.written == st.written and len(s2.log) == len(st.log) and \
                        all(isinstance(x, Val) and isinstance(x.ty, TBool) for x in vals):
                    yield st, mk_bool((z3.And if is_and else z3.Or)([x.t for x in vals]))
                    return
            except Unsupported:
                pass
        yield from self._boolop(node.values, is_and, st)

    def _benign(self, n):
        """sub-expressions that neither raise nor change state: names, attribute reads of plain fields are decided at run time by ev"""
        return isinstance(n, ast.Attribute) and isinstance(n.value, ast.Name)

    def _boolop(self, values, is_and, st):
        for st1, v in self.ev(values[0], st):
            if isinstance(v, Raise) or len(values) == 1:
                yield st1, v
                continue
            for st2, taken in self.branch(st1, truth(v)):
                if taken == is_and:
                    yield from self._boolop(values[1:], is_and, st2)
                else:
                    yield st2, v

    def ev_UnaryOp(self, node, st):
        for st1, v in self.ev(node.operand, st):
            if isinstance(v, Raise):
                yield st1, v
            elif isinstance(node.op, ast.Not):
                yield st1, mk_bool(z3.Not(truth(v)))
            elif isinstance(node.op, ast.USub):
                yield st1, mk_int(-v.t)
            else:
                raise Unsupported("unary op", node)

    def ev_IfExp(self, node, st):
        if st.pure:
            c = truth(self.ev1(node.test, st))
            yield st, ite_val(c, self.ev1(node.body, st), self.ev1(node.orelse, st))
            return
        for st1, c in self.ev(node.test, st):
            if isinstance(c, Raise):
                yield st1, c
                continue
            # both arms simple and total: a conditional value instead of two paths
            if not any(isinstance(n, ast.Call) for n in ast.walk(node.body)) and not any(isinstance(n, ast.Call) for n in ast.walk(node.orelse)):
                try:
                    s2 = st1.clone()
                    va, vb = self.ev1(node.body, s2), self.ev1(node.orelse, s2)
                    if isinstance(va, Val) and isinstance(vb, Val) and len(s2.pc) == len(st1.pc):
                        yield st1, ite_val(truth(c), va, vb)
                        continue
                except Exception:
                    pass
            for st2, taken in self.branch(st1, truth(c)):
                yield from self.ev(node.body if taken else node.orelse, st2)

    def ev_Compare(self, node, st):
        operands = [node.left] + list(node.comparators)
        for st1, vs in self.ev_list(operands, st):
            if isinstance(vs, Raise):
                yield st1, vs
                continue
            conj = []
            for op, a, b in zip(node.ops, vs, vs[1:]):
                conj.append(self.compare(op, a, b, st1, node))
            yield st1, mk_bool(z3.And(conj) if len(conj) > 1 else conj[0])

    def compare(self, op, a, b, st, node):
        if isinstance(op, ast.Eq):
            return self.py_eq(a, b)
        if isinstance(op, ast.NotEq):
            return z3.Not(self.py_eq(a, b))
        if isinstance(op, ast.Is):
            return self.py_is(a, b)
        if isinstance(op, ast.IsNot):
            return z3.Not(self.py_is(a, b))
        if isinstance(op, (ast.In, ast.NotIn)):
            b = self.unbox_record(b, st)
            if isinstance(b, Val) and isinstance(b.ty, TOpt) and isinstance(b.ty.inner, (TMap, TSet, TLSet, TSeq, TStr, TRec)):
                self.check(st, z3.Not(opt_isnone(b)), "safe", "not-none@in", node)       # `x in None` is a TypeError
                b = opt_inner(b)
            r = self.contains(b, a, node)
            return z3.Not(r) if isinstance(op, ast.NotIn) else r
        if isinstance(op, (ast.Lt, ast.LtE, ast.Gt, ast.GtE)):
            if not (isinstance(a, Val) and isinstance(b, Val) and isinstance(a.ty, TInt) and isinstance(b.ty, TInt)):
                raise Unsupported("ordering on non-integers", node)
            return {ast.Lt: a.t < b.t, ast.LtE: a.t <= b.t, ast.Gt: a.t > b.t, ast.GtE: a.t >= b.t}[type(op)]
        raise Unsupported("comparison", node)

    def py_eq(self, a, b):
        if isinstance(a, Callable_) and isinstance(b, Callable_):
            return z3.BoolVal(a.kind == b.kind and a.name == b.name)
        if isinstance(a, (Callable_, ExcVal, PyDict)) or isinstance(b, (Callable_, ExcVal, PyDict)):
            raise Unsupported("equality on %r / %r" % (a, b))
        return veq(a, b)

    def py_is(self, a, b):
        if isinstance(a, Val) and isinstance(b, Val):
            if isinstance(a.ty, (TNone, TOpt, TRef, TBool)) or isinstance(b.ty, (TNone, TOpt, TRef, TBool)):
                return veq(a, b)
        if isinstance(a, Callable_) and isinstance(b, Callable_):
            return z3.BoolVal(a.kind == b.kind and a.name == b.name)
        raise Unsupported("`is` on %r / %r" % (a, b))

    def contains(self, container, x, node=None):
        from .strings import SplitVal
        if isinstance(container, SplitVal):
            return container.contains(x, None, self)
        if isinstance(container, PyList):
            return z3.Or([self.py_eq(x, it) for it in container.items] + [z3.BoolVal(False)])
        if isinstance(container, PyDict):
            return z3.Or([veq(x, mk_str(k)) for k in container.items] + [z3.BoolVal(False)])
        ty = container.ty
        if isinstance(ty, TSet):
            return self._elem_guard(x, ty.elem, lambda t: z3.Select(container.t, t))
        if isinstance(ty, TLSet):
            return self._elem_guard(x, ty.elem, lambda t: z3.Select(container.terms[0], t))
        if isinstance(ty, TMap):
            return self._elem_guard(x, ty.key, lambda t: z3.Select(container.terms[0], t))
        if isinstance(ty, (TStr, TBytes)):
            return z3.Contains(container.t, x.t)
        if isinstance(ty, TSeq):
            return self._elem_guard(x, ty.elem, lambda t: z3.Contains(container.t, z3.Unit(t)))
        if isinstance(ty, TRec):
            kt = z3.simplify(x.t) if isinstance(x, Val) and isinstance(x.ty, TStr) else None
            if kt is not None and z3.is_string_value(kt) and kt.as_string() in ty.fields:
                return ty.present(container.terms, kt.as_string())
            raise Unsupported("`in` on record with non-literal key", node)
        raise Unsupported("`in` on %r" % ty, node)

    def _elem_guard(self, x, elem_ty, f):
        """Membership test where x may be None/Opt while elements are plain."""
        if isinstance(x.ty, TNone):
            return z3.BoolVal(False)
        if isinstance(x.ty, TOpt) and not isinstance(elem_ty, TOpt):
            return z3.And(z3.Not(opt_isnone(x)), f(opt_inner(x).t))
        if x.ty.comps() != elem_ty.comps():
            return z3.BoolVal(False)
        return f(x.t)

    def ev_BinOp(self, node, st):
        for st1, vs in self.ev_list([node.left, node.right], st):
            if isinstance(vs, Raise):
                yield st1, vs
                continue
            yield st1, self.binop(node.op, vs[0], vs[1], st1, node)

    def binop(self, op, a, b, st, node):
        from . import pathmodel
        if isinstance(op, ast.Div) and pathmodel.is_path(a) and isinstance(b, Val) and isinstance(b.ty, TStr):
            return pathmodel.join(self, st, a, b, self.path_roots(st))
        if isinstance(op, ast.Add) and isinstance(a, Val) and isinstance(b, Val) and \
                (isinstance(a.ty, TOpt) or isinstance(b.ty, TOpt)):
            # None + x is a TypeError: obligation, then the inner values
            if isinstance(a.ty, TOpt):
                self.check(st, z3.Not(opt_isnone(a)), "safe", "not-none@+", node)
                a = opt_inner(a)
            if isinstance(b.ty, TOpt):
                self.check(st, z3.Not(opt_isnone(b)), "safe", "not-none@+", node)
                b = opt_inner(b)
        if isinstance(op, ast.Add):
            if isinstance(a, PyList) and isinstance(b, PyList):
                return PyList(a.items + b.items)
            if isinstance(a, PyList) and isinstance(b.ty, TSeq):
                a = self.list_to_seq(a, b.ty, st, node)
            if isinstance(b, PyList) and isinstance(a.ty, TSeq):
                b = self.list_to_seq(b, a.ty, st, node)
            if isinstance(a.ty, (TStr, TBytes, TSeq)) and a.ty.comps() == b.ty.comps():
                return Val(a.ty, [z3.Concat(a.t, b.t)])
            if isinstance(a.ty, TInt) and isinstance(b.ty, TInt):
                return mk_int(a.t + b.t)
        if isinstance(a, Val) and isinstance(b, Val) and isinstance(a.ty, TInt) and isinstance(b.ty, TInt):
            if isinstance(op, ast.Sub):
                return mk_int(a.t - b.t)
            if isinstance(op, ast.Mult):
                return mk_int(a.t * b.t)
        if isinstance(op, ast.Mult) and isinstance(a, Val) and isinstance(a.ty, TStr) and isinstance(b.ty, TInt):
            return self.str_repeat(a, b, st)
        if isinstance(op, ast.BitOr) and isinstance(a.ty, TSet):
            return Val(a.ty, [z3.SetUnion(a.t, b.t)])
        if isinstance(op, ast.Sub) and isinstance(a.ty, TSet):
            return Val(a.ty, [z3.SetDifference(a.t, b.t)])
        if isinstance(a, Val) and isinstance(b, Val) and isinstance(a.ty, TOpaque) and isinstance(b.ty, TOpaque) \
                and a.ty.sort_name == "Any" and b.ty.sort_name == "Any":
            # an operator between two untracked objects (their classes define it): an uninterpreted function of the two values
            self.note_assumption("operator %s between untracked objects is an uninterpreted function of its operands and is assumed not to raise"
                                 % type(op).__name__)
            (srt,) = a.ty.comps()
            return Val(a.ty, [z3.Function("op!%s!Any" % type(op).__name__, srt, srt, srt)(a.t, b.t)])
        raise Unsupported("binary op %s on %r, %r" % (type(op).__name__, a, b), node)

    def path_roots(self, st):
        """root paths in scope: the `path` field of the receiver of the current method"""
        roots = []
        selfv = st.env.get(st.env.get("__selfname__", "self"))
        if isinstance(selfv, Val) and isinstance(selfv.ty, TRef) and self.field_type(selfv.ty.cls, "path") is not None:
            roots.append(self.heap_read(st, selfv, "path").t)
        return roots

    def list_to_seq(self, lst, ty, st, node):
        out = empty_seq(ty.elem)
        for it in lst.items:
            try:
                it = self.narrow(st, it, ty.elem, node, "list-element")
            except TypeError as e:
                raise Unsupported("list element: %s" % e, node)
            out = Val(ty, [z3.Concat(out.t, z3.Unit(it.t))])
        return out

    def str_repeat(self, a, b, st):
        f = z3.Function("str_repeat", z3.StringSort(), z3.IntSort(), z3.StringSort())
        r = f(a.t, b.t)
        st.axiom(z3.Length(r) == z3.Length(a.t) * z3.If(b.t > 0, b.t, 0))
        st.axiom(z3.Implies(b.t == 1, r == a.t))
        st.axiom(z3.Implies(b.t >= 1, z3.PrefixOf(a.t, r)))
        self.note_assumption("builtin str * int: length = len*n, s*1 == s, s is a prefix of s*n for n>=1")
        return mk_str(r)

    # ------------------------------------------------------------------ attribute / subscript
    def ev_Attribute(self, node, st):
        for st1, obj in self.ev(node.value, st):
            if isinstance(obj, Raise):
                yield st1, obj
                continue
            yield from self.get_attr(obj, node.attr, st1, node)

    def unknown_exc_field(self, exc, attr):
        """An exception that came out of a callee (through its `raises` clause) carries no known fields.  liquer.parser.QueryException.__init__
        sets original_message, position and query on every instance: nothing is known about their values here (memoised, so that two reads agree)."""
        if attr in ("original_message", "position", "query") and self.repo.is_subclass(exc.cls, "QueryException"):
            from .vals import TOpaque as _TOpaque
            ty = TStr() if attr == "original_message" else (TOpt(TStr()) if attr == "query" else _TOpaque("Any"))
            exc.fields[attr] = fresh(ty, "exc_" + attr)
            return exc.fields[attr]
        return None

    def get_attr(self, obj, attr, st, node):
        if isinstance(obj, Callable_) and obj.kind == "module":
            yield st, self.module_attr(obj, attr, node)
            return
        if isinstance(obj, Callable_) and obj.kind == "class":
            cexpr, cinfo = self.repo.class_const(obj.name, attr)
            if cexpr is not None:
                yield from self.ev_in_module(cexpr, cinfo.module, st)
                return
            yield st, Callable_("classattr", attr, obj=obj)
            return
        from . import pathmodel
        if pathmodel.is_path(obj):
            if attr == "parent":
                yield st, pathmodel.parent(self, st, obj, self.path_roots(st))
                return
            if attr == "name":
                yield st, pathmodel.name(self, st, obj)
                return
        if isinstance(obj, ExcVal):
            if attr in obj.fields:
                yield st, obj.fields[attr]
                return
            v = self.unknown_exc_field(obj, attr)
            if v is not None:
                yield st, v
                return
            raise Unsupported("exception attribute %s" % attr, node)
        if isinstance(obj, Val) and isinstance(obj.ty, TOpt) and isinstance(obj.ty.inner, TRef):
            if st.pure:
                obj = opt_inner(obj)
            else:
                for st1, isn in self.branch(st, opt_isnone(obj)):
                    if isn:
                        yield st1, Raise(ExcVal("AttributeError"))
                    else:
                        yield from self.get_attr(opt_inner(obj), attr, st1, node)
                return
        if isinstance(obj, Val) and isinstance(obj.ty, TStr) and attr == "value":
            self.note_assumption("enum members (Status.X) are modelled by their string values: `.value` is the identity")
            yield st, obj
            return
        if isinstance(obj, Val) and isinstance(obj.ty, TRef) and attr == "__class__":
            self.note_assumption("`self.__class__` is the declared class %s (no instance of a subclass reaches the function)" % obj.ty.cls)
            yield st, Callable_("class", obj.ty.cls)
            return
        if isinstance(obj, Val) and isinstance(obj.ty, TRef):
            fty = self.field_type(obj.ty.cls, attr)
            if fty is not None:
                yield st, self.heap_read(st, obj, attr)
                return
            # the static class may be refined by the path condition (after an isinstance test)
            for cand in self.known_subclasses(obj.ty.cls):
                if cand != obj.ty.cls and self.field_type(cand, attr) is not None and \
                        not feasible(st.pc, z3.Not(self.isinstance_term(obj, cand))):
                    yield st, self.heap_read(st, Val(TRef(cand), obj.terms), attr)
                    return
            # class constant / property / bound method
            cexpr, cinfo = self.repo.class_const(obj.ty.cls, attr)
            if cexpr is not None:
                yield from self.ev_in_module(cexpr, cinfo.module, st)
                return
            fdef, cinfo = self.repo.lookup_method(obj.ty.cls, attr)
            if fdef is not None and cinfo.kinds.get(attr) == "property":
                yield from self.call_method(obj, attr, [], {}, st, node)
                return
            yield st, Callable_("boundmethod", attr, bound=obj)
            return
        if isinstance(obj, Val) and isinstance(obj.ty, TOpaque):
            op = self.opaque_spec("@" + attr, "?.@" + attr)
            if op is not None and isinstance(op[0], Ty):
                # a data attribute of an arbitrary object (opaque table key "@<attr>"): some value of the declared type, or AttributeError
                s2 = st.clone()
                # an instance of a declared class that has this field certainly has the attribute
                (srt,) = obj.ty.comps()
                for cname, cd in dsl.REG.classes.items():
                    if attr in cd.fields and not cname.startswith("module:"):
                        for sub in [cname] + [n for n, d2 in dsl.REG.classes.items() if cname in getattr(d2, "bases", [])]:
                            s2.assume(z3.Not(z3.Function("isinst!%s!%s" % (sub, srt), srt, z3.BoolSort())(obj.t)))
                if feasible(s2.pc, z3.BoolVal(True)):
                    yield s2, Raise(ExcVal("AttributeError"))
                yield st, fresh(op[0], "attr_" + attr)
                return
        yield st, Callable_("boundmethod", attr, bound=obj)

    def ev_Subscript(self, node, st):
        if isinstance(node.slice, ast.Slice):
            sl = node.slice
            parts = [sl.lower, sl.upper]
            if sl.step is not None:
                raise Unsupported("slice step", node)
            for st1, base in self.ev(node.value, st):
                if isinstance(base, Raise):
                    yield st1, base
                    continue
                present = [p for p in parts if p is not None]
                if isinstance(base, Val) and isinstance(base.ty, TOpt):
                    self.check(st1, z3.Not(opt_isnone(base)), "safe", "not-none@slice", node)
                    base = opt_inner(base)
                for st2, vs in self.ev_list(present, st1):
                    if isinstance(vs, Raise):
                        yield st2, vs
                        continue
                    it = iter(vs)
                    lo = next(it) if sl.lower is not None else None
                    hi = next(it) if sl.upper is not None else None
                    yield st2, self.slice_val(base, lo, hi, node)
            return
        for st1, vs in self.ev_list([node.value, node.slice], st):
            if isinstance(vs, Raise):
                yield st1, vs
                continue
            yield from self.index_val(self.unbox_record(vs[0], st1), vs[1], st1, node)

    def unbox_record(self, v, st):
        """an object standing for a dictionary kept in a list (classdef(..., record=<field>)): the dictionary itself"""
        if isinstance(v, Val) and isinstance(v.ty, TRef):
            d = dsl.REG.classes.get(v.ty.cls)
            if d is not None and getattr(d, "record", None):
                return self.heap_read(st, v, d.record)
        return v

    def _norm_index(self, idx, length):
        """Python index normalisation for a z3 Int term."""
        t = z3.simplify(idx)
        if z3.is_int_value(t):
            return length + t if t.as_long() < 0 else t
        return z3.If(t < 0, length + t, t)

    def slice_val(self, base, lo, hi, node):
        if isinstance(base, PyList):
            l = lo.t.as_long() if lo is not None else None
            h = hi.t.as_long() if hi is not None else None
            return PyList(base.items[l:h], base.is_tuple)
        if hasattr(base, "ty") and isinstance(base.ty, (TStr, TBytes, TSeq)):
            n = z3.Length(base.t)

            def clamp(t):
                t = self._norm_index(t, n)
                return z3.If(t < 0, 0, z3.If(t > n, n, t))
            a = clamp(lo.t) if lo is not None else z3.IntVal(0)
            b = clamp(hi.t) if hi is not None else n
            ln = z3.If(b - a > 0, b - a, 0)
            return Val(base.ty, [z3.SubSeq(base.t, a, ln) if isinstance(base.ty, TSeq) else z3.SubString(base.t, a, ln)])
        from .strings import SplitVal
        if isinstance(base, SplitVal):
            return base.slice(lo, hi, node)
        raise Unsupported("slice of %r" % (base,), node)

    def index_val(self, base, idx, st, node):
        from .strings import SplitVal
        if isinstance(base, Val) and isinstance(base.ty, TOpt) and isinstance(base.ty.inner, (TMap, TSeq, TStr, TBytes, TRec, TTuple)):
            # subscripting None is a TypeError
            for st1, isn in self.branch(st, opt_isnone(base)):
                if isn:
                    yield st1, Raise(ExcVal("TypeError"))
                else:
                    yield from self.index_val(opt_inner(base), idx, st1, node)
            return
        if isinstance(base, SplitVal):
            yield st, base.index(idx, st, self, node)
            return
        if isinstance(base, PyList):
            i = z3.simplify(idx.t)
            if not z3.is_int_value(i):
                raise Unsupported("symbolic index into literal list", node)
            i = i.as_long()
            if not (-len(base.items) <= i < len(base.items)):
                yield st, Raise(ExcVal("IndexError"))
                return
            yield st, base.items[i]
            return
        if isinstance(base, PyDict):
            k = z3.simplify(idx.t)
            if z3.is_string_value(k) and k.as_string() in base.items:
                yield st, base.items[k.as_string()]
                return
            raise Unsupported("dict literal lookup", node)
        ty = base.ty
        if (st.pure or (st.ghost and st.env.get("__mode__") == "spec")) and isinstance(ty, (TSeq, TStr, TBytes, TMap, TRec)):
            yield st, self.index_unchecked(base, idx, node)
            return
        if isinstance(ty, TSeq):
            n = z3.Length(base.t)
            i = self._norm_index(idx.t, n)
            for st1, ok in self.branch(st, z3.And(i >= 0, i < n)):
                if ok:
                    yield st1, Val(ty.elem, [base.t[i]])
                else:
                    yield st1, Raise(ExcVal("IndexError"))
            return
        if isinstance(ty, (TStr, TBytes)):
            n = z3.Length(base.t)
            i = self._norm_index(idx.t, n)
            for st1, ok in self.branch(st, z3.And(i >= 0, i < n)):
                if ok:
                    yield st1, Val(ty, [z3.SubString(base.t, i, 1)])
                else:
                    yield st1, Raise(ExcVal("IndexError"))
            return
        if isinstance(ty, TMap):
            k = coerce(idx, ty.key)
            for st1, ok in self.branch(st, z3.Select(base.terms[0], k.t)):
                if ok:
                    yield st1, Val(ty.val, [z3.Select(a, k.t) for a in base.terms[1:]])
                else:
                    yield st1, Raise(ExcVal("KeyError"))
            return
        if isinstance(ty, TRec):
            fname = self._lit_key(idx, node)
            lo, hi, ft = ty.field_slice(fname)
            for st1, ok in self.branch(st, ty.present(base.terms, fname)):
                if ok:
                    yield st1, Val(ft, base.terms[lo + 1:hi])
                else:
                    yield st1, Raise(ExcVal("KeyError"))
            return
        if isinstance(ty, TTuple):
            i = z3.simplify(idx.t).as_long()
            off = sum(len(t.comps()) for t in ty.items[:i])
            yield st, Val(ty.items[i], base.terms[off:off + len(ty.items[i].comps())])
            return
        raise Unsupported("subscript of %r" % ty, node)

    def index_unchecked(self, base, idx, node):
        ty = base.ty
        if isinstance(ty, TSeq):
            return Val(ty.elem, [base.t[self._norm_index(idx.t, z3.Length(base.t))]])
        if isinstance(ty, (TStr, TBytes)):
            return Val(ty, [z3.SubString(base.t, self._norm_index(idx.t, z3.Length(base.t)), 1)])
        if isinstance(ty, TMap):
            k = coerce(idx, ty.key)
            return Val(ty.val, [z3.Select(a, k.t) for a in base.terms[1:]])
        fname = self._lit_key(idx, node)
        lo, hi, ft = ty.field_slice(fname)
        return Val(ft, base.terms[lo + 1:hi])

    def _lit_key(self, idx, node):
        k = z3.simplify(idx.t)
        if not z3.is_string_value(k):
            raise Unsupported("record accessed with a computed key", node)
        return k.as_string()

    # ------------------------------------------------------------------ comprehensions (restricted)
    def ev_GeneratorExp(self, node, st):
        yield from self.ev_ListComp(node, st)

    def ev_ListComp(self, node, st):
        from .strings import comprehension
        yield from comprehension(self, node, st)

    def ev_SetComp(self, node, st):
        from .strings import comprehension
        yield from comprehension(self, node, st, as_set=True)

    def ev_DictComp(self, node, st):
        if self.cur_ci is not None and self.cur_ci.decl.opts.get("opaque") is not None:
            self.note_assumption("slice: a dictionary comprehension yields an untracked dictionary")
            yield st, fresh(TOpaque("Any"), "dictcomp")
            return
        raise Unsupported("dict comprehension", node)

    def ev_Call(self, node, st):
        if is_skipped_call(node):
            self.dropped_calls.add(ast.unparse(node.func))
            yield st, NONE
            return
        yield from self.call(node, st)
