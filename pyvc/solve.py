"""Discharge of verification conditions: portfolio of z3 (in-process, 5.1.0), cvc5 1.0.3 (CLI, --strings-exp)
and z3 4.8.12 (CLI).  `unsat` from any back end discharges; `sat` is a candidate counterexample (model kept,
validated by re-evaluating the formula under the model); unknown/timeout from all = undischarged."""
import os
import re
import subprocess
import tempfile
import time
import z3

CVC5 = "/usr/bin/cvc5"
Z3OLD = "/usr/bin/z3"


def to_smt2(formula):
    s = z3.Solver()
    s.add(formula)
    txt = s.to_smt2()
    return txt


def run_cli(cmd, text, timeout_s):
    with tempfile.NamedTemporaryFile("w", suffix=".smt2", delete=False, dir=os.environ.get("PYVC_TMP", None)) as f:
        f.write(text)
        path = f.name
    t0 = time.time()
    try:
        p = subprocess.run(cmd + [path], capture_output=True, text=True, timeout=timeout_s + 2)
        out = (p.stdout or "").strip().splitlines()
        res = out[0].strip() if out else "unknown"
        if res not in ("sat", "unsat", "unknown"):
            res = "error:" + (p.stdout + p.stderr)[:300]
    except subprocess.TimeoutExpired:
        res = "timeout"
    finally:
        os.unlink(path)
    return res, time.time() - t0


def cvc5_check(formula, timeout_s):
    txt = to_smt2(formula)
    txt = "(set-logic ALL)\n" + "\n".join(l for l in txt.splitlines() if not l.startswith("(set-info"))
    return run_cli([CVC5, "--strings-exp", "--tlimit=%d" % int(timeout_s * 1000)], txt, timeout_s)


def z3old_check(formula, timeout_s):
    txt = to_smt2(formula)
    return run_cli([Z3OLD, "-T:%d" % max(1, int(timeout_s))], txt, timeout_s)


def uses_strings(formula):
    txt = formula.sexpr()
    return ("String" in txt) or ("str." in txt) or ("seq." in txt)


def model_values(model, names):
    out = {}
    for d in model.decls():
        n = d.name()
        base = n.split("!")[0]
        if d.arity() == 0 and (names is None or base in names):
            try:
                out[n] = str(model[d])
            except Exception:
                pass
    return out


def discharge(ob, timeout_s=10.0, all_backends=False):
    """Returns dict(result=discharged|refuted|undischarged, backend, seconds, model, tried)."""
    want_sat = ob.expect == "sat"
    if not want_sat and z3.is_true(ob.goal):
        # the clause was reduced to `true` by term rewriting during symbolic execution (e.g. the ghost call log already holds
        # the very term the clause names): counted, discharged by the simplifier, no solver query
        return dict(result="discharged", backend="z3-simplifier", seconds=0.0, model=None, tried=[("z3-simplifier", "unsat", 0.0)])
    f = ob.formula()
    tried = []
    t_total = time.time()

    def verdict(res, backend, secs, model=None):
        tried.append((backend, res, round(secs, 3)))
        if res == "unsat":
            return "refuted" if want_sat else "discharged"
        if res == "sat":
            return "discharged" if want_sat else "refuted"
        return None

    # 1. in-process z3
    s = z3.Solver()
    s.set("timeout", int(timeout_s * 1000))
    s.add(f)
    t0 = time.time()
    r = s.check()
    secs = time.time() - t0
    res = "sat" if r == z3.sat else ("unsat" if r == z3.unsat else "unknown")
    model = None
    z3model = None
    if res == "sat":
        m = s.model()
        ok = z3.is_true(m.eval(f, model_completion=True))
        if not ok:
            tried.append(("z3-5.1.0", "sat-unvalidated", round(secs, 3)))
            res = "unknown"
        else:
            model = model_values(m, None)
            z3model = m
    v = verdict(res, "z3-5.1.0", secs)
    final = None
    if v is not None:
        final = dict(result=v, backend="z3-5.1.0", seconds=secs, model=model, z3model=z3model)
        if not all_backends and not (v == "refuted" and uses_strings(f)):
            final["tried"] = tried
            return final
    # 2. cvc5
    res2, secs2 = cvc5_check(f, timeout_s)
    v2 = verdict(res2, "cvc5-1.0.3", secs2)
    if v2 is not None:
        if final is None:
            final = dict(result=v2, backend="cvc5-1.0.3", seconds=secs2, model=None)
        elif final["result"] != v2:
            # disagreement: z3's sat on strings/sequences is not trusted (see DESIGN 2.2); cvc5's unsat wins
            final = dict(result=v2, backend="cvc5-1.0.3", seconds=secs2, model=None, disagreement=tried[:])
    if final is not None and not all_backends:
        final["tried"] = tried
        return final
    # 3. old z3
    res3, secs3 = z3old_check(f, timeout_s)
    v3 = verdict(res3, "z3-4.8.12", secs3)
    if final is None and v3 is not None:
        final = dict(result=v3, backend="z3-4.8.12", seconds=secs3, model=None)
    if final is None:
        final = dict(result="undischarged", backend=None, seconds=time.time() - t_total, model=None)
    final["tried"] = tried
    return final
