"""Assumed contract of pathlib (pure path algebra) used for C17, instantiated at ground terms.

  pjoin(p, s)  = p / s          pname(p) = p.name          pparent(p) = p.parent
  inside(r, p) = "p is r or lies below r after normalisation of '..' (no symlinks)"

Assumed facts (each instance is added when the corresponding term is built):
  J1  confined(s)  =>  inside(r, pjoin(r, s))           confined(s): s is relative and no component of s is '..'
  J2  inside(r, p) and plain(n)  =>  inside(r, pjoin(p, n)) and pjoin(p, n) != r        plain(n): no '/', not '', '.', '..'
  J3  inside(r, p) and p != r  =>  inside(r, pparent(p))
  J4  inside(r, r)
  J6  pname(p) contains no '/'
  J5  pname(pjoin(p, n)) == n for plain n;  pname(pjoin(p, s)) == last_seg(s, "/") when last_seg is a plain name
These are cross-checked against CPython's pathlib/os.path in the thorough tier (replay/c17.py)."""
import z3

from .vals import Val, TOpaque, Str, mk_str, mk_bool

PATH = TOpaque("Path")
_P = None


def _ufs():
    global _P
    if _P is None:
        ps = PATH.comps()[0]
        _P = dict(pjoin=z3.Function("pjoin", ps, z3.StringSort(), ps), pname=z3.Function("pname", ps, z3.StringSort()),
                  pparent=z3.Function("pparent", ps, ps), inside=z3.Function("inside", ps, ps, z3.BoolSort()))
    return _P


def is_path(v):
    return isinstance(v, Val) and isinstance(v.ty, TOpaque) and v.ty.sort_name == "Path"


def has_component(s, c):
    """`c in s.split('/')` for a slash-free constant c"""
    cs = z3.StringVal(c)
    return z3.Or(s == cs, z3.PrefixOf(z3.StringVal(c + "/"), s), z3.SuffixOf(z3.StringVal("/" + c), s),
                 z3.Contains(s, z3.StringVal("/" + c + "/")))


def confined(s):
    return z3.And(z3.Not(z3.PrefixOf(z3.StringVal("/"), s)), z3.Not(has_component(s, "..")))


def plain(n):
    return z3.And(z3.Not(z3.Contains(n, z3.StringVal("/"))), n != z3.StringVal(""), n != z3.StringVal("."), n != z3.StringVal(".."))


def join(ex, st, p, s, roots):
    from .strings import last_seg, SplitVal
    U = _ufs()
    r = U["pjoin"](p.t, s.t)
    for root in roots:
        st.axiom(z3.Implies(z3.And(p.t == root, confined(s.t)), U["inside"](root, r)))
        st.axiom(z3.Implies(z3.And(U["inside"](root, p.t), plain(s.t)), z3.And(U["inside"](root, r), r != root)))
        st.axiom(U["inside"](root, root))
    st.axiom(z3.Implies(plain(s.t), U["pname"](r) == s.t))
    SplitVal(s.t, z3.StringVal("/")).facts(st, ex)
    ls = last_seg(s.t, z3.StringVal("/"))
    st.axiom(z3.Implies(plain(ls), U["pname"](r) == ls))
    ex.note_assumption("pathlib path algebra (pyvc/pathmodel.py J1-J5): root/key stays inside root for relative keys without '..' components; "
                       "no symlinks; p.parent of a path strictly inside root is inside root")
    return Val(PATH, [r])


def parent(ex, st, p, roots):
    U = _ufs()
    r = U["pparent"](p.t)
    for root in roots:
        st.axiom(z3.Implies(z3.And(U["inside"](root, p.t), p.t != root), U["inside"](root, r)))
    return Val(PATH, [r])


def name(ex, st, p):
    n = _ufs()["pname"](p.t)
    st.axiom(z3.Not(z3.Contains(n, z3.StringVal("/"))))      # J6: a path name never contains a separator
    return mk_str(n)


def inside(root, p):
    return mk_bool(_ufs()["inside"](root.t, p.t))
