"""Statement execution.  ``exec_block`` yields (state, outcome) with outcome one of
("normal",), ("return", value), ("raise", ExcVal), ("break",), ("continue",)."""
import ast
import z3

from .vals import (Val, PyList, PyDict, ExcVal, Callable_, NONE, TInt, TStr, TBytes, TRef, TOpt, TSet, TMap, TSeq, TRec, TTuple,
                   mk_int, mk_bool, fresh, coerce, truth, opt_isnone, opt_inner, empty_set, empty_seq, fresh_name)
from .state import Unsupported, Raise
from . import dsl

NORMAL = ("normal",)


class StmtMixin:
    def exec_block(self, stmts, st):
        if not stmts:
            yield st, NORMAL
            return
        first, rest = stmts[0], stmts[1:]
        for st1, out in self.exec_stmt(first, st):
            if out[0] == "normal":
                yield from self.exec_block(rest, st1)
            else:
                yield st1, out

    def exec_stmt(self, node, st):
        m = getattr(self, "ex_" + type(node).__name__, None)
        if m is None:
            raise Unsupported("statement %s" % type(node).__name__, node)
        return m(node, st)

    # ------------------------------------------------------------------ simple statements
    def ex_Pass(self, node, st):
        yield st, NORMAL

    def ex_Expr(self, node, st):
        if isinstance(node.value, ast.Constant):
            yield st, NORMAL       # docstring
            return
        if st.env.get("__contract__") and isinstance(node.value, ast.Call) and isinstance(node.value.func, ast.Name) \
                and node.value.func.id in self.DIRECTIVES:
            self.directive(node.value, st)
            yield st, NORMAL
            return
        for st1, v in self.ev(node.value, st):
            yield st1, (("raise", v.exc) if isinstance(v, Raise) else NORMAL)

    def ex_Return(self, node, st):
        if node.value is None:
            yield st, ("return", NONE)
            return
        for st1, v in self.ev(node.value, st):
            yield st1, (("raise", v.exc) if isinstance(v, Raise) else ("return", v))

    def ex_Raise(self, node, st):
        if node.exc is None:
            cur = st.env.get("__handling__")
            if cur is None:
                raise Unsupported("bare raise outside handler", node)
            yield st, ("raise", cur)
            return
        # exception constructor arguments are message text: evaluated leniently
        exc = node.exc
        if isinstance(exc, ast.Call) and isinstance(exc.func, ast.Name):
            cname = exc.func.id
            fields = {}
            try:
                res = list(self.ev_exc_fields(exc, st))
            except Unsupported:
                res = None
            if res:
                for st1, f in res:
                    yield st1, ("raise", ExcVal(cname, [], f))
            else:
                yield st, ("raise", ExcVal(cname))
            return
        if isinstance(exc, ast.Name):
            v = self.lookup(exc.id, st, node)
            if isinstance(v, ExcVal):
                yield st, ("raise", v)
            elif isinstance(v, Callable_) and v.kind == "class":
                yield st, ("raise", ExcVal(v.name))
            else:
                raise Unsupported("raise of %r" % (v,), node)
            return
        # raise <expression>: an exception object of unknown class (modelled as a plain Exception)
        for st1, v in self.ev(exc, st):
            if isinstance(v, Raise):
                yield st1, ("raise", v.exc)
            elif isinstance(v, ExcVal):
                yield st1, ("raise", v)
            else:
                self.note_assumption("`raise <expr>` of a stored exception object is modelled as raising Exception")
                yield st1, ("raise", ExcVal("Exception"))

    def ev_exc_fields(self, call, st):
        """Keyword arguments of an exception constructor that name data (key=, position=, query=, store=)."""
        kws = []
        for k in call.keywords:
            if k.arg not in ("key", "position", "query", "store"):
                continue
            try:        # a field whose expression the engine cannot evaluate is dropped on its own, the others are kept
                list(self.ev(k.value, st.clone()))
                kws.append(k)
            except Unsupported:
                pass
        for st1, vs in self.ev_list([k.value for k in kws], st):
            if isinstance(vs, Raise):
                continue
            yield st1, {k.arg: v for k, v in zip(kws, vs)}

    def ex_Assert(self, node, st):
        for st1, v in self.ev(node.test, st):
            if isinstance(v, Raise):
                yield st1, ("raise", v.exc)
                continue
            for st2, ok in self.branch(st1, truth(v)):
                yield st2, (NORMAL if ok else ("raise", ExcVal("AssertionError")))

    def ex_Global(self, node, st):
        mod = st.env.get("__mod__")
        d = dsl.REG.classes.get("module:" + mod.name) if mod is not None else None
        for n in node.names:
            if d is None or n not in d.fields:
                raise Unsupported("global %s: not declared with module_state() in the sidecar" % n, node)
        st.env.setdefault("__globals__", set())
        st.env["__globals__"] = set(st.env["__globals__"]) | set(node.names)
        yield st, NORMAL

    def ex_Import(self, node, st):
        for a in node.names:
            st.env[a.asname or a.name.split(".")[0]] = Callable_("module", a.name)
        yield st, NORMAL

    def ex_ImportFrom(self, node, st):
        for a in node.names:
            m2 = self.repo.module(node.module) if node.module and node.module.startswith("liquer") else None
            nm = a.asname or a.name
            if m2 is not None and a.name in m2.functions:
                st.env[nm] = Callable_("function", m2.name + "." + a.name)
            elif m2 is not None and a.name in m2.classes:
                st.env[nm] = Callable_("class", a.name)
            else:
                st.env[nm] = Callable_("external", "%s.%s" % (node.module, a.name))
        yield st, NORMAL

    # ------------------------------------------------------------------ assignment
    def ex_Assign(self, node, st):
        for st1, v in self.ev(node.value, st):
            if isinstance(v, Raise):
                yield st1, ("raise", v.exc)
                continue
            yield from self._assign_targets(node.targets, v, st1, node)

    def _assign_targets(self, targets, v, st, node):
        if not targets:
            yield st, NORMAL
            return
        for st1, out in self.assign(targets[0], v, st, node):
            if out[0] != "normal":
                yield st1, out
            else:
                yield from self._assign_targets(targets[1:], v, st1, node)

    def ex_AnnAssign(self, node, st):
        if node.value is None:
            yield st, NORMAL
            return
        for st1, v in self.ev(node.value, st):
            if isinstance(v, Raise):
                yield st1, ("raise", v.exc)
            else:
                yield from self.assign(node.target, v, st1, node)

    def ex_AugAssign(self, node, st):
        load = ast.copy_location(ast.BinOp(left=self._as_load(node.target), op=node.op, right=node.value), node)
        ast.fix_missing_locations(load)
        for st1, v in self.ev(load, st):
            if isinstance(v, Raise):
                yield st1, ("raise", v.exc)
            else:
                yield from self.assign(node.target, v, st1, node)

    def _as_load(self, t):
        import copy
        t2 = copy.deepcopy(t)
        for n in ast.walk(t2):
            if hasattr(n, "ctx"):
                n.ctx = ast.Load()
        return t2

    def assign(self, target, v, st, node):
        """Generator of (state, outcome)."""
        if isinstance(target, ast.Name):
            lt = (self.cur_ci.decl.opts.get("locals") or {}).get(target.id) if getattr(self, "cur_ci", None) is not None else None
            if lt is not None and len(st.frames) == 1 and isinstance(v, (PyDict, PyList)):
                try:
                    v = coerce(v, lt)      # a literal assigned to a local whose type the contract declares ({} -> Map, [] -> Seq)
                except TypeError:
                    pass
            self.set_local(st, target.id, v)
            yield st, NORMAL
        elif isinstance(target, ast.Attribute):
            for st1, obj in self.ev(target.value, st):
                if isinstance(obj, Raise):
                    yield st1, ("raise", obj.exc)
                    continue
                if isinstance(obj, Val) and isinstance(obj.ty, TOpt) and isinstance(obj.ty.inner, TRef):
                    self.check(st1, z3.Not(opt_isnone(obj)), "safe", "not-none@.%s=" % target.attr, node)
                    obj = opt_inner(obj)
                if not (isinstance(obj, Val) and isinstance(obj.ty, TRef)):
                    raise Unsupported("attribute assignment on %r" % (obj,), node)
                if self.field_type(obj.ty.cls, target.attr) is None:
                    fdef, cinfo = self.repo.lookup_method(obj.ty.cls, "__set__" + target.attr)
                    if fdef is not None:      # property setter: run its body
                        qn = cinfo.module.name + "." + cinfo.name + "." + target.attr + ".setter"
                        for st2, r in self.call_inline(qn, fdef, cinfo.module, cinfo, [obj, v], {}, st1, node):
                            yield st2, (("raise", r.exc) if isinstance(r, Raise) else NORMAL)
                        continue
                self.heap_write(st1, obj, target.attr, v, node)
                yield st1, NORMAL
        elif isinstance(target, ast.Subscript):
            for st1, vs in self.ev_list([target.value, target.slice], st):
                if isinstance(vs, Raise):
                    yield st1, ("raise", vs.exc)
                    continue
                base, idx = vs
                new = self.store_item(base, idx, v, st1, node)
                yield from self.assign(target.value, new, st1, node)
        elif isinstance(target, (ast.Tuple, ast.List)):
            self._unpack_state = st
            items = self.unpack(v, len(target.elts), node)
            yield from self._assign_seq(target.elts, items, st, node)
        else:
            raise Unsupported("assignment target", node)

    def _assign_seq(self, targets, items, st, node):
        if not targets:
            yield st, NORMAL
            return
        for st1, out in self.assign(targets[0], items[0], st, node):
            if out[0] != "normal":
                yield st1, out
            else:
                yield from self._assign_seq(targets[1:], items[1:], st1, node)

    def unpack(self, v, n, node):
        if isinstance(v, PyList):
            if len(v.items) != n:
                raise Unsupported("unpack arity", node)
            return v.items
        if isinstance(v, Val) and isinstance(v.ty, TTuple) and len(v.ty.items) == n:
            out, i = [], 0
            for t in v.ty.items:
                k = len(t.comps())
                out.append(Val(t, v.terms[i:i + k]))
                i += k
            return out
        if isinstance(v, Val) and isinstance(v.ty, TRef):
            d = dsl.REG.classes.get(v.ty.cls)
            if d is not None and len(getattr(d, "tuple_fields", [])) == n:
                return [self.heap_read(self._unpack_state, v, f) for f in d.tuple_fields]
        raise Unsupported("unpacking of %r" % (v,), node)

    def set_local(self, st, name, v):
        if name in st.env.get("__globals__", ()):
            mod = st.env.get("__mod__")
            self.heap_write(st, self.module_ref(mod.name), name, v)
            return
        st.env[name] = v
        st.written_locals.add(name)

    def store_item(self, base, idx, v, st, node):
        if isinstance(base, Callable_) and base.kind == "emptymap":
            raise Unsupported("untyped dict", node)
        ty = base.ty
        if isinstance(ty, TMap):
            k = coerce(idx, ty.key)
            vv = coerce(v, ty.val)
            return Val(ty, [z3.Store(base.terms[0], k.t, True)] + [z3.Store(a, k.t, t) for a, t in zip(base.terms[1:], vv.terms)])
        if isinstance(ty, TRec):
            fname = self._lit_key(idx, node)
            if fname not in ty.fields:
                raise Unsupported("record %s has no declared field %s" % (ty.rname, fname), node)
            lo, hi, ft = ty.field_slice(fname)
            try:
                vv = self.narrow(st, v, ft, node, "record-field-%s" % fname)
            except TypeError as e:
                raise Unsupported("record field %s: %s" % (fname, e), node)
            terms = list(base.terms)
            terms[lo] = z3.BoolVal(True)
            terms[lo + 1:hi] = vv.terms
            return Val(ty, terms)
        raise Unsupported("item assignment on %r" % ty, node)

    def write_back(self, lv_node, new, st, node):
        """After a mutating container method: store the new value where the container came from."""
        if lv_node is None:
            raise Unsupported("mutation of a temporary container", node)
        res = list(self.assign(lv_node, new, st, node))
        if len(res) != 1 or res[0][0] is not st or res[0][1][0] != "normal":
            raise Unsupported("write-back forked", node)

    def ex_Delete(self, node, st):
        (t,) = node.targets
        if not isinstance(t, ast.Subscript):
            raise Unsupported("del form", node)
        for st1, vs in self.ev_list([t.value, t.slice], st):
            if isinstance(vs, Raise):
                yield st1, ("raise", vs.exc)
                continue
            base, idx = vs
            if not isinstance(base.ty, TMap):
                raise Unsupported("del on %r" % base.ty, node)
            k = coerce(idx, base.ty.key)
            for st2, ok in self.branch(st1, z3.Select(base.terms[0], k.t)):
                if ok:
                    new = Val(base.ty, [z3.Store(base.terms[0], k.t, False)] + base.terms[1:])
                    yield from self.assign(t.value, new, st2, node)
                else:
                    yield st2, ("raise", ExcVal("KeyError"))

    # ------------------------------------------------------------------ control flow
    def eval_condition(self, test, st):
        """Evaluate a condition; paths that differ only in how a short-circuit condition was decided are joined again."""
        base = len(st.pc)
        w0, l0, g0, a0 = set(st.written), set(st.written_locals), len(st.log), st.alloc
        res = list(self.ev(test, st))
        plain = [(s, c) for s, c in res if not isinstance(c, Raise)]
        if len(plain) > 1 and all(s.written == w0 and s.written_locals == l0 and len(s.log) == g0 and s.alloc is a0 and
                                  len(s.frames) == len(plain[0][0].frames) for s, c in plain):
            m = plain[0][0]
            t_parts = [z3.And([x for x in s.pc[base:]] + [truth(c)]) for s, c in plain]
            f_parts = [z3.And([x for x in s.pc[base:]] + [z3.Not(truth(c))]) for s, c in plain]
            m.pc = m.pc[:base]
            m.path = m.path[:len(st.path)] if len(m.path) >= len(st.path) else m.path
            for s, c in res:
                if isinstance(c, Raise):
                    yield s, c, None
            yield m, mk_bool(z3.Or(t_parts)), z3.Or(f_parts)
            return
        for s, c in res:
            yield s, c, None

    def ex_If(self, node, st):
        for st1, c, fcond in self.eval_condition(node.test, st):
            if isinstance(c, Raise):
                yield st1, ("raise", c.exc)
                continue
            cond = truth(c)
            if fcond is not None:
                # joined short-circuit paths: the two outcomes are given explicitly (sub-paths that raised are excluded from both)
                base_pc = len(st1.pc)
                sides = {}
                for taken, cc in ((True, cond), (False, fcond)):
                    from .state import feasible
                    if feasible(st1.pc, cc):
                        s2 = st1.clone()
                        s2.assume(cc)
                        s2.path.append("if@%d=%s" % (node.lineno, "T" if taken else "F"))
                        sides[taken] = list(self.exec_block(node.body if taken else node.orelse, s2))
                for taken in (True, False):
                    for st3, out in sides.get(taken, []):
                        yield st3, out
                continue
            base_pc = len(st1.pc)
            sides = {}
            for st2, taken in self.branch(st1, cond, "if@%d" % node.lineno):
                sides[taken] = list(self.exec_block(node.body if taken else node.orelse, st2))
            merged = self.try_merge(sides, cond, base_pc)
            if merged is not None:
                yield merged, NORMAL
                continue
            for taken in (True, False):
                for st3, out in sides.get(taken, []):
                    yield st3, out

    def try_merge(self, sides, cond, base_pc):
        """Join the two branches of an `if` when both end normally with the same ghost history (keeps the number of paths linear)."""
        if set(sides) != {True, False} or any(len(v) != 1 or v[0][1][0] != "normal" for v in sides.values()):
            return None
        a, b = sides[True][0][0], sides[False][0][0]
        if len(a.log) != len(b.log) or any(x[0] != y[0] or x[1] is not y[1] for x, y in zip(a.log, b.log)):
            return None
        if len(a.fresh_refs) != len(b.fresh_refs) or any(x.t.get_id() != y.t.get_id() for x, y in zip(a.fresh_refs, b.fresh_refs)):
            return None
        if a.alloc.get_id() != b.alloc.get_id() or len(a.frames) != len(b.frames):
            return None
        from .vals import ite_val
        frames = []
        for fa, fb in zip(a.frames, b.frames):
            f = {}
            for k in set(fa) | set(fb):
                va, vb = fa.get(k), fb.get(k)
                if va is vb:
                    f[k] = va
                elif isinstance(va, Val) and isinstance(vb, Val):
                    try:
                        f[k] = ite_val(cond, va, vb)
                    except Exception:
                        return None
                elif k.startswith("__"):
                    if va != vb:
                        return None
                    f[k] = va
                elif va is None or vb is None:
                    f[k] = None          # bound on one side only: unusable afterwards (use is reported as unsupported)
                else:
                    return None
            frames.append(f)
        heap = {}
        for k in set(a.heap) | set(b.heap):
            ha, hb = a.heap.get(k), b.heap.get(k)
            if ha is None or hb is None:
                owner, field = k
                fty = dsl.REG.classes[owner].fields[field]
                ha = ha or self.heap_arrays(a, owner, field, fty)[1]
                hb = hb or self.heap_arrays(b, owner, field, fty)[1]
            heap[k] = [x if x.get_id() == y.get_id() else z3.If(cond, x, y) for x, y in zip(ha, hb)]
        m = a.clone()
        m.frames = frames
        m.heap = heap
        common = a.pc[:base_pc]
        ea = [x for x in a.pc[base_pc:] if not x.eq(cond)]
        eb = [x for x in b.pc[base_pc:] if not x.eq(z3.Not(cond)) and not x.eq(z3.simplify(z3.Not(cond)))]
        m.pc = list(common)
        if ea:
            m.pc.append(z3.Implies(cond, z3.And(ea)))
        if eb:
            m.pc.append(z3.Implies(z3.Not(cond), z3.And(eb)))
        m.written = a.written | b.written
        m.written_locals = a.written_locals | b.written_locals
        m.log_untracked = a.log_untracked | b.log_untracked
        for k, v in b.written_at.items():
            m.written_at.setdefault(k, [])
            m.written_at[k] = m.written_at[k] + [r for r in v if all(r.get_id() != q.get_id() for q in m.written_at[k])]
        m.unfolded = a.unfolded | b.unfolded
        m.path = a.path[:-1] if a.path and a.path[-1].startswith("if@") else a.path
        return m

    def exc_matches(self, exc, handler_type, st, node):
        if handler_type is None:
            return True
        names = []
        if isinstance(handler_type, ast.Tuple):
            names = [e.id if isinstance(e, ast.Name) else e.attr for e in handler_type.elts]
        elif isinstance(handler_type, ast.Name):
            names = [handler_type.id]
        elif isinstance(handler_type, ast.Attribute):
            names = [handler_type.attr]
        else:
            raise Unsupported("except clause", node)
        return any(self.repo.is_subclass(exc.cls, n) for n in names)

    def ex_Try(self, node, st):
        if node.finalbody:
            raise Unsupported("try/finally", node)
        for st1, out in self.exec_block(node.body, st):
            if out[0] == "raise":
                exc = out[1]
                handled = False
                for h in node.handlers:
                    if self.exc_matches(exc, h.type, st1, node):
                        handled = True
                        if h.name:
                            st1.env[h.name] = exc
                        prev = st1.env.get("__handling__")
                        st1.env["__handling__"] = exc
                        for st2, out2 in self.exec_block(h.body, st1):
                            st2.env["__handling__"] = prev
                            yield st2, out2
                        break
                if not handled:
                    yield st1, out
            elif out[0] == "normal" and node.orelse:
                yield from self.exec_block(node.orelse, st1)
            else:
                yield st1, out

    def ex_While(self, node, st):
        yield from self.loop_with_invariant(node, st, kind="while")

    def ex_For(self, node, st):
        it_node = node.iter
        if isinstance(it_node, ast.Call) and isinstance(it_node.func, ast.Attribute) and it_node.func.attr == "items" and not it_node.args:
            # `for k, v in d.items()` over a dictionary value: iterate the key set, bind (k, d[k])
            for st1, base in self.ev(it_node.func.value, st):
                if isinstance(base, Raise):
                    yield st1, ("raise", base.exc)
                    continue
                if not (isinstance(base, Val) and isinstance(base.ty, TMap)):
                    raise Unsupported("items() of %r" % (base,), node)
                keys = Val(TSet(base.ty.key), [base.terms[0]])
                yield from self.loop_with_invariant(node, st1, kind="for", iterable=keys, items_of=base)
            return
        en = self._enumerate_pattern(it_node)
        if en is not None:
            # `for i, x in enumerate(S)` / `for i, x in list(enumerate(S))[k:]`: the suffix of S from k, bound as (k + position, element)
            seq_node, start_node = en
            for st1, vs in self.ev_list([seq_node] + ([start_node] if start_node is not None else []), st):
                if isinstance(vs, Raise):
                    yield st1, ("raise", vs.exc)
                    continue
                seq = vs[0]
                if not (isinstance(seq, Val) and isinstance(seq.ty, TSeq)):
                    raise Unsupported("enumerate over %r" % (seq,), node)
                k = vs[1].t if start_node is not None else z3.IntVal(0)
                n = z3.Length(seq.t)
                k = z3.If(k < 0, z3.IntVal(0), z3.If(k > n, n, k))        # list slicing clips (non-negative start only)
                if start_node is not None:
                    self.check(st1, vs[1].t >= 0, "safe", "non-negative-slice-start", node)
                suffix = Val(seq.ty, [z3.SubSeq(seq.t, k, n - k)])
                yield from self.loop_with_invariant(node, st1, kind="for", iterable=suffix, enum_from=k)
            return
        for st1, it in self.ev(node.iter, st):
            if isinstance(it, Raise):
                yield st1, ("raise", it.exc)
                continue
            from .vals import Reversed
            if isinstance(it, Val) and isinstance(it.ty, TMap):
                it = Val(TSet(it.ty.key), [it.terms[0]])       # iterating a dict iterates its keys
            if isinstance(it, PyList):
                yield from self._unrolled(node, it.items, st1)
            elif isinstance(it, Reversed):
                yield from self.loop_with_invariant(node, st1, kind="for", iterable=it.seq, reverse=True)
            else:
                yield from self.loop_with_invariant(node, st1, kind="for", iterable=it)

    @staticmethod
    def _enumerate_pattern(it):
        def is_enum(c):
            return isinstance(c, ast.Call) and isinstance(c.func, ast.Name) and c.func.id == "enumerate" and len(c.args) == 1 and not c.keywords
        if is_enum(it):
            return it.args[0], None
        if isinstance(it, ast.Call) and isinstance(it.func, ast.Name) and it.func.id == "list" and len(it.args) == 1 and is_enum(it.args[0]):
            return it.args[0].args[0], None
        if isinstance(it, ast.Subscript) and isinstance(it.slice, ast.Slice) and it.slice.upper is None and it.slice.step is None \
                and it.slice.lower is not None:
            inner = StmtMixin._enumerate_pattern(it.value) if hasattr(StmtMixin, "_enumerate_pattern") else None
            if inner is not None and inner[1] is None:
                return inner[0], it.slice.lower
        return None

    def _unrolled(self, node, items, st):
        if not items:
            yield from self.exec_block(node.orelse, st)
            return
        for st1, out in self.assign(node.target, items[0], st, node):
            if out[0] != "normal":
                yield st1, out
                continue
            for st2, out2 in self.exec_block(node.body, st1):
                if out2[0] in ("normal", "continue"):
                    yield from self._unrolled(node, items[1:], st2)
                elif out2[0] == "break":
                    yield st2, NORMAL
                else:
                    yield st2, out2

    def ex_Break(self, node, st):
        yield st, ("break",)

    def ex_Continue(self, node, st):
        yield st, ("continue",)

    def ex_FunctionDef(self, node, st):
        raise Unsupported("nested function definition", node)

    def ex_With(self, node, st):
        raise Unsupported("with statement", node)
