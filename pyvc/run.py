"""Driver: verify the FUCs and lemmas of a property and discharge the obligations."""
import importlib
import json
import os
import sys
import time
import glob

sys.setrecursionlimit(20000)


def load_contracts():
    here = os.path.dirname(os.path.dirname(os.path.abspath(__file__)))
    if here not in sys.path:
        sys.path.insert(0, here)
    for f in sorted(glob.glob(os.path.join(here, "contracts", "*.py"))):
        name = os.path.basename(f)[:-3]
        if name.startswith("_"):
            continue
        importlib.import_module("contracts." + name)


def verify_unit(args):
    """Worker: (kind, name, timeout, all_backends, repo_root) -> plain-data result."""
    kind, name, timeout, all_backends, repo_root = args
    from .engine import Exec
    from .solve import discharge
    t0 = time.time()
    if kind == "static":
        from .repo import Repo
        from .origin import run_static
        repo = Repo(repo_root)
        for m in ("liquer.store", "liquer.cache", "liquer.context", "liquer.parser", "liquer.commands", "liquer.state", "liquer.recipes",
                  "liquer.state_types", "liquer.metadata"):
            repo.module(m)
        vcs = run_static(repo, name)
        for i, v in enumerate(vcs):
            v.setdefault("vc", i); v.setdefault("line", None); v.setdefault("path", None); v.setdefault("expect", "unsat")
            v.setdefault("model", None); v.setdefault("tried", [("static", v["result"], 0.0)]); v.setdefault("inputs", None)
        return dict(unit="static:" + str(name[:2]), kind="static", vcs=vcs,
                    meta=dict(qualname="static:%s:%s" % (name[0], name[1]), kind="static", file=None, paths=len(vcs), gen_seconds=time.time() - t0,
                              assumptions=[], dropped_calls=[], used_contracts=[]))
    ex = Exec(repo_root)
    if kind == "fuc":
        obls, meta = ex.verify_fuc(name)
    else:
        obls, meta = ex.verify_lemma(name)
    gen_s = time.time() - t0
    out = []
    if len(obls) > 300 and os.environ.get("PYVC_NO_FORK") != "1":
        out = _discharge_forked(ex, obls, timeout, all_backends)
        meta.update(gen_seconds=gen_s, assumptions=sorted(ex.assumptions), dropped_calls=sorted(ex.dropped_calls),
                    used_contracts=sorted(ex.used_contracts))
        return dict(unit=name, kind=kind, meta=meta, vcs=out)
    for i, ob in enumerate(obls):
        if ob.kind == "shape":
            r = dict(result="undischarged", backend=None, seconds=0.0, model=None, tried=[])
        else:
            r = discharge(ob, timeout, all_backends)
            if r["result"] == "undischarged":      # one retry at 3x (DESIGN 2.2)
                r = discharge(ob, timeout * 3, True)
        zm = r.pop("z3model", None)
        r["inputs"] = None
        if zm is not None and r["result"] == "refuted":
            from .concretize import concretize
            try:
                r["inputs"] = concretize(ex, zm, ob.info)
            except Exception as e:
                r["inputs"] = {"error": str(e)}
        if r.get("model") and len(str(r["model"])) > 4000:
            r["model"] = {k: v[:300] for k, v in list(r["model"].items())[:40]}
        out.append(dict(name=ob.name, kind=ob.kind, vc=i, line=ob.info.get("line"), path=ob.info.get("path"),
                        reason=ob.info.get("reason"), expect=ob.expect, **r))
    meta.update(gen_seconds=gen_s, assumptions=sorted(ex.assumptions), dropped_calls=sorted(ex.dropped_calls),
                used_contracts=sorted(ex.used_contracts))
    return dict(unit=name, kind=kind, meta=meta, vcs=out)


def _discharge_one(ex, i, ob, timeout, all_backends):
    from .solve import discharge
    if ob.kind == "shape":
        r = dict(result="undischarged", backend=None, seconds=0.0, model=None, tried=[])
    else:
        r = discharge(ob, timeout, all_backends)
        if r["result"] == "undischarged":
            r = discharge(ob, timeout * 3, True)
    zm = r.pop("z3model", None)
    r["inputs"] = None
    if zm is not None and r["result"] == "refuted":
        from .concretize import concretize
        try:
            r["inputs"] = concretize(ex, zm, ob.info)
        except Exception as e:
            r["inputs"] = {"error": str(e)}
    if r.get("model") and len(str(r["model"])) > 4000:
        r["model"] = {k: v[:300] for k, v in list(r["model"].items())[:40]}
    return dict(name=ob.name, kind=ob.kind, vc=i, line=ob.info.get("line"), path=ob.info.get("path"),
                reason=ob.info.get("reason"), expect=ob.expect, **r)


def _discharge_forked(ex, obls, timeout, all_backends, nproc=8):
    """Large units: the verification conditions are discharged by forked children (each inherits the z3 terms)."""
    import tempfile
    chunks = [list(range(k, len(obls), nproc)) for k in range(nproc)]
    files, pids = [], []
    for idxs in chunks:
        fd, path = tempfile.mkstemp(prefix="pyvc_", suffix=".json")
        os.close(fd)
        files.append(path)
        pid = os.fork()
        if pid == 0:
            try:
                res = [_discharge_one(ex, i, obls[i], timeout, all_backends) for i in idxs]
                with open(path, "w") as f:
                    json.dump(res, f, default=str)
            finally:
                os._exit(0)
        pids.append(pid)
    out = []
    for pid, path in zip(pids, files):
        os.waitpid(pid, 0)
        try:
            out += json.load(open(path))
        except Exception:
            pass
        os.unlink(path)
    done = {v["vc"] for v in out}
    for i, ob in enumerate(obls):      # a child that died: discharge here
        if i not in done:
            out.append(_discharge_one(ex, i, ob, timeout, all_backends))
    out.sort(key=lambda v: v["vc"])
    return out


if __name__ == "__main__":
    load_contracts()
    for _w in filter(None, os.environ.get("PYVC_WIP", "").split(",")):      # work-in-progress sidecars (contracts/_*.py) are opt-in
        importlib.import_module("contracts." + _w)
    from . import dsl
    pid = sys.argv[1]
    p = dsl.REG.props[pid]
    only = sys.argv[2] if len(sys.argv) > 2 else None
    units = [("fuc", f) for f in p["fucs"]] + [("lemma", l) for l in p["lemmas"]] + [("static", x) for x in p.get("static", [])]
    for kind, name in units:
        if only and only not in str(name):
            continue
        r = verify_unit((kind, name, 10.0, False, os.environ.get("LIQUER_REPO", "/repo")))
        print("==", kind, name, "paths", r["meta"].get("paths"), "gen %.2fs" % r["meta"]["gen_seconds"])
        for v in r["vcs"]:
            flag = "OK " if v["result"] == "discharged" else "!! "
            print("  ", flag, v["name"], v["result"], v["backend"], "%.2fs" % v["seconds"], v.get("reason") or "",
                  ("line %s" % v["line"]) if v["result"] != "discharged" else "")
            if v["result"] == "refuted" and v.get("model"):
                print("       inputs:", json.dumps(v.get("inputs"))[:400])
