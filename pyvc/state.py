"""Symbolic execution state, obligations and small z3 helpers."""
import z3

from .vals import Val, fresh_name


class Unsupported(Exception):
    """A construct outside the supported subset inside a FUC (reported as a failed `shape` obligation)."""

    def __init__(self, msg, node=None):
        line = getattr(node, "lineno", None)
        super().__init__(msg + ("" if line is None else " (line %s)" % line))
        self.node = node


class Raise:
    """Signal: expression evaluation raised."""

    def __init__(self, exc):
        self.exc = exc


class Obligation:
    def __init__(self, name, kind, assumptions, goal, info=None, expect="unsat"):
        self.name = name
        self.kind = kind
        self.assumptions = list(assumptions)
        self.goal = goal
        self.info = info or {}
        self.expect = expect     # "unsat" of assumptions ∧ ¬goal (normal) | "sat" for cover obligations

    def formula(self):
        if self.expect == "sat":
            return z3.And(self.assumptions + [self.goal])
        return z3.And(self.assumptions + [z3.Not(self.goal)])


class State:
    def __init__(self):
        self.frames = [{}]
        self.heap = {}
        self.alloc = z3.Const(fresh_name("alloc"), z3.ArraySort(z3.IntSort(), z3.BoolSort()))
        self.pc = []
        self.written = set()
        self.written_locals = set()
        self.written_at = {}      # heap key -> list of ref terms written
        self.log = []
        self.log_untracked = set()     # callees called inside loop bodies: their entries are missing from `log` after the loop
        self.ghost = False        # inside spec / contract evaluation: no safety obligations
        self.pure = False         # boolean operators build terms instead of branching
        self.unfolded = set()
        self.unfold_budget = 1
        self.old = None           # snapshot for old(...)
        self.depth = 0
        self.path = []            # human-readable branch decisions
        self.fresh_refs = []      # refs allocated along this path
        self.axiom_sink = None    # scratch states (spec bodies) send globally valid axiom instances to the outer path

    def clone(self):
        s = State.__new__(State)
        s.frames = [dict(f) for f in self.frames]
        s.heap = dict(self.heap)
        s.alloc = self.alloc
        s.pc = list(self.pc)
        s.written = set(self.written)
        s.written_locals = set(self.written_locals)
        s.written_at = {k: list(v) for k, v in self.written_at.items()}
        s.log = list(self.log)
        s.log_untracked = set(self.log_untracked)
        s.ghost = self.ghost
        s.pure = self.pure
        s.unfolded = set(self.unfolded)
        s.unfold_budget = self.unfold_budget
        s.old = self.old
        s.depth = self.depth
        s.path = list(self.path)
        s.fresh_refs = list(self.fresh_refs)
        s.axiom_sink = self.axiom_sink
        return s

    def snapshot(self):
        """Immutable-enough copy of heap for old(...)."""
        s = State.__new__(State)
        s.__dict__.update(self.__dict__)
        s.heap = dict(self.heap)
        s.frames = [dict(f) for f in self.frames]
        s.pc = self.pc            # shared on purpose: assumptions are added to the live path
        return s

    @property
    def env(self):
        return self.frames[-1]

    def axiom(self, c):
        """A globally valid fact (instance of a definition / assumed built-in contract)."""
        c = z3.simplify(c)
        if z3.is_true(c):
            return
        (self.axiom_sink if self.axiom_sink is not None else self.pc).append(c)

    def assume(self, c):
        c = z3.simplify(c) if not isinstance(c, bool) else z3.BoolVal(c)
        if z3.is_true(c):
            return
        self.pc.append(c)


_feas_cache = {}


def feasible(pc, cond, timeout_ms=400):
    """False only if pc ∧ cond is certainly unsatisfiable."""
    s = z3.Solver()
    s.set("timeout", timeout_ms)
    s.add(*pc)
    s.add(cond)
    r = s.check()
    return r != z3.unsat
