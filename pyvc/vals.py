"""Logical types and symbolic values of pyvc.

A symbolic value is a typed tuple of z3 terms (``Val(ty, terms)``): every
logical type flattens into a fixed list of z3 sorts, so heap fields, maps,
uninterpreted spec functions and havoc all work component-wise and no SMT
datatypes are needed.
"""
import itertools
try:
    import z3
except ImportError:      # the replay harness imports the sidecars under /venv/bin/python (no z3): types only
    z3 = None

_counter = itertools.count()


def fresh_name(hint):
    return "%s!%d" % (hint, next(_counter))


class Ty:
    name = "?"

    def comps(self):
        raise NotImplementedError

    def __repr__(self):
        return self.name

    def __eq__(self, o):
        return isinstance(o, Ty) and repr(self) == repr(o)

    def __hash__(self):
        return hash(repr(self))


class TInt(Ty):
    name = "Int"

    def comps(self):
        return [z3.IntSort()]


class TBool(Ty):
    name = "Bool"

    def comps(self):
        return [z3.BoolSort()]


class TStr(Ty):
    name = "Str"

    def comps(self):
        return [z3.StringSort()]


class TBytes(Ty):
    """bytes; modelled as a string of code points < 256 (only length/equality/concat are used)."""
    name = "Bytes"

    def comps(self):
        return [z3.StringSort()]


class TNone(Ty):
    name = "None"

    def comps(self):
        return []


class TRef(Ty):
    """Reference to an object of (a subclass of) class ``cls``; refs are integers."""

    def __init__(self, cls):
        self.cls = cls
        self.name = "Ref(%s)" % cls

    def comps(self):
        return [z3.IntSort()]


_opaque_sorts = {}


class TOpaque(Ty):
    """A value the code only passes around (equality only)."""

    def __init__(self, sort_name="Opaque"):
        self.sort_name = sort_name
        self.name = "Opaque(%s)" % sort_name

    def comps(self):
        if self.sort_name not in _opaque_sorts:
            _opaque_sorts[self.sort_name] = z3.DeclareSort(self.sort_name)
        return [_opaque_sorts[self.sort_name]]


class TOpt(Ty):
    def __init__(self, inner):
        assert not isinstance(inner, (TOpt, TNone))
        self.inner = inner
        self.name = "Opt(%r)" % inner

    def comps(self):
        return [z3.BoolSort()] + self.inner.comps()


class TSet(Ty):
    def __init__(self, elem):
        self.elem = elem
        self.name = "Set(%r)" % elem

    def comps(self):
        (es,) = self.elem.comps()
        return [z3.ArraySort(es, z3.BoolSort())]


class TLSet(Ty):
    """A Python list / iterable known by its set of elements (order abstracted) plus a flag
    saying that it holds no duplicates (e.g. the result of sorted(set(..)), of keys(), of listdir())."""

    def __init__(self, elem):
        self.elem = elem
        self.name = "ListOfSet(%r)" % elem

    def comps(self):
        (es,) = self.elem.comps()
        return [z3.ArraySort(es, z3.BoolSort()), z3.BoolSort()]


class TMap(Ty):
    def __init__(self, key, val):
        self.key = key
        self.val = val
        self.name = "Map(%r,%r)" % (key, val)

    def comps(self):
        (ks,) = self.key.comps()
        return [z3.ArraySort(ks, z3.BoolSort())] + [z3.ArraySort(ks, c) for c in self.val.comps()]


class TSeq(Ty):
    def __init__(self, elem):
        self.elem = elem
        self.name = "Seq(%r)" % elem

    def comps(self):
        (es,) = self.elem.comps()
        return [z3.SeqSort(es)]


class TTuple(Ty):
    def __init__(self, *items):
        self.items = list(items)
        self.name = "Tuple(%s)" % ",".join(map(repr, items))

    def comps(self):
        out = []
        for i in self.items:
            out += i.comps()
        return out


class TRec(Ty):
    """Dictionary accessed with literal keys: one optional field per declared key plus an
    opaque ``rest`` standing for every other key."""

    def __init__(self, rname, fields, required=()):
        self.rname = rname
        self.fields = dict(fields)
        self.name = "Rec(%s)" % rname
        # type invariant (an assumption listed in the evidence): these keys are always present in a dictionary of this kind
        self.required = frozenset(required)

    def present(self, terms, fname):
        """presence of a declared key as a formula"""
        if fname in self.required:
            return z3.BoolVal(True)
        lo, hi, ft = self.field_slice(fname)
        return terms[lo]

    def comps(self):
        out = []
        for f, t in self.fields.items():
            out += [z3.BoolSort()] + t.comps()
        out += TOpaque("RecRest").comps()
        return out

    def field_slice(self, fname):
        i = 0
        for f, t in self.fields.items():
            n = 1 + len(t.comps())
            if f == fname:
                return i, i + n, t
            i += n
        raise KeyError(fname)


Int, Bool, Str, Bytes, NoneT = TInt(), TBool(), TStr(), TBytes(), TNone()


class Val:
    __slots__ = ("ty", "terms")

    def __init__(self, ty, terms):
        self.ty = ty
        self.terms = list(terms)
        assert len(self.terms) == len(ty.comps()), (ty, terms)

    @property
    def t(self):
        assert len(self.terms) == 1, self
        return self.terms[0]

    def __repr__(self):
        return "<%r %s>" % (self.ty, ", ".join(str(x) for x in self.terms))


class PyList:
    """A Python list/tuple of statically known length (literals, small tables)."""

    def __init__(self, items, is_tuple=False):
        self.items = list(items)
        self.is_tuple = is_tuple

    def __repr__(self):
        return "PyList(%r)" % (self.items,)


class Reversed:
    """reversed(seq): only iterated"""

    def __init__(self, seq):
        self.seq = seq


class PyDict:
    """A Python dict literal with constant keys (small tables, kwargs)."""

    def __init__(self, items):
        self.items = dict(items)


class ExcVal:
    def __init__(self, cls, args=(), fields=None):
        self.cls = cls
        self.args = list(args)
        self.fields = dict(fields or {})

    def __repr__(self):
        return "Exc(%s)" % self.cls


class Callable_:
    """A name bound to a repo function / class / builtin / spec function."""

    def __init__(self, kind, name, obj=None, bound=None):
        self.kind = kind
        self.name = name
        self.obj = obj
        self.bound = bound

    def __repr__(self):
        return "<%s %s>" % (self.kind, self.name)


# ---------------------------------------------------------------- constructors

def mk_int(x):
    return Val(Int, [z3.IntVal(x) if isinstance(x, int) else x])


def mk_bool(x):
    return Val(Bool, [z3.BoolVal(x) if isinstance(x, bool) else x])


def mk_str(x):
    return Val(Str, [z3.StringVal(x) if isinstance(x, str) else x])


def mk_bytes(x):
    if isinstance(x, bytes):
        x = z3.StringVal(x.decode("latin-1"))
    return Val(Bytes, [x])


NONE = Val(NoneT, [])


def fresh(ty, hint="v"):
    return Val(ty, [z3.Const(fresh_name(hint), s) for s in ty.comps()])


def default_terms(ty):
    return [z3.Const("junk!%s" % s, s) for s in ty.comps()]


def mk_none_opt(inner):
    return Val(TOpt(inner), [z3.BoolVal(True)] + default_terms(inner))


def mk_some(v):
    if isinstance(v.ty, TOpt):
        return v
    return Val(TOpt(v.ty), [z3.BoolVal(False)] + v.terms)


def opt_isnone(v):
    return v.terms[0]


def opt_inner(v):
    return Val(v.ty.inner, v.terms[1:])


def empty_set(elem):
    (es,) = elem.comps()
    return Val(TSet(elem), [z3.K(es, z3.BoolVal(False))])


def empty_map(key, val):
    (ks,) = key.comps()
    ty = TMap(key, val)
    return Val(ty, [z3.K(ks, z3.BoolVal(False))] + [z3.Const("junkarr!%s!%s" % (ks, c), z3.ArraySort(ks, c)) for c in val.comps()])


def empty_seq(elem):
    ty = TSeq(elem)
    return Val(ty, [z3.Empty(ty.comps()[0])])


def seq_unit(v):
    return Val(TSeq(v.ty), [z3.Unit(v.t)])


def coerce(v, ty):
    """Coerce value ``v`` to logical type ``ty`` where this is a pure re-tagging
    (None -> Opt, T -> Opt(T), PyList -> Seq, Ref(sub) -> Ref(super))."""
    if isinstance(ty, TOpaque) and ty.sort_name == "Any":
        # a value the slice does not track: any value fits, nothing is remembered about it
        if isinstance(v, Val) and v.ty == ty:
            return v
        if isinstance(v, Val) and len(v.terms) == 1 and not isinstance(v.ty, TNone):
            # the same value is the same object: an uninterpreted embedding (nothing else is remembered about it)
            srt = v.terms[0].sort()
            return Val(ty, [z3.Function("box!%s!Any" % srt, srt, ty.comps()[0])(v.terms[0])])
        return fresh(ty, "any")
    if isinstance(v, PyList):
        if isinstance(ty, TSeq):
            out = empty_seq(ty.elem)
            for it in v.items:
                it = coerce(it, ty.elem)
                out = Val(ty, [z3.Concat(out.t, z3.Unit(it.t))]) if v.items else out
            return out
        if isinstance(ty, (TLSet, TSet)):
            arr = empty_set(ty.elem).t
            for it in v.items:
                arr = z3.Store(arr, coerce(it, ty.elem).t, True)
            if isinstance(ty, TSet):
                return Val(ty, [arr])
            return Val(ty, [arr, z3.BoolVal(len(v.items) <= 1)])
        if isinstance(ty, TTuple):
            terms = []
            for it, t in zip(v.items, ty.items):
                terms += coerce(it, t).terms
            return Val(ty, terms)
        raise TypeError("cannot coerce list to %r" % ty)
    if isinstance(v, ExcVal):
        if isinstance(ty, TOpt) and isinstance(ty.inner, TOpaque):
            return Val(ty, [z3.BoolVal(False)] + fresh(ty.inner, "exc").terms)
        if isinstance(ty, TOpaque):
            return fresh(ty, "exc")
        raise TypeError("cannot coerce an exception object to %r" % ty)
    if isinstance(v, PyDict):
        if isinstance(ty, TMap) and not v.items:
            return empty_map(ty.key, ty.val)
        if isinstance(ty, TRec):
            terms = []
            for f, ft in ty.fields.items():
                if f in v.items:
                    terms += [z3.BoolVal(True)] + coerce(v.items[f], ft).terms
                elif f in ty.required:
                    raise TypeError("dictionary literal lacks the required key %r of %s" % (f, ty.rname))
                else:
                    terms += [z3.BoolVal(False)] + default_terms(ft)
            if set(v.items) - set(ty.fields):
                terms += [z3.Const(fresh_name("recrest"), TOpaque("RecRest").comps()[0])]
            else:
                terms += [z3.Const("recrest!empty", TOpaque("RecRest").comps()[0])]
            return Val(ty, terms)
        raise TypeError("cannot coerce dict literal to %r" % ty)
    if v.ty == ty:
        return v
    if isinstance(ty, TOpt):
        if isinstance(v.ty, TNone):
            return mk_none_opt(ty.inner)
        if isinstance(v.ty, TOpt):
            inner = coerce(opt_inner(v), ty.inner)
            return Val(ty, [v.terms[0]] + inner.terms)
        return mk_some(coerce(v, ty.inner))
    if isinstance(ty, TRef) and isinstance(v.ty, TRef):
        return v          # keep the more specific static class (view aliases depend on it)
    if isinstance(ty, TOpaque) and ty.sort_name == "Data" and isinstance(v.ty, TNone):
        return Val(ty, [z3.Const("none!Data", ty.comps()[0])])      # None used as a data value: one distinguished constant
    if isinstance(ty, TOpaque) and ty.sort_name == "Data" and isinstance(v.ty, TRef):
        srt = v.terms[0].sort()      # an object used as a data value: uninterpreted embedding
        return Val(ty, [z3.Function("box!%s!Data" % srt, srt, ty.comps()[0])(v.terms[0])])
    if isinstance(ty, TLSet) and isinstance(v.ty, TSet):
        return Val(ty, [v.t, z3.BoolVal(True)])
    if isinstance(ty, TBytes) and isinstance(v.ty, TStr):
        return Val(ty, v.terms)
    if isinstance(ty, TStr) and isinstance(v.ty, TBytes):
        return Val(ty, v.terms)
    if isinstance(ty, TSeq) and isinstance(v.ty, TSeq) and isinstance(ty.elem, TRef) and isinstance(v.ty.elem, TRef):
        return Val(ty, v.terms)
    if isinstance(ty, TTuple) and isinstance(v.ty, TTuple) and len(ty.items) == len(v.ty.items):
        terms = []
        i = 0
        for a, b in zip(v.ty.items, ty.items):
            n = len(a.comps())
            terms += coerce(Val(a, v.terms[i:i + n]), b).terms
            i += n
        return Val(ty, terms)
    raise TypeError("cannot coerce %r to %r" % (v.ty, ty))


def veq(a, b):
    """z3 Bool: Python ``==`` between two symbolic values (guarded for Opt / Rec)."""
    if isinstance(a, PyList) or isinstance(b, PyList):
        if isinstance(a, PyList) and isinstance(b, PyList):
            if len(a.items) != len(b.items):
                return z3.BoolVal(False)
            return z3.And([veq(x, y) for x, y in zip(a.items, b.items)] + [z3.BoolVal(True)])
        if isinstance(a, PyList):
            a, b = b, a
        if isinstance(a.ty, (TSeq, TTuple)):
            return veq(a, coerce(b, a.ty))
        return z3.BoolVal(False)
    ta, tb = a.ty, b.ty
    if isinstance(ta, TNone) and isinstance(tb, TNone):
        return z3.BoolVal(True)
    if isinstance(ta, TNone):
        a, b, ta, tb = b, a, tb, ta
    if isinstance(tb, TNone):
        if isinstance(ta, TOpt):
            return opt_isnone(a)
        return z3.BoolVal(False)
    if isinstance(ta, TOpt) or isinstance(tb, TOpt):
        if not isinstance(ta, TOpt):
            a, b, ta, tb = b, a, tb, ta
        if isinstance(tb, TOpt):
            return z3.And(opt_isnone(a) == opt_isnone(b),
                          z3.Or(opt_isnone(a), veq(opt_inner(a), opt_inner(b))))
        return z3.And(z3.Not(opt_isnone(a)), veq(opt_inner(a), b))
    if isinstance(ta, TRec) and isinstance(tb, TRec) and ta.rname == tb.rname:
        conj = []
        for f in ta.fields:
            lo, hi, ft = ta.field_slice(f)
            pa, pb = ta.present(a.terms, f), ta.present(b.terms, f)
            conj.append(pa == pb)
            conj.append(z3.Or(z3.Not(pa), veq(Val(ft, a.terms[lo + 1:hi]), Val(ft, b.terms[lo + 1:hi]))))
        conj.append(a.terms[-1] == b.terms[-1])
        return z3.And(conj)
    if isinstance(ta, TTuple) and isinstance(tb, TTuple):
        if len(ta.items) != len(tb.items):
            return z3.BoolVal(False)
        conj = []
        i = j = 0
        for x, y in zip(ta.items, tb.items):
            n, m = len(x.comps()), len(y.comps())
            conj.append(veq(Val(x, a.terms[i:i + n]), Val(y, b.terms[j:j + m])))
            i += n
            j += m
        return z3.And(conj + [z3.BoolVal(True)])
    sa, sb = ta.comps(), tb.comps()
    if len(sa) != len(sb) or any(x != y for x, y in zip(sa, sb)):
        return z3.BoolVal(False)      # different Python types compare unequal
    if (isinstance(ta, (TStr, TBytes)) and isinstance(tb, (TStr, TBytes)) and type(ta) != type(tb)):
        return z3.BoolVal(False)
    return z3.And([x == y for x, y in zip(a.terms, b.terms)] + [z3.BoolVal(True)])


def truth(v):
    """z3 Bool: Python truthiness."""
    if isinstance(v, PyList):
        return z3.BoolVal(len(v.items) > 0)
    if isinstance(v, PyDict):
        return z3.BoolVal(len(v.items) > 0)
    if isinstance(v, (Callable_, ExcVal)):
        return z3.BoolVal(True)
    ty = v.ty
    if isinstance(ty, TBool):
        return v.t
    if isinstance(ty, TNone):
        return z3.BoolVal(False)
    if isinstance(ty, TInt):
        return v.t != 0
    if isinstance(ty, (TStr, TBytes, TSeq)):
        return z3.Length(v.t) > 0
    if isinstance(ty, TSet):
        return v.t != empty_set(ty.elem).t
    if isinstance(ty, TLSet):
        return v.terms[0] != empty_set(ty.elem).t
    if isinstance(ty, TMap):
        return v.terms[0] != empty_set(ty.key).t
    if isinstance(ty, TOpt):
        return z3.And(z3.Not(opt_isnone(v)), truth(opt_inner(v)))
    if isinstance(ty, TOpaque):
        # an arbitrary Python value: falsy for 0, "", [], {}, None-like values ... - an uninterpreted predicate of the value
        (srt,) = ty.comps()
        return z3.Function("truthy!%s" % srt, srt, z3.BoolSort())(v.t)
    if isinstance(ty, TRec):
        # a dictionary is falsy exactly when it is empty: no declared key present and no other key (uninterpreted for the rest)
        rest = v.terms[-1]
        some_rest = z3.Function("nonempty!%s" % rest.sort(), rest.sort(), z3.BoolSort())(rest)
        return z3.Or([ty.present(v.terms, f) for f in ty.fields] + [some_rest])
    if isinstance(ty, TRef):
        return z3.BoolVal(True)
    if isinstance(ty, TTuple):
        return z3.BoolVal(len(ty.items) > 0)
    raise TypeError("truth of %r" % ty)


def ite_val(c, a, b):
    if isinstance(a, PyList) or isinstance(b, PyList):
        raise TypeError("ite over python lists")
    if a.ty != b.ty:
        if isinstance(a.ty, TNone) and isinstance(b.ty, TNone):
            return a
        # unify through Opt
        base = a.ty if not isinstance(a.ty, TNone) else b.ty
        if isinstance(base, TOpt):
            base = base.inner
        ty = TOpt(base)
        a, b = coerce(a, ty), coerce(b, ty)
    return Val(a.ty, [z3.If(c, x, y) for x, y in zip(a.terms, b.terms)])
