#!/bin/sh
# Offline setup: nothing is fetched.  Verifies the tools the checks need and byte-compiles the engine.
set -e
cd "$(dirname "$0")"
python3-vt -c "import z3, cvc5" 
test -x /usr/bin/cvc5
test -x /venv/bin/python
python3-vt -m compileall -q pyvc contracts 2>/dev/null || true
mkdir -p evidence replays
echo setup ok
