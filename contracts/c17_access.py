"""C17 — access boundaries: read-only views refuse writes; directory stores stay in their root.

(a) ReadOnlyStore: every mutator raises ReadOnlyStoreException with an empty frame; every read is the inherited
    ProxyStore forwarder, proved to return exactly what the wrapped store returns (interface contract).
(b) FileStore: path_for_key / metadata_path_for_key return paths inside the root for every key (or refuse the key);
    a static origin check (pyvc/origin.py) shows that every file-system primitive in FileStore receives a path that
    comes from these two functions.
"""
from pyvc.dsl import *
from pyvc.pathmodel import PATH
from contracts.stores import Meta, KeyList

classdef("liquer.store.ProxyStore", bases=["Store"], fields=dict(_store=Ref("Store")))
classdef("liquer.store.ReadOnlyStore", bases=["ProxyStore"], fields={})
classdef("liquer.store.FileStore", bases=["Store"], fields=dict(path=PATH))
Handle = Opaque("FileHandle")

PS = Ref("ProxyStore")
RO = Ref("ReadOnlyStore")


# ------------------------------------------------------------------ reads are forwarded unchanged (ProxyStore, inherited by ReadOnlyStore)
@contract("liquer.store.ProxyStore.get_bytes", params=dict(self=PS, key=Str), returns=Bytes)
def _(self, key):
    raises(KeyNotFoundStoreException, when=not has(self._store.data, key), label="as-the-wrapped-store")
    ensures(result == mapget(self._store.data, key), "exactly-the-wrapped-store's-bytes")


@contract("liquer.store.ProxyStore.get_metadata", params=dict(self=PS, key=Str), returns=Meta)
def _(self, key):
    raises(KeyNotFoundStoreException, when=not present(self._store, key), label="as-the-wrapped-store")
    ensures(result == read_meta(self._store.meta, self._store.dirs, key), "exactly-the-wrapped-store's-metadata")


@contract("liquer.store.ProxyStore.contains", params=dict(self=PS, key=Str), returns=Bool)
def _(self, key):
    ensures(result == present(self._store, key), "as-the-wrapped-store")


@contract("liquer.store.ProxyStore.is_dir", params=dict(self=PS, key=Str), returns=Bool)
def _(self, key):
    ensures(result == isdir(self._store, key), "as-the-wrapped-store")


@contract("liquer.store.ProxyStore.keys", params=dict(self=PS), returns=KeyList)
def _(self):
    ensures(elems(result) == keyset(self._store) and distinct(result), "as-the-wrapped-store")


@contract("liquer.store.ProxyStore.listdir", params=dict(self=PS, key=Str), returns=Opt(KeyList))
def _(self, key):
    ensures(isnone(result) == (not isdir(self._store, key)), "as-the-wrapped-store:none-iff-not-a-directory")
    ensures(implies(isdir(self._store, key), elems(unopt(result)) == child_names(self._store, key) and distinct(unopt(result))),
            "as-the-wrapped-store:children")


# ------------------------------------------------------------------ mutators of the read-only view are refused, nothing changes
@contract("liquer.store.ReadOnlyStore.store", params=dict(self=RO, key=Str, data=Bytes, metadata=Meta))
def _(self, key, data, metadata):
    raises(ReadOnlyStoreException, when=True, label="refused")


@contract("liquer.store.ReadOnlyStore.store_metadata", params=dict(self=RO, key=Str, metadata=Meta))
def _(self, key, metadata):
    raises(ReadOnlyStoreException, when=True, label="refused")


@contract("liquer.store.ReadOnlyStore.remove", params=dict(self=RO, key=Str))
def _(self, key):
    raises(ReadOnlyStoreException, when=True, label="refused")


@contract("liquer.store.ReadOnlyStore.removedir", params=dict(self=RO, key=Str, recursive=Bool))
def _(self, key, recursive=False):
    raises(ReadOnlyStoreException, when=True, label="refused")


@contract("liquer.store.ReadOnlyStore.makedir", params=dict(self=RO, key=Str))
def _(self, key):
    raises(ReadOnlyStoreException, when=True, label="refused")


@interface("Store.openbin", params=dict(self=Ref("Store"), key=Str, mode=Str, buffering=Int), returns=Handle)
def _(self, key, mode="r", buffering=-1):
    requires(mode == "r" or mode == "rb", "read-mode-only:a-write-handle-could-change-the-store")


@contract("liquer.store.ReadOnlyStore.openbin", params=dict(self=RO, key=Str, mode=Str, buffering=Int), returns=Handle)
def _(self, key, mode="r", buffering=-1):
    raises(ReadOnlyStoreException, when=not (mode == "r" or mode == "rb"), label="write-modes-refused")


@contract("liquer.store.StoreMixin.read_only", params=dict(self=Ref("Store")), returns=Ref("Store"))
def _(self):
    modifies(self.parent_store)
    ensures(isinst(result, "ReadOnlyStore"), "a-read-only-view")
    ensures(implies(isinst(self, "ReadOnlyStore"), result is self), "idempotent")
    ensures(implies(not isinst(self, "ReadOnlyStore"), fresh_ref(result) and cast(result, "ReadOnlyStore")._store is self), "wraps-this-store")


# ------------------------------------------------------------------ directory store: paths stay inside the root
@contract("liquer.store.FileStore._checked_key", params=dict(self=Ref("FileStore"), key=Str), returns=Str)
def _(self, key):
    raises(KeyNotSupportedStoreException, when=not confined(key), label="absolute-or-dotdot-keys-refused")
    ensures(result == key)


@contract("liquer.store.FileStore.path_for_key", params=dict(self=Ref("FileStore"), key=Opt(Str)), returns=PATH)
def _(self, key):
    k = ite(isnone(key), "", unopt(key))
    raises(KeyNotSupportedStoreException, when=k != "" and not confined(k), label="absolute-or-dotdot-keys-refused")
    raises(AssertionError, label="reserved-metadata-folder-name")
    ensures(inside(self.path, result), "inside-the-root")


@contract("liquer.store.FileStore.metadata_path_for_key", params=dict(self=Ref("FileStore"), key=Opt(Str)), returns=PATH)
def _(self, key):
    raises(KeyNotSupportedStoreException, label="unsafe-key-or-root")
    raises(AssertionError, label="reserved-metadata-folder-name")
    ensures(inside(self.path, result), "inside-the-root")
    ensures(result != self.path, "never-the-root-itself")


prop("C17",
     fucs=["liquer.store.ProxyStore.get_bytes", "liquer.store.ProxyStore.get_metadata", "liquer.store.ProxyStore.contains",
           "liquer.store.ProxyStore.is_dir", "liquer.store.ProxyStore.keys", "liquer.store.ProxyStore.listdir",
           "liquer.store.ReadOnlyStore.store", "liquer.store.ReadOnlyStore.store_metadata", "liquer.store.ReadOnlyStore.remove",
           "liquer.store.ReadOnlyStore.removedir", "liquer.store.ReadOnlyStore.makedir", "liquer.store.ReadOnlyStore.openbin",
           "liquer.store.StoreMixin.read_only",
           "liquer.store.FileStore._checked_key", "liquer.store.FileStore.path_for_key", "liquer.store.FileStore.metadata_path_for_key"],
     static=[("inherits", "ReadOnlyStore", "ProxyStore", ["get_bytes", "get_metadata", "contains", "is_dir", "keys", "listdir"]),
             ("origin", "FileStore", ["path_for_key", "metadata_path_for_key"], ["__init__", "clone"], ["_write_atomically"])])
