"""C07 - the metadata file of a key is named after the key's full name: distinct sibling keys never share a metadata file."""
from pyvc.dsl import *
from pyvc.pathmodel import PATH


@contract("liquer.store.FileStore.metadata_path_for_key@name", params=dict(self=Ref("FileStore"), key=Opt(Str)), returns=PATH)
def _(self, key):
    raises(KeyNotSupportedStoreException, label="unsafe-key-or-root")
    raises(AssertionError, label="reserved-metadata-folder-name")
    ensures(result == pjoin(pjoin(pparent(log_result("FileStore.path_for_key")), self.METADATA), pname(log_result("FileStore.path_for_key")) + ".json"),
            "the-metadata-file-sits-in-the-metadata-folder-beside-the-entry,named-after-the-entry's-full-name")


prop("C07", fucs=["liquer.store.FileStore.metadata_path_for_key@name"])
