"""C10 — evaluation isolation (ownership contracts, DESIGN.md 3.3).

Every value that crosses a boundary named by the property (variable defaults -> a new State/Context, a state -> the in-memory
cache and back, a state -> a command that may mutate it, metadata -> caller) is produced by a deep-copying expression.  The
obligations are decided syntactically on the real source on every run (back end "static"); deepcopy / copy_state_data /
State.clone being deep is assumed (copy_state_data's per-type copies are exercised under C11).  The behaviour itself
(mutate, then re-read) is exercised by the labelled bounded stand-in.
"""
from pyvc.dsl import *

prop("C10", static=[
    ("contains", "liquer.state.vars_clone", "every-new-state-gets-a-deep-copy-of-the-variable-defaults", ["return deepcopy(get_vars())"]),
    ("contains", "liquer.state.State.as_dict", "metadata-is-handed-out-as-a-deep-copy", ["return deepcopy(self.metadata)"]),
    ("contains", "liquer.state.State.from_dict", "metadata-is-taken-in-as-a-deep-copy", ["self.metadata = deepcopy(metadata)"]),
    ("contains", "liquer.state.State.clone", "a-clone-shares-neither-metadata-nor-data",
     ["state = state.from_dict(self.as_dict())", "state.data = copy_state_data(self.data)"]),
    ("contains", "liquer.cache.MemoryCache.store", "the-cache-keeps-its-own-copy", ["self.storage[state.query] = state.clone()"]),
    ("contains", "liquer.cache.MemoryCache.get", "the-cache-hands-out-a-copy", ["return state.clone()"]),
    ("contains", "liquer.context.Context.__init__", "a-context-starts-from-copies-of-the-defaults", ["self.vars = Vars(vars_clone())"]),
    ("contains", "liquer.context.Context.evaluate", "every-evaluation-starts-from-copies-of-the-defaults", ["self.vars = Vars(vars_clone())"]),
    ("contains", "liquer.context.Context.evaluate_action", "a-command-gets-a-clone-of-its-input-unless-volatile",
     ["old_state = state if is_volatile else state.clone()"]),
    ("contains", "liquer.state_types.DictStateType.copy", "dictionary-values-are-copied-in-depth", ["return deepcopy(data)"]),
    ("contains", "liquer.state_types.copy_state_data", "copies-go-through-the-state-type", ["return t.copy(data)"]),
])
