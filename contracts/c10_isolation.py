"""C10 — evaluation isolation (ownership contracts, DESIGN.md 3.3).

Every value that crosses a boundary named by the property (variable defaults -> a new State/Context, a state -> the in-memory
cache and back, a state -> a command that may mutate it, metadata -> caller) is produced by a deep-copying expression.  The
obligations are decided by a data-flow analysis of the real source on every run (back end "static": every value reaching the
named sink - a return, a store to an attribute / item, an argument - is a constant, the result of a deep copier, or a local all of
whose assignments are; locals may be renamed freely); deepcopy / copy_state_data /
State.clone being deep is assumed (copy_state_data's per-type copies are exercised under C11).  The behaviour itself
(mutate, then re-read) is exercised by the labelled bounded stand-in.
"""
from pyvc.dsl import *

prop("C10", static=[
    ("owned", "liquer.state.vars_clone", "every-new-state-gets-a-deep-copy-of-the-variable-defaults", "return"),
    ("owned", "liquer.state.State.as_dict", "metadata-is-handed-out-as-a-deep-copy", "return"),
    ("owned", "liquer.state.State.from_dict", "metadata-is-taken-in-as-a-deep-copy", "attr:metadata"),
    ("owned", "liquer.state.State.clone", "a-clone-does-not-share-its-data", "attr:data"),
    ("owned", "liquer.state.State.clone", "a-clone-does-not-share-its-metadata", "arg:from_dict:0"),
    ("owned", "liquer.state.State.clone", "a-clone-is-a-new-object", "return"),
    ("owned", "liquer.cache.MemoryCache.store", "the-cache-keeps-its-own-copy", "item:storage"),
    ("owned", "liquer.cache.MemoryCache.get", "the-cache-hands-out-a-copy", "return"),
    ("owned", "liquer.cache.MemoryCache.store_metadata", "the-cache-keeps-its-own-copy-of-the-metadata", "attr:metadata"),
    ("owned", "liquer.cache.MemoryCache.get_metadata", "the-cache-hands-out-a-copy-of-the-metadata", "return"),
    ("owned", "liquer.context.Context.__init__", "a-context-starts-from-copies-of-the-defaults", "attr:vars"),
    ("contains", "liquer.context.Context.evaluate", "every-evaluation-starts-from-copies-of-the-defaults", ["self.vars = Vars(vars_clone())"]),
    ("owned", "liquer.context.Context.evaluate_action", "a-command-gets-a-clone-of-its-input-unless-volatile", "kwcall:context:0", "is_volatile"),
    ("owned", "liquer.state_types.copy_state_data", "copies-go-through-the-state-type", "return"),
    ("owned", "liquer.state_types.StateType.copy", "the-default-copy-is-a-serialisation-round-trip", "return"),
    ("owned", "liquer.state_types.DictStateType.copy", "dictionary-values-are-copied-in-depth", "return"),
    ("owned", "liquer.state_types.JsonStateType.copy", "generic-values-are-copied-in-depth", "return"),
    ("owned", "liquer.state_types.PickleStateType.copy", "pickled-values-are-copied-in-depth", "return"),
    ("owned", "liquer.state_types.BytesStateType.copy", "bytes-are-copied", "return"),
])

# C18: the copy of the metadata the in-memory cache keeps agrees with the returned one only as long as nobody else can change it - the
# evaluator goes on writing into the state it handed to the cache (file name step, `created`, status)
prop("C18", static=[
    ("owned", "liquer.cache.MemoryCache.store", "the-cache-keeps-its-own-copy", "item:storage"),
    ("owned", "liquer.cache.MemoryCache.store_metadata", "the-cache-keeps-its-own-copy-of-the-metadata", "attr:metadata"),
    ("owned", "liquer.cache.MemoryCache.get", "the-cache-hands-out-a-copy", "return"),
])
