"""C01 (query decomposition) — Context.evaluate recurses on (predecessor, last step); these contracts pin the decomposition:
   predecessor.actions ++ [last] == actions, the file name is peeled first, header / absoluteness are preserved.
C06 (exact part) — State.get fails for an error state and hands out the data otherwise.
C18 (exact part) — State.with_filename records the file name and derives extension and media type from it."""
from pyvc.dsl import *
from contracts.c13_caches import SMeta, Data, ST, state_wf

TQ = Ref("TransformQuerySegment")
SeqAR = Seq(Ref("ActionRequest"))


@contract("liquer.parser.TransformQuerySegment.predecessor", params=dict(self=TQ), returns=Tuple(Opt(TQ), Opt(TQ)))
def _(self):
    ensures(implies(isnone(self.filename) and len(self.query) == 0, isnone(result[0]) and isnone(result[1])), "nothing-to-peel")
    ensures(implies(not isnone(self.filename) or len(self.query) > 0, not isnone(result[0]) and not isnone(result[1])), "a-pair")
    ensures(implies(isnone(self.filename) and len(self.query) > 0,
                    unopt(result[0]).query + unopt(result[1]).query == self.query and len(unopt(result[1]).query) == 1
                    and isnone(unopt(result[0]).filename) and isnone(unopt(result[1]).filename)), "last-action-peeled:prefix-plus-last-is-the-query")
    ensures(implies(not isnone(self.filename),
                    unopt(result[0]).query == self.query and isnone(unopt(result[0]).filename)
                    and len(unopt(result[1]).query) == 0 and unopt(result[1]).filename == self.filename), "file-name-peeled-first")
    ensures(implies(not isnone(result[0]), unopt(result[0]).header == self.header and unopt(result[1]).header == self.header), "header-preserved")
    ensures(self.query == old(self.query) and self.filename == old(self.filename), "the-segment-itself-is-not-changed")


inline("liquer.parser.TransformQuerySegment.is_empty")


@contract("liquer.parser.Query.predecessor", params=dict(self=Ref("Query")), returns=Tuple(Opt(Ref("Query")), Opt(TQ)))
def _(self):
    n = len(self.segments)
    last_is_transform = n > 0 and isinst(self.segments[-1], "TransformQuerySegment")
    ensures(implies(not last_is_transform, isnone(result[0]) and isnone(result[1])), "only-transformations-are-decomposed")
    ensures(implies(last_is_transform, not isnone(result[0])), "a-predecessor-query")
    ensures(implies(last_is_transform, unopt(result[0]).absolute == self.absolute), "absoluteness-preserved")
    ensures(implies(last_is_transform, unopt(result[0]).segments[:n - 1] == self.segments[:n - 1]
                    and (len(unopt(result[0]).segments) == n or len(unopt(result[0]).segments) == n - 1)), "earlier-segments-untouched")
    ensures(self.segments == old(self.segments), "the-query-itself-is-not-changed")


# ------------------------------------------------------------------ State.get / with_filename
classdef("StateX", fields={})


@contract("liquer.state.State.get", params=dict(self=ST), returns=Data, opaque={"join": Str, "from_dict": Opaque("Any"), "get": Opaque("Any")})
def _(self):
    requires(rec_has(self.metadata, "is_error"))
    raises(Exception, when=rec_get(self.metadata, "is_error"), label="an-error-state-never-hands-out-data")
    invariant(0, lambda: True, "no-state-change")
    ensures(result == self.data, "the-data")


@spec(params=dict(extension=Opt(Str)), returns=Str, uninterpreted=True)
def mime_of(extension):
    return mime_of(extension)


@assumed("liquer.constants.mimetype_from_extension", params=dict(extension=Opt(Str), default=Str), returns=Str, pure=True, functional="mime_of")
def _(extension, default="application/octet-stream"):
    pass


inline("liquer.state.State.extension")


@contract("liquer.state.State.with_filename", params=dict(self=ST, filename=Str), returns=ST)
def _(self, filename):
    modifies(self.metadata)
    ensures(result is self, "fluent")
    ensures(rec_has(self.metadata, "filename") and rec_get(self.metadata, "filename") == some(filename), "file-name-recorded")
    ensures(implies(has(filename, "."), rec_has(self.metadata, "extension")
                    and rec_get(self.metadata, "extension") == lower(str_last(filename, "."))), "extension-is-the-lower-cased-last-dotted-part")
    ensures(implies(has(filename, "."), rec_has(self.metadata, "mimetype")
                    and rec_get(self.metadata, "mimetype") == some(mime_of(some(lower(str_last(filename, ".")))))), "media-type-of-that-extension")
    ensures(implies(not has(filename, "."), self.metadata == rec_set(old(self.metadata), "filename", some(filename))), "nothing-else-changes-without-an-extension")
    ensures(implies(old(state_wf(self.metadata)), state_wf(self.metadata))
            and implies(old(rec_has(self.metadata, "is_error")), rec_has(self.metadata, "is_error")
                        and rec_get(self.metadata, "is_error") == old(rec_get(self.metadata, "is_error"))), "the-standard-keys-and-the-error-flag-are-kept")


prop("C18", fucs=["liquer.state.State.with_filename"])
prop("C01", fucs=["liquer.parser.TransformQuerySegment.predecessor", "liquer.parser.Query.predecessor"])
prop("C06", fucs=["liquer.state.State.get"])
