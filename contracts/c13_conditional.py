"""C13 — the conditional wrappers (cache.if_attribute_equal(..) etc.): reads are the wrapped cache's; a store either goes to the wrapped
cache unchanged or is refused - and a refusal leaves nothing stale under the key (the entry is removed first); store_metadata is
forwarded or refused.  The attribute test itself (metadata['attributes'] is an opaque dictionary) is opaque: the clauses hold for
every outcome of the test.
"""
from pyvc.dsl import *
from contracts.c13_caches import SMeta, Data, ST, retrievable, accepted, admissible, made_ready

Any = Opaque("Any")
classdef("liquer.cache.CacheAttributeCondition", bases=["Cache"], fields=dict(cache=Ref("Cache"), attribute=Str, value=Any, equals=Bool))
CA = Ref("CacheAttributeCondition")
inline("liquer.state.State.query")


@contract("liquer.cache.CacheAttributeCondition.get", params=dict(self=CA, key=Str), returns=Opt(ST))
def _(self, key):
    ensures(isnone(result) == (not retrievable(self.cache, key)), "as-the-wrapped-cache")
    ensures(implies(not isnone(result), unopt(result).data == mapget(self.cache.cdata, key)
                    and unopt(result).metadata == mapget(self.cache.cmeta, key)), "as-the-wrapped-cache:value")


@contract("liquer.cache.CacheAttributeCondition.remove", params=dict(self=CA, key=Str), returns=Bool)
def _(self, key):
    modifies(self.cache.cmeta, self.cache.cdata)
    ensures(self.cache.cmeta == mapdel(old(self.cache.cmeta), key) and self.cache.cdata == mapdel(old(self.cache.cdata), key), "removed-from-the-wrapped-cache")


@contract("liquer.cache.CacheAttributeCondition.contains", params=dict(self=CA, key=Str), returns=Bool)
def _(self, key):
    ensures(log_count("Cache.contains") == 1 and log_arg("Cache.contains", "key") == key and result == log_result("Cache.contains"), "as-the-wrapped-cache")


@contract("liquer.cache.CacheAttributeCondition.store", params=dict(self=CA, state=ST), returns=Opt(Bool), opaque={"get": Any})
def _(self, state):
    requires(admissible(state.metadata), "admissible:the-caller-hands-over-only-finished-successful-non-volatile-results")
    requires(rec_has(state.metadata, "is_error") and rec_has(state.metadata, "query"))
    q = rec_get(state.metadata, "query")
    modifies(self.cache.cmeta, self.cache.cdata, state.metadata)
    ensures(implies(accepted(result), retrievable(self.cache, old(q)) and mapget(self.cache.cdata, old(q)) == old(state.data)),
            "an-accepted-value-is-what-get-serves")
    ensures(implies(not accepted(result), not retrievable(self.cache, old(q))), "a-refused-value-leaves-nothing-stale")
    k0 = const(Str, "k0")
    ensures(implies(k0 != old(q), has(self.cache.cdata, k0) == old(has(self.cache.cdata, k0))
                    and mapget(self.cache.cdata, k0) == old(mapget(self.cache.cdata, k0))), "other-keys-untouched")


classdef("liquer.cache.CacheIfHasAttributes", bases=["Cache"], fields=dict(cache=Ref("Cache"), attributes=Seq(Str)))
classdef("liquer.cache.CacheIfHasNotAttributes", bases=["Cache"], fields=dict(cache=Ref("Cache"), attributes=Seq(Str)))


@contract("liquer.cache.CacheIfHasAttributes.remove", params=dict(self=Ref("CacheIfHasAttributes"), key=Str), returns=Bool)
def _(self, key):
    modifies(self.cache.cmeta, self.cache.cdata)
    ensures(self.cache.cmeta == mapdel(old(self.cache.cmeta), key) and self.cache.cdata == mapdel(old(self.cache.cdata), key), "removed-from-the-wrapped-cache")


@contract("liquer.cache.CacheIfHasAttributes.get", params=dict(self=Ref("CacheIfHasAttributes"), key=Str), returns=Opt(ST))
def _(self, key):
    ensures(isnone(result) == (not retrievable(self.cache, key)), "as-the-wrapped-cache")
    ensures(implies(not isnone(result), unopt(result).data == mapget(self.cache.cdata, key)
                    and unopt(result).metadata == mapget(self.cache.cmeta, key)), "as-the-wrapped-cache:value")


@contract("liquer.cache.CacheIfHasNotAttributes.remove", params=dict(self=Ref("CacheIfHasNotAttributes"), key=Str), returns=Bool)
def _(self, key):
    modifies(self.cache.cmeta, self.cache.cdata)
    ensures(self.cache.cmeta == mapdel(old(self.cache.cmeta), key) and self.cache.cdata == mapdel(old(self.cache.cdata), key), "removed-from-the-wrapped-cache")


@contract("liquer.cache.CacheIfHasNotAttributes.get", params=dict(self=Ref("CacheIfHasNotAttributes"), key=Str), returns=Opt(ST))
def _(self, key):
    ensures(isnone(result) == (not retrievable(self.cache, key)), "as-the-wrapped-cache")
    ensures(implies(not isnone(result), unopt(result).data == mapget(self.cache.cdata, key)
                    and unopt(result).metadata == mapget(self.cache.cmeta, key)), "as-the-wrapped-cache:value")


@contract("liquer.cache.CacheIfHasAttributes.store", params=dict(self=Ref("CacheIfHasAttributes"), state=ST), returns=Opt(Bool), opaque={"get": Any, "all": Bool})
def _(self, state):
    requires(admissible(state.metadata), "admissible:the-caller-hands-over-only-finished-successful-non-volatile-results")
    requires(rec_has(state.metadata, "is_error") and rec_has(state.metadata, "query"))
    q = rec_get(state.metadata, "query")
    modifies(self.cache.cmeta, self.cache.cdata, state.metadata)
    ensures(implies(accepted(result), retrievable(self.cache, old(q)) and mapget(self.cache.cdata, old(q)) == old(state.data)),
            "an-accepted-value-is-what-get-serves")
    ensures(implies(not accepted(result), not retrievable(self.cache, old(q))), "a-refused-value-leaves-nothing-stale")


@contract("liquer.cache.CacheIfHasNotAttributes.store", params=dict(self=Ref("CacheIfHasNotAttributes"), state=ST), returns=Opt(Bool), opaque={"get": Any, "any": Bool, "all": Bool})
def _(self, state):
    requires(admissible(state.metadata), "admissible:the-caller-hands-over-only-finished-successful-non-volatile-results")
    requires(rec_has(state.metadata, "is_error") and rec_has(state.metadata, "query"))
    q = rec_get(state.metadata, "query")
    modifies(self.cache.cmeta, self.cache.cdata, state.metadata)
    ensures(implies(accepted(result), retrievable(self.cache, old(q)) and mapget(self.cache.cdata, old(q)) == old(state.data)),
            "an-accepted-value-is-what-get-serves")
    ensures(implies(not accepted(result), not retrievable(self.cache, old(q))), "a-refused-value-leaves-nothing-stale")


prop("C13", fucs=["liquer.cache.CacheAttributeCondition.get", "liquer.cache.CacheAttributeCondition.remove",
                  "liquer.cache.CacheAttributeCondition.contains", "liquer.cache.CacheAttributeCondition.store",
                  "liquer.cache.CacheIfHasAttributes.get", "liquer.cache.CacheIfHasAttributes.remove", "liquer.cache.CacheIfHasAttributes.store",
                  "liquer.cache.CacheIfHasNotAttributes.get", "liquer.cache.CacheIfHasNotAttributes.remove", "liquer.cache.CacheIfHasNotAttributes.store"])
