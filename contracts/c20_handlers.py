"""C20 — the Flask handlers of the store / cache API are forwarders (deductive part, handler level).

Each handler under contract calls exactly one operation of the process-wide store (or cache) - the one its route names - with
the key taken from the URL unchanged, reports the value that operation returned in the field the client reads, and answers with the
declared error document (status "ERROR") exactly when the operation failed.  The store behind `get_store()` is abstract here
(`WebStore`: every operation may raise and may change anything), so the contracts hold for every store composition.
Routing, WSGI decoding and `jsonify` itself are Flask's (assumed; exercised by the labelled bounded stand-in with the test client).
"""
from pyvc.dsl import *

Any = Opaque("Any")
classdef("HttpAnswer", sealed=True, fields={})        # what a handler returns: a data response or a json document
classdef("JsonResponse", bases=["HttpAnswer"], fields=dict(status=Str))      # what jsonify returns: a response object whose HTTP status a handler may set
Response = Ref("JsonResponse")
KeyList = ListOfSet(Str)
Answer = Rec("WebAnswer", dict(query=Opt(Str), message=Str, status=Str, contains=Bool, is_dir=Bool, keys=KeyList, listdir=Opt(KeyList),
                               removed=Any, cached=Any))

classdef("WebStore", abstract=True, fields={})
classdef("WebCache", abstract=True, fields={})
WS = Ref("WebStore")
WC = Ref("WebCache")


@assumed("liquer.store.get_store", params={}, returns=WS)
def _():
    pass


@assumed("liquer.cache.get_cache", params={}, returns=WC)
def _():
    pass


@assumed("flask.jsonify", params=dict(d=Answer), returns=Response, returns_fresh=True)
def _(d):
    pass


@assumed("traceback.format_exc", params={}, returns=Str)
def _():
    pass


@interface("WebStore.remove", params=dict(self=WS, key=Str))
def _(self, key):
    raises(Exception, label="any-failure-of-the-store")
    modifies_all()


@interface("WebStore.removedir", params=dict(self=WS, key=Str))
def _(self, key):
    raises(Exception, label="any-failure-of-the-store")
    modifies_all()


@interface("WebStore.makedir", params=dict(self=WS, key=Str))
def _(self, key):
    raises(Exception, label="any-failure-of-the-store")
    modifies_all()


@interface("WebStore.contains", params=dict(self=WS, key=Str), returns=Bool)
def _(self, key):
    raises(Exception, label="any-failure-of-the-store")
    modifies_all()


@interface("WebStore.is_dir", params=dict(self=WS, key=Str), returns=Bool)
def _(self, key):
    raises(Exception, label="any-failure-of-the-store")
    modifies_all()


@interface("WebStore.listdir", params=dict(self=WS, key=Str), returns=Opt(KeyList))
def _(self, key):
    raises(Exception, label="any-failure-of-the-store")
    modifies_all()


@interface("WebStore.keys", params=dict(self=WS), returns=KeyList)
def _(self):
    raises(Exception, label="any-failure-of-the-store")
    modifies_all()


@interface("WebCache.remove", params=dict(self=WC, key=Str), returns=Any)
def _(self, key):
    modifies_all()


@interface("WebCache.contains", params=dict(self=WC, key=Str), returns=Any)
def _(self, key):
    modifies_all()


@contract("liquer.server.blueprint.store_remove", params=dict(query=Str), returns=Response)
def _(query):
    ensures(log_count("WebStore.remove") == 1 and log_arg("WebStore.remove", "key") == query
            and log_arg("WebStore.remove", "self") == log_result("liquer.store.get_store"),
            "exactly-one-remove-of-the-process-store-with-the-key-as-given")
    ensures(log_count("flask.jsonify") == 1 and result == log_result("flask.jsonify"), "answers-with-one-json-document")
    ensures(rec_get(log_arg("flask.jsonify", "d"), "status") == ite(log_raised("WebStore.remove"), "ERROR", "OK"),
            "status-ERROR-exactly-when-the-operation-failed")
    ensures(rec_get(log_arg("flask.jsonify", "d"), "query") == some(query), "names-the-key")


@contract("liquer.server.blueprint.store_removedir", params=dict(query=Str), returns=Response)
def _(query):
    ensures(log_count("WebStore.removedir") == 1 and log_arg("WebStore.removedir", "key") == query
            and log_arg("WebStore.removedir", "self") == log_result("liquer.store.get_store"),
            "exactly-one-removedir-of-the-process-store-with-the-key-as-given")
    ensures(log_count("flask.jsonify") == 1 and result == log_result("flask.jsonify"), "answers-with-one-json-document")
    ensures(rec_get(log_arg("flask.jsonify", "d"), "status") == ite(log_raised("WebStore.removedir"), "ERROR", "OK"),
            "status-ERROR-exactly-when-the-operation-failed")
    ensures(rec_get(log_arg("flask.jsonify", "d"), "query") == some(query), "names-the-key")


@contract("liquer.server.blueprint.store_makedir", params=dict(query=Str), returns=Response)
def _(query):
    ensures(log_count("WebStore.makedir") == 1 and log_arg("WebStore.makedir", "key") == query
            and log_arg("WebStore.makedir", "self") == log_result("liquer.store.get_store"),
            "exactly-one-makedir-of-the-process-store-with-the-key-as-given")
    ensures(log_count("flask.jsonify") == 1 and result == log_result("flask.jsonify"), "answers-with-one-json-document")
    ensures(rec_get(log_arg("flask.jsonify", "d"), "status") == ite(log_raised("WebStore.makedir"), "ERROR", "OK"),
            "status-ERROR-exactly-when-the-operation-failed")
    ensures(rec_get(log_arg("flask.jsonify", "d"), "query") == some(query), "names-the-key")


@contract("liquer.server.blueprint.store_contains", params=dict(query=Str), returns=Response)
def _(query):
    ensures(log_count("WebStore.contains") == 1 and log_arg("WebStore.contains", "key") == query
            and log_arg("WebStore.contains", "self") == log_result("liquer.store.get_store"),
            "exactly-one-contains-of-the-process-store-with-the-key-as-given")
    ensures(log_count("flask.jsonify") == 1 and result == log_result("flask.jsonify"), "answers-with-one-json-document")
    ensures(rec_get(log_arg("flask.jsonify", "d"), "status") == ite(log_raised("WebStore.contains"), "ERROR", "OK"),
            "status-ERROR-exactly-when-the-operation-failed")
    ensures(rec_get(log_arg("flask.jsonify", "d"), "query") == some(query), "names-the-key")
    ensures(implies(not log_raised("WebStore.contains"), rec_has(log_arg("flask.jsonify", "d"), "contains")
                    and rec_get(log_arg("flask.jsonify", "d"), "contains") == log_result("WebStore.contains")), "reports-what-the-store-answered")


@contract("liquer.server.blueprint.store_is_dir", params=dict(query=Str), returns=Response)
def _(query):
    ensures(log_count("WebStore.is_dir") == 1 and log_arg("WebStore.is_dir", "key") == query
            and log_arg("WebStore.is_dir", "self") == log_result("liquer.store.get_store"),
            "exactly-one-is_dir-of-the-process-store-with-the-key-as-given")
    ensures(log_count("flask.jsonify") == 1 and result == log_result("flask.jsonify"), "answers-with-one-json-document")
    ensures(rec_get(log_arg("flask.jsonify", "d"), "status") == ite(log_raised("WebStore.is_dir"), "ERROR", "OK"),
            "status-ERROR-exactly-when-the-operation-failed")
    ensures(rec_get(log_arg("flask.jsonify", "d"), "query") == some(query), "names-the-key")
    ensures(implies(not log_raised("WebStore.is_dir"), rec_has(log_arg("flask.jsonify", "d"), "is_dir")
                    and rec_get(log_arg("flask.jsonify", "d"), "is_dir") == log_result("WebStore.is_dir")), "reports-what-the-store-answered")


@contract("liquer.server.blueprint.store_listdir", params=dict(query=Str), returns=Response)
def _(query):
    ensures(log_count("WebStore.listdir") == 1 and log_arg("WebStore.listdir", "key") == query
            and log_arg("WebStore.listdir", "self") == log_result("liquer.store.get_store"),
            "exactly-one-listdir-of-the-process-store-with-the-key-as-given")
    ensures(log_count("flask.jsonify") == 1 and result == log_result("flask.jsonify"), "answers-with-one-json-document")
    ensures(rec_get(log_arg("flask.jsonify", "d"), "status") == ite(log_raised("WebStore.listdir"), "ERROR", "OK"),
            "status-ERROR-exactly-when-the-operation-failed")
    ensures(rec_get(log_arg("flask.jsonify", "d"), "query") == some(query), "names-the-key")
    ensures(implies(not log_raised("WebStore.listdir"), rec_has(log_arg("flask.jsonify", "d"), "listdir")
                    and rec_get(log_arg("flask.jsonify", "d"), "listdir") == log_result("WebStore.listdir")), "reports-what-the-store-answered")


@contract("liquer.server.blueprint.store_keys", params={}, returns=Response)
def _():
    ensures(log_count("WebStore.keys") == 1 and log_arg("WebStore.keys", "self") == log_result("liquer.store.get_store"),
            "exactly-one-keys-of-the-process-store")
    ensures(log_count("flask.jsonify") == 1 and result == log_result("flask.jsonify"), "answers-with-one-json-document")
    ensures(rec_get(log_arg("flask.jsonify", "d"), "status") == ite(log_raised("WebStore.keys"), "ERROR", "OK"),
            "status-ERROR-exactly-when-the-operation-failed")
    ensures(implies(not log_raised("WebStore.keys"), rec_has(log_arg("flask.jsonify", "d"), "keys")
                    and elems(rec_get(log_arg("flask.jsonify", "d"), "keys")) == elems(log_result("WebStore.keys"))), "reports-exactly-the-keys-the-store-listed")


@contract("liquer.server.blueprint.cache_remove", params=dict(query=Str), returns=Response)
def _(query):
    ensures(log_count("WebCache.remove") == 1 and log_arg("WebCache.remove", "key") == query
            and log_arg("WebCache.remove", "self") == log_result("liquer.cache.get_cache"), "exactly-one-remove-of-the-process-cache-with-the-key-as-given")
    ensures(log_count("flask.jsonify") == 1 and result == log_result("flask.jsonify"), "answers-with-one-json-document")
    ensures(rec_get(log_arg("flask.jsonify", "d"), "removed") == log_result("WebCache.remove")
            and rec_get(log_arg("flask.jsonify", "d"), "query") == some(query), "reports-what-the-cache-answered")


@contract("liquer.server.blueprint.cache_contains", params=dict(query=Str), returns=Response)
def _(query):
    ensures(log_count("WebCache.contains") == 1 and log_arg("WebCache.contains", "key") == query
            and log_arg("WebCache.contains", "self") == log_result("liquer.cache.get_cache"), "exactly-one-contains-of-the-process-cache-with-the-key-as-given")
    ensures(log_count("flask.jsonify") == 1 and result == log_result("flask.jsonify"), "answers-with-one-json-document")
    ensures(rec_get(log_arg("flask.jsonify", "d"), "cached") == log_result("WebCache.contains")
            and rec_get(log_arg("flask.jsonify", "d"), "query") == some(query), "reports-what-the-cache-answered")


prop("C20", fucs=["liquer.server.blueprint.store_remove", "liquer.server.blueprint.store_removedir", "liquer.server.blueprint.store_makedir", "liquer.server.blueprint.store_contains", "liquer.server.blueprint.store_is_dir", "liquer.server.blueprint.store_listdir", "liquer.server.blueprint.store_keys",
                  "liquer.server.blueprint.cache_remove", "liquer.server.blueprint.cache_contains"])
