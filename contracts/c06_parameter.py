"""C06 — a failing link argument (Context.evaluate_parameter): the failure is logged and surfaces as an EvaluationException that names
the query being evaluated (not its parent, not the link) and the position of the failing argument; a link that failed never yields a
value.  String arguments pass through untouched.  The sub-evaluation itself (evaluate / apply) is used through its contract (apply: contracts/c06_apply.py)."""
from pyvc.dsl import *
from contracts.c13_caches import SMeta, Data, ST
from contracts.c05_evaluate import CX, Any

AP = Ref("ActionParameter")


@contract("liquer.context.Context.evaluate_parameter@failure", params=dict(self=CX, p=AP, action=Ref("ActionRequest")), returns=AP,
          opaque={"append": NoneT, "debug": NoneT, "store_metadata": NoneT, "encode": Str, "ExpandedActionParameter": Ref("ExpandedActionParameter")})
def _(self, p, action):
    requires(not isnone(self.query), "called-while-the-context-evaluates-a-query")
    raises(EvaluationException, label="a-link-argument-failed-or-the-parameter-kind-is-unknown")
    raises(Exception, label="the-sub-evaluation-raised")
    modifies_any("State.metadata")
    modifies_any("State.status")
    modifies_any("State.context")
    modifies_all(self)
    modifies_any("Cache.cmeta")
    modifies_any("Cache.cdata")
    ensures(implies(isinst(p, "StringActionParameter"), result is p and log_count("Context.evaluate") == 0 and log_count("Context.apply") == 0),
            "a-string-argument-passes-through")
    ensures(implies(isinst(p, "LinkActionParameter"), log_count("Context.evaluate") + log_count("Context.apply") == 1
                    and log_count("MetadataContextMixin.error") == 0), "a-link-is-evaluated-once,and-a-returned-value-means-it-succeeded")
    # an exception that comes up from the sub-evaluation itself passes through unchanged (it names the nested query and the position in it);
    # the two clauses below are about the exception made HERE, after the sub-evaluation returned a failed state
    ensures(implies(log_raised("Context.evaluate") + log_raised("Context.apply") == 0, raised("query") == old(self.raw_query)),
            "onraise:EvaluationException:the-exception-names-the-query-being-evaluated")
    ensures(implies(isinst(p, "LinkActionParameter") and log_raised("Context.evaluate") + log_raised("Context.apply") == 0,
                    raised("position") == p.position and log_count("MetadataContextMixin.error") == 1
                    and log_arg("MetadataContextMixin.error", "query") == old(self.raw_query)
                    and log_arg("MetadataContextMixin.error", "position") == p.position),
            "onraise:EvaluationException:the-failure-is-logged-and-reported-at-the-position-of-the-failing-argument")


prop("C06", fucs=["liquer.context.Context.evaluate_parameter@failure"])
# C01: every occurrence of a link argument is evaluated (once) in its own place - never replaced by a value computed elsewhere
prop("C01", fucs=["liquer.context.Context.evaluate_parameter@failure"])
