"""C08 (store side of an evaluation) — Context._store_state: a result evaluated "into" a store key is written under exactly that
key, to the store the caller named (or the process store), once: bytes + metadata for a successful result, metadata only for a failed
one or when serialisation fails.  Context.evaluate hands every result it serves or computes to this function
(`post:C08:every-result-served-or-computed-is-handed-to-the-store-writer` of the evaluate slice).
The target store is abstract (TargetStore: any store; every operation may fail).
"""
from pyvc.dsl import *
from contracts.c13_caches import SMeta, Data, ST
from contracts.c05_evaluate import CX, Any

TS = Ref("TargetStore")
classdef("liquer.metadata.Metadata", fields=dict(status=Str))      # the wrapper used to record a serialisation failure


@assumed("liquer.context.Context.store", params=dict(self=CX), returns=TS)
def _(self):
    """the process store (get_store())"""
    pass


@interface("TargetStore.store", params=dict(self=TS, key=Str, data=Bytes, metadata=SMeta))
def _(self, key, data, metadata):
    raises(Exception, label="any-failure-of-the-store")


@interface("TargetStore.store_metadata", params=dict(self=TS, key=Str, metadata=SMeta))
def _(self, key, metadata):
    pass


@interface("TargetStore.contains", params=dict(self=TS, key=Str), returns=Bool)
def _(self, key):
    raises(Exception, label="any-failure-of-the-store")


@interface("TargetStore.is_dir", params=dict(self=TS, key=Str), returns=Bool)
def _(self, key):
    raises(Exception, label="any-failure-of-the-store")


@assumed("liquer.metadata.Metadata.__init__", params=dict(self=Ref("Metadata"), metadata=SMeta))
def _(self, metadata=None):
    modifies(self.status)


@assumed("liquer.metadata.Metadata.exception", params=dict(self=Ref("Metadata"), message=Str, traceback=Str, position=Any, query=Any))
def _(self, message, traceback, position=None, query=None):
    pass


@assumed("liquer.metadata.Metadata.as_dict", params=dict(self=Ref("Metadata")), returns=SMeta)
def _(self):
    pass


@contract("liquer.context.Context._store_state", params=dict(self=CX, state=ST),
          opaque={"state_types_registry": Any, "get": Any, "key_extension": Opt(Str), "encode_state_data": (Tuple(Bytes, Any, Any), ["Exception"]),
                  "print_exc": NoneT, "format_exc": Str})
def _(self, state):
    requires(rec_has(state.metadata, "is_error"), "a-state-made-by-State()")
    k = self.store_key
    failed = rec_get(state.metadata, "is_error")
    ensures(implies(isnone(k), log_count("TargetStore.store") + log_count("TargetStore.store_metadata") == 0), "without-a-store-key-nothing-is-written")
    ensures(implies(not isnone(k) and failed, log_count("TargetStore.store") == 0 and log_count("TargetStore.store_metadata") == 1
                    and log_arg("TargetStore.store_metadata", "key") == unopt(k)
                    and log_arg("TargetStore.store_metadata", "metadata") == state.metadata),
            "a-failed-result-leaves-its-metadata-under-the-key")
    ensures(implies(not isnone(k) and not failed, log_count("TargetStore.store") <= 1
                    and (log_count("TargetStore.store") == 1 or log_count("TargetStore.store_metadata") == 1)),
            "a-successful-result-is-written-once-or-its-failure-to-serialise-is-recorded")
    ensures(implies(log_count("TargetStore.store") == 1, log_arg("TargetStore.store", "key") == unopt(k)
                    and log_arg("TargetStore.store", "metadata") == state.metadata), "bytes-and-the-state's-metadata-go-under-exactly-the-store-key")
    ensures(implies(log_count("TargetStore.store") == 1 and log_raised("TargetStore.store") == 0, log_count("TargetStore.store_metadata") == 0),
            "nothing-overwrites-a-successful-write")
    ensures(implies(log_count("TargetStore.store_metadata") == 1, log_arg("TargetStore.store_metadata", "key") == unopt(k)), "error-metadata-goes-under-the-same-key")
    ensures(implies(log_count("TargetStore.store") == 1 and not isnone(self.store_to), log_arg("TargetStore.store", "self") is unopt(self.store_to))
            and implies(log_count("TargetStore.store") == 1 and isnone(self.store_to), log_arg("TargetStore.store", "self") is log_result("Context.store")),
            "written-to-the-store-the-caller-named,else-to-the-process-store")


prop("C08", fucs=["liquer.context.Context._store_state", "liquer.context.Context.evaluate"])
