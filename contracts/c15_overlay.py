"""C15 — OverlayStore: copy-on-write view that never touches the fall-back.

Every method of liquer.store.OverlayStore is verified against the abstract view
   ov(k) = absent                      if k is tombstoned (in `removed`)
         = the overlay's entry for k   if the overlay has k
         = the fall-back's entry for k otherwise
using only the *interface contracts* of the two wrapped stores (contracts/stores.py), so the proof
holds for memory and directory stores (or any other Store) in either role.  The frame of every
method excludes the fall-back; `fallback-untouched` postconditions make that explicit.
"""
from pyvc.dsl import *
from contracts.stores import Meta, KeyList

classdef("liquer.store.OverlayStore", bases=["Store"],
         fields=dict(overlay=Ref("Store"), fallback=Ref("Store"), removed=Set(Str)))

OV = Ref("OverlayStore")


@spec(params=dict(o=OV, k=Str), returns=Bool, macro=True)
def ov_present(o, k):
    return not has(o.removed, k) and (present(o.overlay, k) or present(o.fallback, k))


@spec(params=dict(o=OV, k=Str), returns=Bool, macro=True)
def ov_isdir(o, k):
    return not has(o.removed, k) and (isdir(o.overlay, k) if present(o.overlay, k) else isdir(o.fallback, k))


@spec(params=dict(o=OV, k=Str), returns=Bool, macro=True)
def ov_has_data(o, k):
    return not has(o.removed, k) and (has(o.overlay.data, k) if present(o.overlay, k) else has(o.fallback.data, k))


@spec(params=dict(o=OV, k=Str), returns=Bytes, macro=True)
def ov_data(o, k):
    return mapget(o.overlay.data, k) if present(o.overlay, k) else mapget(o.fallback.data, k)


@spec(params=dict(o=OV, k=Str), returns=Meta, macro=True)
def ov_meta(o, k):
    return read_meta(o.overlay.meta, o.overlay.dirs, k) if present(o.overlay, k) \
        else read_meta(o.fallback.meta, o.fallback.dirs, k)


@spec(params=dict(o=OV), returns=Bool, macro=True)
def ov_inv(o):
    """class invariant: two distinct wrapped stores, neither stores the root key explicitly"""
    return o.overlay is not o.fallback and wf(o.overlay) and wf(o.fallback) and not has(o.removed, "") \
        and inter(o.removed, keyset(o.overlay)) == emptyset(Str)


# ------------------------------------------------------------------ reads
@contract("liquer.store.OverlayStore.get_bytes", params=dict(self=OV, key=Str), returns=Bytes)
def _(self, key):
    requires(ov_inv(self))
    raises(KeyNotFoundStoreException, when=not ov_has_data(self, key), label="fails-when-absent-or-removed")
    ensures(result == ov_data(self, key), "reads-latest")


@contract("liquer.store.OverlayStore.get_metadata", params=dict(self=OV, key=Str), returns=Meta)
def _(self, key):
    requires(ov_inv(self))
    raises(KeyNotFoundStoreException, when=not ov_present(self, key), label="fails-when-absent-or-removed")
    ensures(result == ov_meta(self, key), "reads-latest")


@contract("liquer.store.OverlayStore.contains", params=dict(self=OV, key=Str), returns=Bool)
def _(self, key):
    requires(ov_inv(self))
    ensures(result == ov_present(self, key), "view")


@contract("liquer.store.OverlayStore.is_dir", params=dict(self=OV, key=Str), returns=Bool)
def _(self, key):
    requires(ov_inv(self))
    ensures(result == ov_isdir(self, key), "view")


@contract("liquer.store.OverlayStore.keys", params=dict(self=OV), returns=KeyList)
def _(self):
    requires(ov_inv(self))
    ensures(elems(result) == setof(lambda k: k != "" and ov_present(self, k)), "exactly-the-visible-keys")
    ensures(distinct(result), "each-once")


@contract("liquer.store.OverlayStore.listdir", params=dict(self=OV, key=Str), returns=KeyList)
def _(self, key):
    requires(ov_inv(self))
    requires(key == "" or clean(key), "clean-key")
    requires(isdir(self.overlay, key) or isdir(self.fallback, key), "a-directory-somewhere")
    ensures(elems(result) == setof(lambda n: n != "" and not has(n, "/") and ov_present(self, join(key, n))),
            "exactly-the-visible-children")
    ensures(distinct(result), "each-once")


# ------------------------------------------------------------------ writes
@contract("liquer.store.OverlayStore._unremove", params=dict(self=OV, key=Opt(Str)))
def _(self, key):
    k = ite(isnone(key), "", unopt(key))
    modifies(self.removed)
    invariant(0, lambda: setminus(self.removed, anc(ite(isnone(key), "", unopt(key)))) == setminus(old(self.removed), anc(k)), "tombstones-outside-the-ancestors-kept")
    invariant(0, lambda: subset(self.removed, old(self.removed)), "no-new-tombstones")
    ensures(self.removed == setminus(old(self.removed), anc(k)), "clears-key-and-ancestors")


@spec(params=dict(o=OV, k=Str, p0=Bool, d0=Bool, h0=Bool, b0=Bytes), returns=Bool, macro=True)
def ov_entry_is(o, k, p0, d0, h0, b0):
    """the entry of k in the current view equals the recorded (present, is_dir, has_data, data)"""
    return ov_present(o, k) == p0 and ov_isdir(o, k) == d0 and ov_has_data(o, k) == h0 \
        and implies(h0, ov_data(o, k) == b0)


@contract("liquer.store.OverlayStore.store", params=dict(self=OV, key=Str, data=Bytes, metadata=Meta))
def _(self, key, data, metadata):
    requires(ov_inv(self))
    requires(clean(key) and not isdir(self.overlay, key) and not isdir(self.fallback, key), "clean-key-not-a-directory")
    k0 = const(Str, "k0")
    modifies(self.removed, self.overlay.dirs, self.overlay.data, self.overlay.meta)
    ensures(ov_has_data(self, key) and ov_data(self, key) == data, "reads-latest-write")
    ensures(implies(has(anc(key), k0), ov_present(self, k0)), "key-and-ancestors-present")
    ensures(implies(has(anc(parent_of(key)), k0), ov_isdir(self, k0)), "ancestors-are-directories")
    ensures(implies(not has(anc(key), k0),
                    ov_entry_is(self, k0, old(ov_present(self, k0)), old(ov_isdir(self, k0)), old(ov_has_data(self, k0)),
                                old(ov_data(self, k0)))), "other-keys-unchanged")
    ensures(self.fallback.dirs == old(self.fallback.dirs) and self.fallback.data == old(self.fallback.data)
            and self.fallback.meta == old(self.fallback.meta), "fallback-untouched")
    ensures(ov_inv(self), "invariant")


@contract("liquer.store.OverlayStore.store_metadata", params=dict(self=OV, key=Str, metadata=Meta))
def _(self, key, metadata):
    requires(ov_inv(self))
    requires(clean(key), "clean-key")
    k0 = const(Str, "k0")
    requires(implies(present(self.overlay, key), not isdir(self.overlay, key)) and not has(self.overlay.dirs, key), "not-an-overlay-directory")
    requires(not (has(self.fallback.dirs, key) and has(self.fallback.data, key)), "W4-at-key:not-both-directory-and-file")
    modifies(self.removed, self.overlay.dirs, self.overlay.data, self.overlay.meta)
    ensures(ov_present(self, key), "present")
    ensures(implies(old(ov_present(self, key)),
                    ov_has_data(self, key) == old(ov_has_data(self, key)) and implies(ov_has_data(self, key), ov_data(self, key) == old(ov_data(self, key)))),
            "bytes-of-the-updated-key-unchanged")
    ensures(implies(not old(ov_present(self, key)), not ov_has_data(self, key)),
            "a-metadata-write-never-brings-bytes-back:a-key-that-was-removed-or-never-existed-gets-metadata-only")
    ensures(implies(not has(anc(key), k0),
                    ov_entry_is(self, k0, old(ov_present(self, k0)), old(ov_isdir(self, k0)), old(ov_has_data(self, k0)),
                                old(ov_data(self, k0)))), "other-keys-unchanged")
    ensures(self.fallback.dirs == old(self.fallback.dirs) and self.fallback.data == old(self.fallback.data)
            and self.fallback.meta == old(self.fallback.meta), "fallback-untouched")
    ensures(ov_inv(self), "invariant")


@contract("liquer.store.OverlayStore.remove", params=dict(self=OV, key=Str))
def _(self, key):
    requires(ov_inv(self))
    requires(clean(key) and not isdir(self.overlay, key) and not isdir(self.fallback, key), "clean-key-not-a-directory")
    k0 = const(Str, "k0")
    modifies(self.removed, self.overlay.data, self.overlay.meta)
    ensures(not ov_present(self, key), "gone")
    ensures(implies(k0 != key,
                    ov_entry_is(self, k0, old(ov_present(self, k0)), old(ov_isdir(self, k0)), old(ov_has_data(self, k0)),
                                old(ov_data(self, k0)))), "other-keys-unchanged")
    ensures(self.fallback.dirs == old(self.fallback.dirs) and self.fallback.data == old(self.fallback.data)
            and self.fallback.meta == old(self.fallback.meta), "fallback-untouched")
    ensures(ov_inv(self), "invariant")


@contract("liquer.store.OverlayStore.makedir", params=dict(self=OV, key=Str))
def _(self, key):
    requires(ov_inv(self))
    requires(clean(key) and not has(self.overlay.data, key) and not has(self.fallback.data, key), "clean-key-not-a-file")
    k0 = const(Str, "k0")
    modifies(self.removed, self.overlay.dirs)
    ensures(implies(has(anc(key), k0), ov_isdir(self, k0)), "key-and-ancestors-are-directories")
    ensures(implies(not has(anc(key), k0),
                    ov_entry_is(self, k0, old(ov_present(self, k0)), old(ov_isdir(self, k0)), old(ov_has_data(self, k0)),
                                old(ov_data(self, k0)))), "other-keys-unchanged")
    ensures(self.fallback.dirs == old(self.fallback.dirs) and self.fallback.data == old(self.fallback.data)
            and self.fallback.meta == old(self.fallback.meta), "fallback-untouched")
    ensures(ov_inv(self), "invariant")


@contract("liquer.store.OverlayStore.removedir", params=dict(self=OV, key=Str, recursive=Bool))
def _(self, key, recursive=False):
    """Empty-directory form (recursive=False).  The recursive form is covered by the labelled bounded stand-in only:
    'everything below the key is gone' needs the tree invariant W4 of both wrapped stores, which is not expressible
    quantifier-free in the interface view."""
    requires(ov_inv(self))
    requires(not recursive, "empty-directory-form")
    requires(clean(key), "clean-key")
    requires(implies(present(self.overlay, key), isdir(self.overlay, key)) and implies(present(self.fallback, key), isdir(self.fallback, key)),
             "a-directory-where-present")
    requires(not has(self.overlay.meta, key) and not has(self.overlay.data, key), "plain-directory-in-the-overlay")
    k0 = const(Str, "k0")
    visible_children = setof(lambda n: n != "" and not has(n, "/") and ov_present(self, join(key, n)))
    empty = visible_children == emptyset(Str)
    modifies(self.removed, self.overlay.dirs)
    ensures(implies(old(empty), not ov_present(self, key)), "empty-directory-gone")
    ensures(implies(not old(empty), ov_present(self, key) == old(ov_present(self, key))), "non-empty-directory-kept")
    ensures(implies(k0 != key,
                    ov_entry_is(self, k0, old(ov_present(self, k0)), old(ov_isdir(self, k0)), old(ov_has_data(self, k0)),
                                old(ov_data(self, k0)))), "other-keys-unchanged")
    ensures(self.fallback.dirs == old(self.fallback.dirs) and self.fallback.data == old(self.fallback.data)
            and self.fallback.meta == old(self.fallback.meta), "fallback-untouched")
    ensures(ov_inv(self), "invariant")


prop("C15", fucs=["liquer.store.OverlayStore.removedir", "liquer.store.OverlayStore._unremove", "liquer.store.OverlayStore.get_bytes", "liquer.store.OverlayStore.get_metadata",
                  "liquer.store.OverlayStore.contains", "liquer.store.OverlayStore.is_dir",
                  "liquer.store.OverlayStore.keys", "liquer.store.OverlayStore.listdir",
                  "liquer.store.OverlayStore.store", "liquer.store.OverlayStore.store_metadata",
                  "liquer.store.OverlayStore.remove", "liquer.store.OverlayStore.makedir"],
     notes="OverlayStore is verified against the interface contracts of its two wrapped stores (contracts/stores.py); "
           "those interface contracts are proved for MemoryStore under C07 and assumed for other stores")
