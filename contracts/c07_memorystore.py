"""C07 — MemoryStore refines the Store interface (the reference model of contracts/stores.py).

The contracts below are the interface contracts with the abstract view realised by the concrete fields
(dirs = directories, data = data, meta = metadata); labels are the interface's labels.  The proxies
(ProxyStore reads: C17) forward to the interface.  finalize_metadata is used through an assumed
functional contract here; its field-level behaviour (key, name, is_dir, size, md5, caller's fields) is
checked by the labelled bounded stand-in on every store kind.
"""
from pyvc.dsl import *
from contracts.stores import Meta, KeyList

classdef("liquer.store.MemoryStore", bases=["Store"],
         fields=dict(directories=Set(Str), data=Map(Str, Bytes), metadata=Map(Str, Meta)),
         views=dict(dirs="directories", meta="metadata", data="data"))
MS = Ref("MemoryStore")


@spec(params=dict(metadata=Meta, key=Str, is_dir=Bool, data=Opt(Bytes), update=Bool), returns=Meta, uninterpreted=True)
def finalized(metadata, key, is_dir, data, update):
    return finalized(metadata, key, is_dir, data, update)


@assumed("liquer.store.Store.finalize_metadata",
         params=dict(self=Ref("Store"), metadata=Meta, key=Str, is_dir=Bool, data=Opt(Bytes), update=Bool), returns=Meta)
def _(self, metadata, key, is_dir=False, data=None, update=False):
    ensures(result == finalized(metadata, key, is_dir, data, update))


@assumed("liquer.store.Store.default_metadata", params=dict(self=Ref("Store"), key=Str, is_dir=Bool), returns=Meta)
def _(self, key, is_dir=False):
    pass


@spec(params=dict(s=MS), returns=Bool, macro=True)
def ms_inv(s):
    """class invariant: every stored value has a metadata record"""
    return subset(mapdom(s.data), mapdom(s.metadata))


@contract("liquer.store.MemoryStore.contains", params=dict(self=MS, key=Opt(Str)), returns=Bool)
def _(self, key):
    ensures(result == (isnone(key) or present(self, unopt(key))), "view")


@contract("liquer.store.MemoryStore.is_dir", params=dict(self=MS, key=Opt(Str)), returns=Bool)
def _(self, key):
    ensures(result == (isnone(key) or isdir(self, unopt(key))), "view")


@contract("liquer.store.MemoryStore.get_bytes", params=dict(self=MS, key=Str), returns=Bytes)
def _(self, key):
    raises(KeyNotFoundStoreException, when=not has(self.data, key), label="absent")
    ensures(result == mapget(self.data, key), "the-stored-bytes")


@contract("liquer.store.MemoryStore.get_metadata", params=dict(self=MS, key=Str), returns=Meta)
def _(self, key):
    requires(ms_inv(self))
    raises(KeyNotFoundStoreException, when=not present(self, key), label="absent")


@contract("liquer.store.MemoryStore.makedir", params=dict(self=MS, key=Opt(Str)))
def _(self, key):
    k = ite(isnone(key), "", unopt(key))
    modifies(self.directories)
    invariant(0, lambda: union(self.directories, anc(ite(isnone(key), "", unopt(key)))) == union(old(self.directories), anc(k)),
              "directories-plus-remaining-ancestors")
    invariant(0, lambda: subset(old(self.directories), self.directories), "nothing-removed")
    loop_decreases(0, lambda: length(ite(isnone(key), "", unopt(key))))
    ensures(self.directories == union(old(self.directories), anc(k)), "ancestors-become-directories")


@contract("liquer.store.MemoryStore.store", params=dict(self=MS, key=Str, data=Bytes, metadata=Meta))
def _(self, key, data, metadata):
    requires(key != "", "not-the-root")
    modifies(self.directories, self.data, self.metadata)
    ensures(self.data == mapset(old(self.data), key, data), "bytes-stored-others-unchanged")
    ensures(self.directories == union(old(self.directories), anc(parent_of(key))), "ancestors-become-directories")
    ensures(self.metadata == mapset(old(self.metadata), key, finalized(metadata, key, False, some(data), False)),
            "metadata-recorded-others-unchanged")
    ensures(implies(old(ms_inv(self)), ms_inv(self)), "invariant")


@contract("liquer.store.MemoryStore.store_metadata", params=dict(self=MS, key=Str, metadata=Meta))
def _(self, key, metadata):
    modifies(self.metadata)
    ensures(self.metadata == mapset(old(self.metadata), key, finalized(metadata, key, isdir(self, key), None, True)),
            "metadata-recorded-others-unchanged")


@contract("liquer.store.MemoryStore.remove", params=dict(self=MS, key=Str))
def _(self, key):
    modifies(self.directories, self.data, self.metadata)
    ensures(self.data == mapdel(old(self.data), key), "bytes-gone-others-unchanged")
    ensures(self.metadata == mapdel(old(self.metadata), key), "metadata-gone-others-unchanged")
    ensures(self.directories == setdel(old(self.directories), key), "only-this-key")
    ensures(not present(self, key) or key == "", "gone")
    ensures(implies(old(ms_inv(self)), ms_inv(self)), "invariant")


@contract("liquer.store.MemoryStore.keys", params=dict(self=MS), returns=KeyList)
def _(self):
    ensures(elems(result) == keyset(self), "exactly-the-present-keys")
    ensures(distinct(result), "each-once")


prop("C07", fucs=["liquer.store.MemoryStore.contains", "liquer.store.MemoryStore.is_dir", "liquer.store.MemoryStore.get_bytes",
                  "liquer.store.MemoryStore.get_metadata", "liquer.store.MemoryStore.makedir", "liquer.store.MemoryStore.store",
                  "liquer.store.MemoryStore.store_metadata", "liquer.store.MemoryStore.remove", "liquer.store.MemoryStore.keys"])
