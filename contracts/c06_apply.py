"""Context.apply (relative link arguments, C01/C06): proved instead of assumed - the link is evaluated exactly once, through Context.evaluate,
and what that evaluation returns is returned unchanged (the text of the combined query is built by the parser: opaque)."""
from pyvc.dsl import *
from contracts.c13_caches import ST, state_wf
from contracts.c05_evaluate import CX, Any


@contract("liquer.context.Context.apply", params=dict(self=CX, query=Any, description=Opt(Str)), returns=ST,
          opaque={"debug": NoneT, "parse": Any, "transform_query": Opt(Any), "encode": Str, "@absolute": Bool})
def _(self, query, description=None):
    raises(EvaluationException, label="a-nested-evaluation-or-a-link-argument-failed")
    raises(Exception, label="the-sub-evaluation-raised-or-the-link-is-no-transform-query")
    modifies_any("State.metadata")
    modifies_any("State.status")
    modifies_any("State.context")
    modifies_any("Cache.cmeta")
    modifies_any("Cache.cdata")
    modifies_all(self)
    ensures(state_wf(result.metadata), "a-state-with-the-standard-keys")
    ensures(implies(old(not isnone(self.query)), self.raw_query == old(self.raw_query) and self.query == old(self.query)
                    and self.parent_query == old(self.parent_query) and self.enable_store_metadata == old(self.enable_store_metadata)),
            "a-link-evaluated-through-a-busy-context-leaves-that-context's-own-query-alone")
    ensures(log_count("Context.evaluate") == 1 and result is log_result("Context.evaluate"), "the-link-is-evaluated-exactly-once-and-its-state-is-returned-as-is")


prop("C01", fucs=["liquer.context.Context.apply"])
prop("C06", fucs=["liquer.context.Context.apply"])
