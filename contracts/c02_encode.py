"""C02 — encode side (deductive part): the structural clauses of the canonical text that the parser relies on to read it back.

ActionRequest.encode: an action without arguments is just its name; an action *with* arguments (even a single empty one) always
shows the separator after the name - 'q-' and 'q' are different queries.
TransformQuerySegment.encode / Query.encode: header first, file name last, '/' between the parts, a leading '/' exactly for an
absolute query.  The texts of the parts themselves (joined with '-' and '/') are opaque here; that the parser reads the whole
text back to the same structure is decided by the labelled bounded stand-in (the grammar is pyparsing code, outside the engine's reach).
"""
from pyvc.dsl import *

AR = Ref("ActionRequest")


@contract("liquer.parser.ActionRequest.encode", params=dict(self=AR), returns=Str, opaque={"join": Str})
def _(self):
    ensures(implies(len(self.parameters) == 0, result == self.name), "no-arguments:just-the-name")
    ensures(implies(len(self.parameters) > 0, result.startswith(self.name + "-")), "with-arguments:the-separator-always-follows-the-name")
    ensures(self.parameters == old(self.parameters) and self.name == old(self.name), "encoding-does-not-change-the-action")


@interface("HeaderParam.encode", params=dict(self=Ref("HeaderParam")), returns=Str)
def _(self):
    pass


@contract("liquer.parser.SegmentHeader.encode@shape", params=dict(self=Ref("SegmentHeader")), returns=Str)
def _(self):
    prefix = "-" * self.level + ("R" if self.resource else "") + self.name
    raises(AssertionError, label="a-level-below-one-or-parameters-without-a-name")
    invariant(0, lambda: encoded.startswith("-" * self.level + ("R" if self.resource else "") + self.name)
              and length(encoded) >= length("-" * self.level + ("R" if self.resource else "") + self.name) + _i, "the-prefix-stays,one-separator-per-parameter-so-far")
    ensures(result.startswith(prefix), "dashes-for-the-level,R-for-a-resource-header,then-the-name")
    ensures(implies(len(self.parameters) == 0, result == prefix), "nothing-else-without-parameters")
    ensures(implies(len(self.parameters) > 0, length(result) > length(prefix)), "parameters-always-show-a-separator")


@spec(params=dict(self=Ref("SegmentHeader")), returns=Str, uninterpreted=True)
def header_text(self):
    return header_text(self)


@assumed("liquer.parser.SegmentHeader.encode", params=dict(self=Ref("SegmentHeader")), returns=Str, pure=True, functional="header_text")
def _(self):
    """used by the segment encoders below through this summary; its own contract is `SegmentHeader.encode@shape`"""
    pass


TQ = Ref("TransformQuerySegment")


@contract("liquer.parser.TransformQuerySegment.encode", params=dict(self=TQ), returns=Str, opaque={"join": Str})
def _(self):
    requires(isnone(self.filename) or unopt(self.filename) != "", "a-file-name,when-present,is-not-empty")
    ensures(implies(not isnone(self.filename), result.endswith(unopt(self.filename))), "the-file-name-comes-last")
    ensures(implies(not isnone(self.header), result.startswith(header_text(unopt(self.header)))), "the-header-comes-first")
    ensures(implies(not isnone(self.header) and not isnone(self.filename),
                    length(result) >= length(header_text(unopt(self.header))) + 1 + length(unopt(self.filename))), "header-and-file-name-are-separated")
    ensures(self.query == old(self.query) and self.filename == old(self.filename) and self.header == old(self.header), "encoding-does-not-change-the-segment")


inline("liquer.parser.Query.is_resource_query")


@contract("liquer.parser.Query.encode@shape", params=dict(self=Ref("Query")), returns=Str, opaque={"join": Str})
def _(self):
    n = len(self.segments)
    ensures(implies(self.absolute, result.startswith("/")), "an-absolute-query-starts-with-a-slash")
    ensures(implies(n == 1 and isinst(self.segments[0], "ResourceQuerySegment"),
                    result.startswith("/-") if self.absolute else result.startswith("-")),
            "a-pure-resource-query-always-carries-a-header,so-that-it-is-not-re-read-as-a-transformation")
    ensures(implies(n > 1 and isinst(self.segments[0], "TransformQuerySegment") and isnone(self.segments[0].header)
                    and isinst(self.segments[n - 1], "TransformQuerySegment") and not isnone(self.segments[n - 1].header),
                    result.startswith("/-/") if self.absolute else result.startswith("-/")),
            "a-header-less-first-segment-followed-by-a-headed-one-is-protected-by-an-empty-header")
    ensures(self.segments == old(self.segments) and self.absolute == old(self.absolute), "encoding-does-not-change-the-query")


prop("C02", fucs=["liquer.parser.Query.encode@shape", "liquer.parser.ActionRequest.encode", "liquer.parser.SegmentHeader.encode@shape", "liquer.parser.TransformQuerySegment.encode"])
