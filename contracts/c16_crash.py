"""C16 — a crash during a file-backed write never leaves a corrupt readable entry.

The argument (effect traces, DESIGN.md 3.4) rests on four structural facts about the writers, each a static obligation
re-derived from the source on every run, plus the assumption that rename (os.replace / Path.replace) is atomic:
  1. the helper _write_atomically writes the bytes to a temporary path and renames it onto the target;
  2. in store / store_metadata no file content is written in any other way (no in-place open(.., 'w'), write_bytes, json.dump);
  3. the data file is complete before the metadata that declares it ready is written (FileCache.store, FileStore.store);
  4. FileStore.store drops the metadata of the previous content before the new data appears.
Given 1-4, after a crash at any file-system event every file is either absent, the complete old or the complete new content,
and ready metadata is never paired with partial data.  The crash semantics itself (which prefix of the events happened) is
exercised by the labelled bounded stand-in, which kills a forked writer at every event / partial-write length.
"""
from pyvc.dsl import *

prop("C16",
     static=[("atomic", "FileCache", "_write_atomically"), ("atomic", "FileStore", "_write_atomically"),
             ("no-inplace", "FileCache", ["store", "store_metadata"], "_write_atomically"),
             ("no-inplace", "FileStore", ["store", "store_metadata"], "_write_atomically"),
             ("order", "FileCache", "store", "_write_atomically", "store_metadata"),
             ("order", "FileStore", "store", "_write_atomically", "store_metadata"),
             ("order", "FileStore", "store", "unlink", "_write_atomically"),
             ("inherits", "XORFileCache", "FileCache", ["store", "store_metadata", "_write_atomically", "get", "remove"]),
             ("inherits", "FernetFileCache", "FileCache", ["store", "store_metadata", "_write_atomically", "get", "remove"])],
     notes="rename (os.replace / Path.replace) is atomic and a crash loses at most the operations after the crash point (no reordering by the OS, no fsync modelled)")

# C12, file half: a concurrent reader of a file cache sees, for every file, the complete old or the complete new content (never a
# file that is being written), because every write of a final path is a rename of a finished temporary file - the same two
# structural obligations as above, on the same source.
prop("C12", static=[("atomic", "FileCache", "_write_atomically"),
                    ("no-inplace", "FileCache", ["store", "store_metadata"], "_write_atomically"),
                    ("inherits", "XORFileCache", "FileCache", ["store", "store_metadata", "_write_atomically", "get", "remove"]),
                    ("inherits", "FernetFileCache", "FileCache", ["store", "store_metadata", "_write_atomically", "get", "remove"])])
