"""C19 — relative resource paths resolve like POSIX path normalisation.

Functions under contract (real source, /repo/liquer/parser.py):
  ResourceQuerySegment._query_to_absolute, ResourceQuerySegment.to_absolute, Query.to_absolute
Ghost: spec functions N (normaliser with rejection), resolve, dotfree; lemmas tying the
spec to "normalisation of the directory joined with the path" and giving idempotence.
"""
from pyvc.dsl import *

classdef("liquer.parser.Position", fields={})
classdef("liquer.parser.ActionParameter", fields=dict(position=Opaque("Any")))
classdef("liquer.parser.StringActionParameter", bases=["ActionParameter"], fields=dict(string=Str))
classdef("liquer.parser.LinkActionParameter", bases=["ActionParameter"], fields=dict(link=Ref("Query")))
classdef("liquer.parser.ExpandedActionParameter", bases=["ActionParameter"], fields=dict(value=Opaque("Data"), link=Ref("Query")))
classdef("liquer.parser.ResourceName", fields=dict(name=Str, position=Opt(Ref("Position"))))
classdef("HeaderParam", abstract=True, fields={})        # a parameter of a segment header (string or link parameter)
classdef("liquer.parser.SegmentHeader", fields=dict(name=Str, level=Int, resource=Bool, parameters=Seq(Ref("HeaderParam"))))
classdef("Segment", sealed=True, fields=dict(header=Opt(Ref("SegmentHeader"))))
classdef("liquer.parser.ResourceQuerySegment", bases=["Segment"], fields=dict(query=Seq(Ref("ResourceName"))))
classdef("ActionLike", sealed=True, fields={})       # what evaluate_action accepts: an action request or a one-step transform segment
classdef("liquer.parser.ActionRequest", bases=["ActionLike"], fields=dict(name=Str, parameters=Seq(Opaque("Any")), position=Opaque("Any")))
classdef("liquer.parser.TransformQuerySegment", bases=["Segment", "ActionLike"],
         fields=dict(query=Seq(Ref("ActionRequest")), filename=Opt(Str)))
classdef("liquer.parser.Query", fields=dict(segments=Seq(Ref("Segment")), absolute=Bool))

inline("liquer.parser.ResourceName.encode", "liquer.parser.ResourceQuerySegment.segment_name")

SeqRN = Seq(Ref("ResourceName"))
RN_NAME = [("ResourceName", "name")]


# ------------------------------------------------------------------ ghost specification (from the property statement)
@spec(params=dict(acc=SeqRN, comps=SeqRN), returns=Tuple(Bool, SeqRN), reads=RN_NAME)
def N(acc, comps):
    """POSIX normalisation of `comps` on top of the already-normalised `acc`:
    '.' vanishes, '..' removes the preceding component, climbing above the root is rejected."""
    if len(comps) == 0:
        return (True, acc)
    if comps[0].name == ".":
        return N(acc, comps[1:])
    if comps[0].name == "..":
        if len(acc) == 0:
            return (False, acc)
        return N(acc[:-1], comps[1:])
    return N(acc + [comps[0]], comps[1:])


@spec(params=dict(d=SeqRN, q=SeqRN), returns=Tuple(Bool, SeqRN), reads=RN_NAME, macro=True)
def resolve(d, q):
    """directory joined with the path when the path starts with '.' or '..', the path alone otherwise"""
    if len(q) > 0 and (q[0].name == "." or q[0].name == ".."):
        return N(d, q)
    return N([], q)


@spec(params=dict(s=SeqRN), returns=Bool, reads=RN_NAME)
def dotfree(s):
    if len(s) == 0:
        return True
    if s[0].name == "." or s[0].name == "..":
        return False
    return dotfree(s[1:])


# ------------------------------------------------------------------ the real functions
@contract("liquer.parser.ResourceQuerySegment._query_to_absolute",
          params=dict(self=Ref("ResourceQuerySegment"), path=SeqRN, processed=SeqRN, rest=SeqRN), returns=SeqRN)
def _(self, path, processed, rest):
    decreases(len(rest))
    r = N(processed, rest)
    raises(Exception, when=not r[0], label="reject-above-root")
    ensures(implies(r[0], result == r[1]), "normalises")


@contract("liquer.parser.ResourceQuerySegment.to_absolute",
          params=dict(self=Ref("ResourceQuerySegment"), path=SeqRN), returns=Ref("ResourceQuerySegment"))
def _(self, path):
    requires(dotfree(path), "path-is-a-clean-directory-key")
    r = resolve(path, self.query)
    raises(Exception, when=len(self.query) > 0 and not r[0], label="reject-above-root")
    ensures(implies(len(self.query) == 0, result is self), "empty-unchanged")
    ensures(implies(len(self.query) > 0, r[0] and result.query == r[1]), "posix")
    ensures(result.header == old(self.header), "header-untouched")
    ensures(implies(len(self.query) > 0, fresh_ref(result)), "does-not-mutate-self")


@contract("liquer.parser.Query.to_absolute",
          params=dict(self=Ref("Query"), path=SeqRN, resource_segment_name=Opt(Str)), returns=Ref("Query"),
          locals=dict(segments=Seq(Ref("Segment"))))
def _(self, path, resource_segment_name=""):
    requires(dotfree(path), "path-is-a-clean-directory-key")
    j = const(Int, "j")
    raises(Exception, label="a-selected-segment-climbs-above-root")
    invariant(0, lambda: len(segments) == _i, "length")
    invariant(0, lambda: implies(0 <= j and j < _i, seg_ok(self.segments[j], segments[j], path, resource_segment_name)), "prefix-ok")
    ensures(result.absolute == self.absolute, "absolute-preserved")
    ensures(len(result.segments) == len(self.segments), "same-number-of-segments")
    ensures(implies(0 <= j and j < len(self.segments),
                    seg_ok(self.segments[j], result.segments[j], path, resource_segment_name)),
            "only-selected-resource-segments")


@spec(params=dict(s=Ref("Segment"), t=Ref("Segment"), path=SeqRN, rsn=Opt(Str)), returns=Bool, macro=True)
def seg_ok(s, t, path, rsn):
    """t is what resolving must make of segment s: transformation segments, resource segments with another
    name and empty resource segments are the same object; a selected resource segment is resolved."""
    if not isinst(s, "ResourceQuerySegment"):
        return t is s
    rs = cast(s, "ResourceQuerySegment")
    if not (rsn is None or rsn == seg_name(rs)):
        return t is s
    if len(rs.query) == 0:
        return t is s
    rt = cast(t, "ResourceQuerySegment")
    return isinst(t, "ResourceQuerySegment") and resolve(path, rs.query)[0] and rt.query == resolve(path, rs.query)[1] \
        and t.header == s.header


@spec(params=dict(s=Ref("ResourceQuerySegment")), returns=Str, macro=True)
def seg_name(s):
    if s.header is None:
        return ""
    return s.header.name


# ------------------------------------------------------------------ lemmas
@lemma(params=dict(acc=SeqRN, r=SeqRN))
def N_of_dotfree(acc, r):
    """Normalising an already normalised path appends it unchanged."""
    requires(dotfree(r))
    decreases(len(r))
    ensures(N(acc, r) == (True, acc + r))
    if len(r) > 0:
        hint((acc + [r[0]]) + r[1:] == acc + r, "assoc")
        hint(dotfree(r[1:]), "tail-dotfree")
        N_of_dotfree(acc + [r[0]], r[1:])
    else:
        hint(acc + r == acc, "empty")


@lemma(params=dict(s=SeqRN, x=Ref("ResourceName")))
def dotfree_snoc(s, x):
    requires(dotfree(s) and x.name != "." and x.name != "..")
    decreases(len(s))
    ensures(dotfree(s + [x]))
    if len(s) > 0:
        hint((s + [x])[0] == s[0], "head")
        hint((s + [x])[1:] == s[1:] + [x], "tail")
        dotfree_snoc(s[1:], x)
        unfold(dotfree(s + [x]))
    else:
        hint(s + [x] == [x], "unit")
        hint(([x])[1:] == s, "unit-tail")
        unfold(dotfree(s + [x]), 2)


@lemma(params=dict(s=SeqRN))
def dotfree_init(s):
    requires(dotfree(s) and len(s) > 0)
    decreases(len(s))
    ensures(dotfree(s[:-1]))
    if len(s) > 1:
        hint((s[:-1])[0] == s[0], "head")
        hint((s[:-1])[1:] == (s[1:])[:-1], "tail")
        dotfree_init(s[1:])
        unfold(dotfree(s[:-1]))
    else:
        hint(len(s[:-1]) == 0, "empty")
        unfold(dotfree(s[:-1]))


@lemma(params=dict(acc=SeqRN, q=SeqRN))
def N_result_dotfree(acc, q):
    """The result of a successful normalisation contains no '.' and no '..'."""
    requires(dotfree(acc))
    decreases(len(q))
    ensures(implies(N(acc, q)[0], dotfree(N(acc, q)[1])))
    if len(q) > 0:
        if q[0].name == ".":
            N_result_dotfree(acc, q[1:])
        elif q[0].name == "..":
            if len(acc) > 0:
                dotfree_init(acc)
                N_result_dotfree(acc[:-1], q[1:])
        else:
            dotfree_snoc(acc, q[0])
            N_result_dotfree(acc + [q[0]], q[1:])


@lemma(params=dict(acc=SeqRN, d=SeqRN, q=SeqRN))
def N_join(acc, d, q):
    """N(acc ++ d, q) is the normalisation of the joined path d ++ q on acc when d is a clean directory:
    this ties `resolve` to 'POSIX normalisation of the directory joined with the path'."""
    requires(dotfree(d))
    decreases(len(d))
    ensures(N(acc, d + q) == N(acc + d, q))
    if len(d) > 0:
        hint((d + q)[0] == d[0], "head")
        hint((d + q)[1:] == d[1:] + q, "tail")
        hint((acc + [d[0]]) + d[1:] == acc + d, "assoc")
        N_join(acc + [d[0]], d[1:], q)
    else:
        hint(d + q == q, "empty-left")
        hint(acc + d == acc, "empty-right")


@lemma(params=dict(d=SeqRN, q=SeqRN))
def resolve_idempotent(d, q):
    """Resolving an already resolved path again changes nothing."""
    requires(dotfree(d))
    r = resolve(d, q)
    ensures(implies(r[0], resolve(d, r[1]) == (True, r[1])))
    empty = q[:0]
    hint(len(empty) == 0, "empty-acc")
    hint(dotfree(empty), "empty-dotfree")
    N_result_dotfree(d, q)
    N_result_dotfree(empty, q)
    if r[0]:
        N_of_dotfree(empty, r[1])
        hint(empty + r[1] == r[1], "left-unit")
        unfold(dotfree(r[1]))


prop("C19",
     fucs=["liquer.parser.ResourceQuerySegment._query_to_absolute",
           "liquer.parser.ResourceQuerySegment.to_absolute",
           "liquer.parser.Query.to_absolute"],
     lemmas=["N_of_dotfree", "dotfree_snoc", "dotfree_init", "N_result_dotfree", "N_join", "resolve_idempotent"])
