"""C20 — the data endpoints of the store API: GET /api/store/data/<key> answers with exactly the bytes the store holds under the key
(media type from the stored metadata), POST stores exactly the request body under the key together with the metadata the store
already holds for it (nothing when there is none), POST /api/store/metadata/<key> stores exactly the posted JSON document.
A failure of the store is answered with the declared error document (status ERROR, HTTP 404), never with a normal answer."""
from pyvc.dsl import *
from contracts.c20_handlers import Response, WS, Answer
from contracts.c20_serve import FR

Any = Opaque("Any")
WebMeta = Rec("WebMeta", dict(mimetype=Str, status=Str))


@interface("WebStore.get_metadata", params=dict(self=WS, key=Str), returns=WebMeta)
def _(self, key):
    raises(KeyNotFoundStoreException, label="no-such-key")
    raises(Exception, label="any-failure-of-the-store")


@interface("WebStore.get_bytes", params=dict(self=WS, key=Str), returns=Bytes)
def _(self, key):
    raises(Exception, label="any-failure-of-the-store")


@interface("WebStore.store", params=dict(self=WS, key=Str, data=Bytes, metadata=WebMeta))
def _(self, key, data, metadata):
    raises(Exception, label="any-failure-of-the-store")
    modifies_all()


@interface("WebStore.store_metadata", params=dict(self=WS, key=Str, metadata=WebMeta))
def _(self, key, metadata):
    raises(Exception, label="any-failure-of-the-store")
    modifies_all()


@interface("FlaskRequest.get_data", params=dict(self=Ref("FlaskRequest")), returns=Bytes)
def _(self):
    pass




@contract("liquer.server.blueprint.store_get", params=dict(query=Str), returns=Ref("HttpAnswer"), opaque={"print_exc": NoneT})
def _(query):
    ensures(log_count("WebStore.get_metadata") == 1 and log_arg("WebStore.get_metadata", "key") == query
            and log_arg("WebStore.get_metadata", "self") == log_result("liquer.store.get_store"), "asks-the-process-store-for-the-key's-metadata")
    ensures(implies(log_count("flask.make_response") == 1, log_count("WebStore.get_bytes") == 1 and log_arg("WebStore.get_bytes", "key") == query and log_raised("WebStore.get_bytes") == 0
                    and log_arg("flask.make_response", "body") == log_result("WebStore.get_bytes")), "the-body-is-exactly-the-bytes-the-store-holds-under-the-key")
    ensures(implies(log_count("flask.make_response") == 1, log_count("FlaskHeaders.set") == 1 and log_arg("FlaskHeaders.set", "key") == "Content-Type"
                    and log_arg("FlaskHeaders.set", "value") == ite(rec_has(log_result("WebStore.get_metadata"), "mimetype"),
                                                                    rec_get(log_result("WebStore.get_metadata"), "mimetype"), "application/octet-stream")),
            "the-media-type-is-the-stored-one")
    ensures(implies(log_count("flask.make_response") == 0, log_count("flask.jsonify") == 1 and rec_get(log_arg("flask.jsonify", "d"), "status") == "ERROR"), "a-failure-is-answered-with-the-error-document")
    ensures((log_count("flask.make_response") == 1) == (log_raised("WebStore.get_metadata") == 0 and log_raised("WebStore.get_bytes") == 0), "a-normal-answer-exactly-when-the-store-answered")


@contract("liquer.server.blueprint.store_set", params=dict(query=Str), returns=Ref("HttpAnswer"), opaque={"print_exc": NoneT},
          locals=dict(metadata=WebMeta))
def _(query):
    raises(Exception, label="the-metadata-lookup-failed-for-another-reason-than-a-missing-key")
    ensures(log_count("WebStore.get_metadata") == 1 and log_arg("WebStore.get_metadata", "key") == query
            and log_arg("WebStore.get_metadata", "self") == log_result("liquer.store.get_store"), "looks-up-the-metadata-the-store-already-holds-for-the-key,once")
    ensures(log_count("WebStore.store") == 1 and log_arg("WebStore.store", "key") == query
            and log_arg("WebStore.store", "self") == log_result("liquer.store.get_store")
            and log_arg("WebStore.store", "data") == log_result("FlaskRequest.get_data"), "stores-exactly-the-request-body-under-the-key,once")
    ensures(implies(log_raised("WebStore.get_metadata") == 0, log_arg("WebStore.store", "metadata") == log_result("WebStore.get_metadata")),
            "together-with-the-metadata-already-held-for-the-key")
    ensures(log_count("flask.jsonify") == 1 and result is log_result("flask.jsonify")
            and rec_get(log_arg("flask.jsonify", "d"), "status") == ite(log_raised("WebStore.store") > 0, "ERROR", "OK"), "status-ERROR-exactly-when-the-store-refused")


prop("C20", fucs=["liquer.server.blueprint.store_get", "liquer.server.blueprint.store_set"])
