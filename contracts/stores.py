"""Store interface with an abstract view, and the store implementations under contract.

Reference model (DESIGN.md appendix D.1), written from the statements of C07/C15:
  view of a store  = (dirs: Set[Str], data: Map[Str,Bytes], meta: Map[Str,Meta])
  present(k)       = k == "" or k in dirs or k in dom(data) or k in dom(meta)
  anc(k)           = {} if k == "" else {k} u anc(parent(k))
Interface contracts are stated as whole-view equalities (SMT array equalities), so
"operations on one key never affect another" is part of every postcondition.
"""
from pyvc.dsl import *

Meta = Opaque("Meta")
KeyList = ListOfSet(Str)

classdef("liquer.store.Store", abstract=True,
         fields=dict(dirs=Set(Str), data=Map(Str, Bytes), meta=Map(Str, Meta), parent_store=Opt(Ref("Store"))))


# ------------------------------------------------------------------ ghost view functions
@spec(params=dict(k=Str), returns=Str, macro=True)
def parent_of(k):
    """parent key: everything before the last '/' ('' for a top-level key)"""
    return str_init(k, "/")


@spec(params=dict(k=Str), returns=Str, macro=True)
def name_of(k):
    return str_last(k, "/")


@spec(params=dict(k=Str), returns=Set(Str))
def anc(k):
    """the key and all its non-empty ancestors"""
    if k == "":
        return emptyset(Str)
    return setadd(anc(parent_of(k)), k)


@spec(params=dict(s=Ref("Store"), k=Str), returns=Bool, macro=True)
def present(s, k):
    return k == "" or k in s.dirs or k in s.data or k in s.meta


@spec(params=dict(s=Ref("Store"), k=Str), returns=Bool, macro=True)
def isdir(s, k):
    return k == "" or k in s.dirs


@spec(params=dict(s=Ref("Store")), returns=Set(Str), macro=True)
def keyset(s):
    return union(union(s.dirs, mapdom(s.data)), mapdom(s.meta))


@spec(params=dict(k=Str, n=Str), returns=Str, macro=True)
def join(k, n):
    if k == "":
        return n
    return k + "/" + n


@spec(params=dict(s=Ref("Store"), k=Str), returns=Set(Str), macro=True)
def child_names(s, k):
    """names n such that join(k, n) is present"""
    return setof(lambda n: n != "" and not has(n, "/") and has(keyset(s), join(k, n)))


@spec(params=dict(k=Str), returns=Bool, macro=True)
def clean(k):
    """W1: a non-root key with non-empty components"""
    return k != "" and not k.startswith("/") and not k.endswith("/") and not has(k, "//")


@spec(params=dict(s=Ref("Store")), returns=Bool, macro=True)
def wf(s):
    """root is implicit: the empty key is never stored explicitly"""
    return not has(s.dirs, "") and not has(s.data, "") and not has(s.meta, "")


# ------------------------------------------------------------------ the Store interface (reference model)
@interface("Store.contains", params=dict(self=Ref("Store"), key=Str), returns=Bool)
def _(self, key):
    ensures(result == present(self, key))


@interface("Store.is_dir", params=dict(self=Ref("Store"), key=Str), returns=Bool)
def _(self, key):
    ensures(result == isdir(self, key))


@interface("Store.get_bytes", params=dict(self=Ref("Store"), key=Str), returns=Bytes)
def _(self, key):
    raises(KeyNotFoundStoreException, when=not has(self.data, key), label="absent")
    ensures(result == mapget(self.data, key))


@interface("Store.get_metadata", params=dict(self=Ref("Store"), key=Str), returns=Meta)
def _(self, key):
    raises(KeyNotFoundStoreException, when=not present(self, key), label="absent")
    ensures(result == read_meta(self.meta, self.dirs, key))


@spec(params=dict(meta=Map(Str, Meta), dirs=Set(Str), key=Str), returns=Meta, uninterpreted=True)
def read_meta(meta, dirs, key):
    """what get_metadata reports for a present key (stored fields finalised; directory default for directories)"""
    return read_meta(meta, dirs, key)


@interface("Store.store", params=dict(self=Ref("Store"), key=Str, data=Bytes, metadata=Meta))
def _(self, key, data, metadata):
    requires(key != "" and not has(self.dirs, key), "target-is-not-a-directory")
    modifies(self.dirs, self.data, self.meta)
    ensures(self.data == mapset(old(self.data), key, data), "bytes-stored-others-unchanged")
    ensures(self.dirs == union(old(self.dirs), anc(parent_of(key))), "ancestors-become-directories")
    ensures(mapdom(self.meta) == setadd(mapdom(old(self.meta)), key), "metadata-recorded")
    ensures(self.meta == mapset(old(self.meta), key, mapget(self.meta, key)), "other-metadata-unchanged")
    ensures(implies(old(wf(self)), wf(self)), "root-stays-implicit")


@interface("Store.store_metadata", params=dict(self=Ref("Store"), key=Str, metadata=Meta))
def _(self, key, metadata):
    requires(key != "", "not-the-root")
    modifies(self.meta)
    ensures(mapdom(self.meta) == setadd(mapdom(old(self.meta)), key), "metadata-recorded")
    ensures(self.meta == mapset(old(self.meta), key, mapget(self.meta, key)), "other-metadata-unchanged")


@interface("Store.remove", params=dict(self=Ref("Store"), key=Str))
def _(self, key):
    requires(not isdir(self, key), "target-is-not-a-directory")
    modifies(self.data, self.meta)
    ensures(self.data == mapdel(old(self.data), key))
    ensures(self.meta == mapdel(old(self.meta), key))


@interface("Store.removedir", params=dict(self=Ref("Store"), key=Str, recursive=Bool))
def _(self, key, recursive=False):
    requires(not recursive, "only-the-empty-directory-form-is-specified-here")
    requires(key == "" or (has(self.dirs, key) and child_names(self, key) == emptyset(Str)), "an-empty-directory")
    modifies(self.dirs)
    ensures(self.dirs == (old(self.dirs) if key == "" else setdel(old(self.dirs), key)))


@interface("Store.makedir", params=dict(self=Ref("Store"), key=Str))
def _(self, key):
    requires(not has(self.data, key), "not-a-file")
    modifies(self.dirs)
    ensures(self.dirs == union(old(self.dirs), anc(key)))
    ensures(implies(old(wf(self)), wf(self)), "root-stays-implicit")


@interface("Store.keys", params=dict(self=Ref("Store")), returns=KeyList)
def _(self):
    ensures(elems(result) == keyset(self), "exactly-the-present-keys")
    ensures(distinct(result), "each-once")


@interface("Store.listdir", params=dict(self=Ref("Store"), key=Str), returns=Opt(KeyList))
def _(self, key):
    ensures(isnone(result) == (not isdir(self, key)), "none-iff-not-a-directory")
    ensures(implies(isdir(self, key), elems(unopt(result)) == child_names(self, key)), "exactly-the-children")
    ensures(implies(isdir(self, key), distinct(unopt(result))), "each-once")
    ensures(implies(not isdir(self, key), child_names(self, key) == emptyset(Str)), "W4:a-non-directory-has-no-children")


@interface("Store.on_data_changed", params=dict(self=Ref("Store"), key=Str))
def _(self, key):
    pass


@interface("Store.on_metadata_changed", params=dict(self=Ref("Store"), key=Str))
def _(self, key):
    pass


@interface("Store.on_removed", params=dict(self=Ref("Store"), key=Str))
def _(self, key):
    pass


inline("liquer.store.Store.on_data_changed", "liquer.store.Store.on_metadata_changed", "liquer.store.Store.on_removed",
       "liquer.store.Store.parent_key", "liquer.store.Store.key_name", "liquer.store.Store.join_key")


# ------------------------------------------------------------------ key helpers (module functions of liquer.store)
@spec(params=dict(key=Str), returns=Opt(Str), macro=True)
def parent_key_fn(key):
    if key == "":
        return None
    return some(parent_of(key))


@spec(params=dict(key=Opt(Str)), returns=Str, macro=True)
def key_name_fn(key):
    if key is None or key == "":
        return ""
    return name_of(unopt(key))


@spec(params=dict(key=Opt(Str), name=Str), returns=Str, macro=True)
def join_key_fn(key, name):
    if key is None or key == "":
        return name
    if unopt(key).endswith("/"):
        return unopt(key) + name
    return unopt(key) + "/" + name


@contract("liquer.store.parent_key", params=dict(key=Str), returns=Opt(Str), functional="parent_key_fn")
def _(key):
    ensures(isnone(result) == (key == ""), "none-only-for-the-root")
    ensures(implies(key != "", unopt(result) == parent_of(key)), "everything-before-the-last-slash")


@contract("liquer.store.key_name", params=dict(key=Opt(Str)), returns=Str, functional="key_name_fn")
def _(key):
    ensures(result == ite(isnone(key), "", name_of(unopt(key))), "last-component")


@contract("liquer.store.join_key", params=dict(key=Opt(Str), name=Str), returns=Str, functional="join_key_fn")
def _(key, name):
    k = ite(isnone(key), "", unopt(key))
    ensures(implies(not k.endswith("/"), result == join(k, name)), "key-slash-name")
    ensures(implies(k.endswith("/"), result == k + name), "no-double-slash")


@lemma(params=dict(k=Str, n=Str))
def parent_of_join(k, n):
    """join and (parent_of, name_of) are inverse for a slash-free name"""
    requires(n != "" and not has(n, "/") and not k.endswith("/"))
    ensures(parent_of(join(k, n)) == k and name_of(join(k, n)) == n)


prop("C07", fucs=["liquer.store.parent_key", "liquer.store.key_name", "liquer.store.join_key"], lemmas=["parent_of_join"])
