"""C07 — "the recorded key, name, directory flag, size and checksum describe what was stored" (field-level contract of
Store.finalize_metadata, the function every store calls on the metadata it is about to keep or hand out).

The store sidecars use finalize_metadata through an opaque functional summary (Meta is an opaque value there); this second contract
(`...finalize_metadata@fields`) is verified on the same source text with the metadata dictionary as a record.
Assumed: hashlib.md5(b).hexdigest() is a function of b (md5hex); Metadata(d).as_dict() keeps the recorded fields (liquer.metadata is
outside the FUC list); util.now() is some text.
"""
from pyvc.dsl import *
from contracts.stores import name_of

FileInfo = Rec("FileInfo", dict(name=Str, is_dir=Bool, filesystem_path=Opt(Str), size=Int, md5=Str))
StoreMeta = Rec("StoreMeta", dict(key=Str, updated=Str, created=Str, fileinfo=FileInfo, mimetype=Opt(Str), type_identifier=Opt(Str)))
classdef("HashObj", fields=dict(digest=Str))


@spec(params=dict(b=Bytes), returns=Str, uninterpreted=True)
def md5hex(b):
    return md5hex(b)


@assumed("hashlib.md5", params=dict(data=Bytes), returns=Ref("HashObj"), returns_fresh=True)
def _(data):
    ensures(result.digest == md5hex(data))


@interface("HashObj.hexdigest", params=dict(self=Ref("HashObj")), returns=Str)
def _(self):
    ensures(result == self.digest)


@contract("liquer.store.Store.finalize_metadata@fields",
          params=dict(self=Ref("Store"), metadata=StoreMeta, key=Opt(Str), is_dir=Bool, data=Opt(Bytes), update=Bool), returns=StoreMeta,
          opaque={"print": Opaque("Any"), "now": Str, "Metadata": "arg0", "as_dict": "self", "key_extension": Opt(Str),
                  "mimetype_from_extension": Opt(Str), "type_identifier_from_extension": Opt(Str)})
def _(self, metadata, key, is_dir=False, data=None, update=False):
    k = ite(isnone(key), "", unopt(key))
    ensures(rec_has(result, "key") and rec_get(result, "key") == k, "the-key-is-recorded")
    ensures(rec_has(result, "fileinfo") and rec_get(rec_get(result, "fileinfo"), "name") == name_of(k)
            and rec_get(rec_get(result, "fileinfo"), "is_dir") == is_dir, "name-and-directory-flag-are-recorded")
    ensures(implies(not isnone(data), rec_has(rec_get(result, "fileinfo"), "size")
                    and rec_get(rec_get(result, "fileinfo"), "size") == length(unopt(data))), "the-size-is-that-of-the-bytes-being-stored")
    ensures(implies(not isnone(data), rec_has(rec_get(result, "fileinfo"), "md5")
                    and rec_get(rec_get(result, "fileinfo"), "md5") == md5hex(unopt(data))), "the-checksum-is-that-of-the-bytes-being-stored")
    ensures(implies(isnone(data) and rec_has(metadata, "fileinfo") and rec_has(rec_get(metadata, "fileinfo"), "md5"),
                    rec_get(rec_get(result, "fileinfo"), "md5") == rec_get(rec_get(metadata, "fileinfo"), "md5")),
            "without-new-bytes-the-recorded-checksum-is-kept")
    ensures(implies(rec_has(metadata, "mimetype") and not isnone(rec_get(metadata, "mimetype")),
                    rec_get(result, "mimetype") == rec_get(metadata, "mimetype")), "the-caller's-media-type-is-kept")


prop("C07", fucs=["liquer.store.Store.finalize_metadata@fields"])
