"""C14 — the routed operations of a mount-point store (inherited from RoutingStore): the operation reaches exactly the store that
route_to selects (the last matching mount, else the default store), with the key unchanged, and no other mounted store is touched."""
from pyvc.dsl import *
from contracts.stores import Meta, KeyList, isdir, anc, parent_of
from contracts.c14_mounts import MP, route_idx

@spec(params=dict(s=MP, key=Str), returns=Ref("Store"), macro=True)
def routed(s, key):
    r = route_idx(s.routing_table, key, len(s.routing_table))
    return ite(r >= 0, s.routing_table[r].store, unopt(s.default_store))


@spec(params=dict(s=MP, key=Str), returns=Bool, macro=True)
def has_route(s, key):
    return route_idx(s.routing_table, key, len(s.routing_table)) >= 0 or not isnone(s.default_store)


@contract("liquer.store.RoutingStore.get_bytes", params=dict(self=MP, key=Str), returns=Bytes)
def _(self, key):
    raises(KeyRouteNotFoundStoreException, when=not has_route(self, key), label="no-mount-matches-and-no-default-store")
    raises(KeyNotFoundStoreException, when=has_route(self, key) and not has(routed(self, key).data, key), label="absent-in-the-routed-store")
    ensures(result == mapget(routed(self, key).data, key), "the-routed-store's-entry-under-the-same-key")


@contract("liquer.store.RoutingStore.remove", params=dict(self=MP, key=Str), opaque={"on_removed": NoneT})
def _(self, key):
    requires(has_route(self, key) and not isdir(routed(self, key), key), "a-routed-file-key")
    raises(KeyRouteNotFoundStoreException, when=not has_route(self, key), label="no-mount-matches-and-no-default-store")
    modifies(routed(self, key).data, routed(self, key).meta)
    ensures(routed(self, key).data == mapdel(old(routed(self, key).data), key) and routed(self, key).meta == mapdel(old(routed(self, key).meta), key),
            "removed-from-the-routed-store-only,under-the-same-key")


@contract("liquer.store.RoutingStore.store", params=dict(self=MP, key=Str, data=Bytes, metadata=Meta),
          opaque={"on_data_changed": NoneT, "on_metadata_changed": NoneT})
def _(self, key, data, metadata):
    requires(has_route(self, key) and key != "" and not has(routed(self, key).dirs, key), "a-routed-key-that-is-not-a-directory-there")
    modifies(routed(self, key).dirs, routed(self, key).data, routed(self, key).meta)
    ensures(routed(self, key).data == mapset(old(routed(self, key).data), key, data), "stored-in-the-routed-store-only,under-the-same-key")
    ensures(routed(self, key).dirs == union(old(routed(self, key).dirs), anc(parent_of(key))), "its-ancestors-become-directories-there")


@contract("liquer.store.RoutingStore.store_metadata", params=dict(self=MP, key=Str, metadata=Meta), opaque={"on_metadata_changed": NoneT})
def _(self, key, metadata):
    requires(has_route(self, key) and key != "", "a-routed-key")
    modifies(routed(self, key).meta)
    ensures(mapdom(routed(self, key).meta) == setadd(mapdom(old(routed(self, key).meta)), key), "metadata-recorded-in-the-routed-store-only")
    ensures(routed(self, key).meta == mapset(old(routed(self, key).meta), key, mapget(routed(self, key).meta, key)), "other-metadata-unchanged")


@contract("liquer.store.RoutingStore.makedir", params=dict(self=MP, key=Str), opaque={"on_data_changed": NoneT, "on_metadata_changed": NoneT})
def _(self, key):
    requires(has_route(self, key) and not has(routed(self, key).data, key), "a-routed-key-that-is-not-a-file-there")
    modifies(routed(self, key).dirs)
    ensures(routed(self, key).dirs == union(old(routed(self, key).dirs), anc(key)), "the-key-and-its-ancestors-become-directories-in-the-routed-store-only")


prop("C14", fucs=["liquer.store.RoutingStore.get_bytes", "liquer.store.RoutingStore.remove", "liquer.store.RoutingStore.store",
                  "liquer.store.RoutingStore.store_metadata", "liquer.store.RoutingStore.makedir"],
     static=[("inherits", "MountPointStore", "RoutingStore", ["get_bytes", "store", "store_metadata", "remove", "makedir"])])
