"""C13 — cache back-ends as faithful maps (deductive part: in-memory cache and the '+' combinator, NoCache, CacheProxy).

Cache interface view (DESIGN.md appendix D.2):  meta: key -> metadata record, data: key -> value;
  retrievable(k) = k in data and k in meta and meta[k].status == "ready".
File, store-backed and SQL caches and the conditional wrappers are covered by the labelled bounded stand-in only.
"""
from pyvc.dsl import *

Data = Opaque("Data")
SMeta = Rec("StateMeta", dict(status=Str, query=Str, is_error=Bool, caching=Bool, created=Str, filename=Opt(Str), extension=Str,
                              vars=Opaque("Any"), log=Seq(Opaque("Any")), volatile=Bool, message=Str, mimetype=Opt(Str), type_identifier=Opt(Str), commands=Seq(Opaque("Any")),
                              extended_commands=Seq(Opaque("Any")), attributes=Opaque("Any"), data_characteristics=Opaque("Any")))

classdef("CommandResult", sealed=True, fields={})      # what a command function may return: a State, or any other object (PlainValue)
classdef("PlainValue", bases=["CommandResult"], fields={})
classdef("liquer.state.State", bases=["CommandResult"],
         fields=dict(data=Data, metadata=SMeta, metadata_only=Bool, exception=Opt(Opaque("Exc")),
                     context=Opaque("Any"), status=Opaque("Any")))
classdef("Cache", abstract=True, fields=dict(cmeta=Map(Str, SMeta), cdata=Map(Str, Data)))
classdef("liquer.cache.MemoryCache", bases=["Cache"], fields=dict(storage=Map(Str, Ref("State"))))
classdef("liquer.cache.CacheCombine", bases=["Cache"], fields=dict(cache1=Ref("Cache"), cache2=Ref("Cache")))
classdef("liquer.cache.NoCache", bases=["Cache"], fields={})
classdef("liquer.cache.CacheProxy", bases=["Cache"], fields=dict(cache=Ref("Cache"), verbose=Bool))

inline("liquer.state.State.is_error", "liquer.state.State.query")
ST = Ref("State")
MC = Ref("MemoryCache")


@spec(params=dict(m=SMeta), returns=Bool, macro=True)
def is_ready(m):
    return rec_has(m, "status") and rec_get(m, "status") == "ready"


@spec(params=dict(m=SMeta), returns=SMeta, macro=True)
def made_ready(m):
    return rec_set(m, "status", "ready")


@spec(params=dict(m=SMeta), returns=Bool, macro=True)
def volatile_of(m):
    """the volatile flag kept in metadata['attributes'] (modelled as a ghost field `volatile` of the metadata record)"""
    return rec_has(m, "volatile") and rec_get(m, "volatile")


@spec(params=dict(m=SMeta), returns=Bool, macro=True)
def state_wf(m):
    """the metadata of a State object: the keys State.__init__ creates (nothing in the library deletes them)"""
    return rec_has(m, "is_error") and rec_has(m, "attributes") and rec_has(m, "type_identifier") and rec_has(m, "vars") and rec_has(m, "query")


@spec(params=dict(m=SMeta), returns=Bool, macro=True)
def admissible(m):
    """C05: finished, successful, non-volatile, caching not switched off"""
    return rec_has(m, "is_error") and not rec_get(m, "is_error") and not volatile_of(m) \
        and (not rec_has(m, "caching") or rec_get(m, "caching"))


@assumed("liquer.state.State.is_volatile", params=dict(self=Ref("State")), returns=Bool, pure=True)
def _(self):
    ensures(result == volatile_of(self.metadata))


# ------------------------------------------------------------------ State helpers (assumed: liquer.state is outside this property's FUC list)
@assumed("liquer.state.State.__init__", params=dict(self=ST, data=Opt(Data), metadata=Opt(SMeta), context=Opt(Data)))
def _(self, data=None, metadata=None, context=None):
    modifies(self.data, self.metadata, self.metadata_only)
    ensures(not self.metadata_only and not rec_has(self.metadata, "status"), "default metadata carries no status")
    ensures(implies(isnone(metadata), rec_has(self.metadata, "is_error") and not rec_get(self.metadata, "is_error")
                    and not volatile_of(self.metadata) and rec_has(self.metadata, "caching") and rec_get(self.metadata, "caching")
                    and rec_has(self.metadata, "query") and rec_get(self.metadata, "query") == "" and state_wf(self.metadata)),
            "the default metadata: no error, not volatile, caching on, standard keys")


# ------------------------------------------------------------------ MemoryCache
@spec(params=dict(c=MC, k=Str), returns=Bool, macro=True)
def mc_retrievable(c, k):
    return has(c.storage, k) and is_ready(mapget(c.storage, k).metadata) and not mapget(c.storage, k).metadata_only


@contract("liquer.cache.MemoryCache.get", params=dict(self=MC, key=Str), returns=Opt(ST))
def _(self, key):
    ensures(isnone(result) == (not mc_retrievable(self, key)), "served-iff-a-finished-value-is-held")
    ensures(implies(not isnone(result), fresh_ref(unopt(result)) and unopt(result).data == mapget(self.storage, key).data
                    and unopt(result).metadata == mapget(self.storage, key).metadata), "an-equal-copy-of-the-stored-state")


@contract("liquer.cache.MemoryCache.contains", params=dict(self=MC, key=Str), returns=Bool)
def _(self, key):
    ensures(result == has(self.storage, key), "present-iff-held")


@contract("liquer.cache.MemoryCache.store", params=dict(self=MC, state=ST), returns=Opt(Bool))
def _(self, state):
    requires(rec_has(state.metadata, "is_error") and rec_has(state.metadata, "query"), "a-state-with-query-and-error-flag")
    q = rec_get(state.metadata, "query")
    err = rec_get(state.metadata, "is_error")
    k0 = const(Str, "k0")
    modifies(self.storage, state.metadata)
    ensures(implies(old(err), isnone(result) and self.storage == old(self.storage)), "error-states-are-refused-and-change-nothing")
    ensures(implies(not old(err), not isnone(result) and unopt(result) and mc_retrievable(self, old(q))
                    and mapget(self.storage, old(q)).data == old(state.data)
                    and mapget(self.storage, old(q)).metadata == made_ready(old(state.metadata))), "stored-value-is-served-ready-under-its-query")
    ensures(implies(k0 != old(q), has(self.storage, k0) == old(has(self.storage, k0))
                    and implies(has(self.storage, k0), mapget(self.storage, k0) is old(mapget(self.storage, k0)))), "other-keys-unchanged")
    ensures(mapdom(self.storage) == (old(mapdom(self.storage)) if old(err) else setadd(old(mapdom(self.storage)), old(q))), "key-listed")


@contract("liquer.cache.MemoryCache.store_metadata", params=dict(self=MC, metadata=SMeta), returns=Bool)
def _(self, metadata):
    requires(rec_has(metadata, "query"), "metadata-names-its-query")
    q = rec_get(metadata, "query")
    k0 = const(Str, "k0")
    requires(implies(k0 != q and has(self.storage, k0) and has(self.storage, q), mapget(self.storage, k0) is not mapget(self.storage, q)),
             "class-invariant-instance:distinct-keys-hold-distinct-state-objects")
    modifies(self.storage, mapget(self.storage, q).metadata)
    ensures(implies(not old(mc_retrievable(self, k0)) and not (k0 == q and old(has(self.storage, q))), not mc_retrievable(self, k0)),
            "a-metadata-only-write-never-makes-data-retrievable")
    ensures(has(self.storage, q) and mapget(self.storage, q).metadata == metadata, "metadata-recorded")
    ensures(implies(k0 != q, has(self.storage, k0) == old(has(self.storage, k0))), "other-keys-unchanged")


@contract("liquer.cache.MemoryCache.remove", params=dict(self=MC, key=Str), returns=Bool)
def _(self, key):
    modifies(self.storage)
    ensures(self.storage == mapdel(old(self.storage), key), "gone-others-unchanged")
    ensures(not mc_retrievable(self, key), "nothing-served")


@contract("liquer.cache.MemoryCache.clean", params=dict(self=MC))
def _(self):
    modifies(self.storage)
    ensures(mapdom(self.storage) == emptyset(Str), "empty")


@spec(params=dict(r=Opt(Bool)), returns=Bool, macro=True)
def accepted(r):
    """truthiness of the value returned by store(): True = the cache took the value"""
    return not isnone(r) and unopt(r)


# ------------------------------------------------------------------ interface used by the combinators
@spec(params=dict(c=Ref("Cache"), k=Str), returns=Bool, macro=True)
def retrievable(c, k):
    return has(c.cdata, k) and has(c.cmeta, k) and is_ready(mapget(c.cmeta, k))


@interface("Cache.get", params=dict(self=Ref("Cache"), key=Str), returns=Opt(ST))
def _(self, key):
    ensures(isnone(result) == (not retrievable(self, key)))
    ensures(implies(not isnone(result), fresh_ref(unopt(result)) and unopt(result).data == mapget(self.cdata, key)
                    and unopt(result).metadata == mapget(self.cmeta, key)))
    ensures(implies(not isnone(result), state_wf(unopt(result).metadata)),
            "assumed-of-every-cache,not-proved-on-the-implementations:a-cached-state-carries-the-standard-metadata-keys")


@interface("Cache.get_metadata", params=dict(self=Ref("Cache"), key=Str), returns=Opt(SMeta))
def _(self, key):
    ensures(isnone(result) == (not has(self.cmeta, key)))
    ensures(implies(not isnone(result), unopt(result) == mapget(self.cmeta, key)))


@interface("Cache.contains", params=dict(self=Ref("Cache"), key=Str), returns=Bool)
def _(self, key):
    ensures(result == has(self.cmeta, key))


@interface("Cache.remove", params=dict(self=Ref("Cache"), key=Str), returns=Bool)
def _(self, key):
    modifies(self.cmeta, self.cdata)
    ensures(self.cmeta == mapdel(old(self.cmeta), key) and self.cdata == mapdel(old(self.cdata), key))


@interface("Cache.store_metadata", params=dict(self=Ref("Cache"), metadata=SMeta), returns=Opt(Bool))
def _(self, metadata):
    modifies(self.cmeta)


@interface("Cache.store", params=dict(self=Ref("Cache"), state=ST), returns=Opt(Bool))
def _(self, state):
    requires(admissible(state.metadata), "admissible")
    requires(rec_has(state.metadata, "is_error") and rec_has(state.metadata, "query"))
    q = rec_get(state.metadata, "query")
    modifies(self.cmeta, self.cdata, state.metadata)
    ensures(implies(accepted(result), self.cdata == mapset(old(self.cdata), old(q), old(state.data))
                    and self.cmeta == mapset(old(self.cmeta), old(q), made_ready(old(state.metadata)))))
    ensures(implies(not accepted(result), self.cdata == old(self.cdata) and self.cmeta == old(self.cmeta)) or
            (not retrievable(self, old(q)) and mapdel(self.cdata, old(q)) == mapdel(old(self.cdata), old(q))
             and mapdel(self.cmeta, old(q)) == mapdel(old(self.cmeta), old(q))))
    ensures(implies(old(rec_get(state.metadata, "is_error")), not accepted(result)))
    ensures(state.metadata == old(state.metadata) or state.metadata == made_ready(old(state.metadata)), "the-state-is-at-most-marked-ready")


# ------------------------------------------------------------------ CacheCombine ('+')
CC = Ref("CacheCombine")


@spec(params=dict(c=CC), returns=Bool, macro=True)
def cc_inv(c):
    return c.cache1 is not c.cache2


@contract("liquer.cache.CacheCombine.get", params=dict(self=CC, key=Str), returns=Opt(ST))
def _(self, key):
    requires(cc_inv(self))
    ensures(isnone(result) == (not retrievable(self.cache1, key) and not retrievable(self.cache2, key)), "first-non-empty-of-the-parts")
    ensures(implies(retrievable(self.cache1, key), unopt(result).data == mapget(self.cache1.cdata, key)), "first-cache-wins")
    ensures(implies(not retrievable(self.cache1, key) and retrievable(self.cache2, key), unopt(result).data == mapget(self.cache2.cdata, key)),
            "second-cache-otherwise")


@contract("liquer.cache.CacheCombine.contains", params=dict(self=CC, key=Str), returns=Bool)
def _(self, key):
    ensures(result == (has(self.cache1.cmeta, key) or has(self.cache2.cmeta, key)), "present-in-either")


@contract("liquer.cache.CacheCombine.remove", params=dict(self=CC, key=Str), returns=Bool)
def _(self, key):
    requires(cc_inv(self))
    modifies(self.cache1.cmeta, self.cache1.cdata, self.cache2.cmeta, self.cache2.cdata)
    ensures(not has(self.cache1.cmeta, key) and not has(self.cache2.cmeta, key)
            and not retrievable(self.cache1, key) and not retrievable(self.cache2, key), "absent-in-both")
    ensures(mapdel(self.cache1.cdata, key) == mapdel(old(self.cache1.cdata), key) and mapdel(self.cache2.cdata, key) == mapdel(old(self.cache2.cdata), key),
            "other-keys-unchanged")


@contract("liquer.cache.CacheCombine.store", params=dict(self=CC, state=ST), returns=Opt(Bool))
def _(self, state):
    requires(cc_inv(self))
    requires(admissible(state.metadata), "admissible:the-caller-hands-over-only-finished-successful-non-volatile-results")
    requires(rec_has(state.metadata, "is_error") and rec_has(state.metadata, "query"))
    q = rec_get(state.metadata, "query")
    modifies(self.cache1.cmeta, self.cache1.cdata, self.cache2.cmeta, self.cache2.cdata, state.metadata)
    ensures(implies(accepted(result), (retrievable(self.cache1, old(q)) and mapget(self.cache1.cdata, old(q)) == old(state.data))
                    or (not retrievable(self.cache1, old(q)) and retrievable(self.cache2, old(q))
                        and mapget(self.cache2.cdata, old(q)) == old(state.data))), "the-new-value-is-what-get-serves")
    ensures(implies(not accepted(result), not retrievable(self.cache1, old(q)) and not retrievable(self.cache2, old(q))), "a-refused-value-leaves-nothing-stale")


# ------------------------------------------------------------------ NoCache, CacheProxy
NC = Ref("NoCache")


@contract("liquer.cache.NoCache.get", params=dict(self=NC, key=Str), returns=Opt(ST))
def _(self, key):
    ensures(isnone(result), "never-serves")


@contract("liquer.cache.NoCache.store", params=dict(self=NC, state=ST), returns=Bool)
def _(self, state):
    ensures(not result, "never-accepts")


@contract("liquer.cache.NoCache.contains", params=dict(self=NC, key=Str), returns=Bool)
def _(self, key):
    ensures(not result, "never-contains")


CP = Ref("CacheProxy")


@contract("liquer.cache.CacheProxy.get", params=dict(self=CP, key=Str), returns=Opt(ST))
def _(self, key):
    ensures(isnone(result) == (not retrievable(self.cache, key)), "as-the-wrapped-cache")
    ensures(implies(not isnone(result), unopt(result).data == mapget(self.cache.cdata, key)), "as-the-wrapped-cache:value")


@contract("liquer.cache.CacheProxy.remove", params=dict(self=CP, key=Str), returns=Bool)
def _(self, key):
    modifies(self.cache.cmeta, self.cache.cdata)
    ensures(self.cache.cmeta == mapdel(old(self.cache.cmeta), key) and self.cache.cdata == mapdel(old(self.cache.cdata), key), "as-the-wrapped-cache")


prop("C13", fucs=["liquer.cache.MemoryCache.get", "liquer.cache.MemoryCache.contains", "liquer.cache.MemoryCache.store",
                  "liquer.cache.MemoryCache.store_metadata", "liquer.cache.MemoryCache.remove", "liquer.cache.MemoryCache.clean",
                  "liquer.cache.CacheCombine.get", "liquer.cache.CacheCombine.contains", "liquer.cache.CacheCombine.remove",
                  "liquer.cache.CacheCombine.store", "liquer.cache.NoCache.get", "liquer.cache.NoCache.store", "liquer.cache.NoCache.contains",
                  "liquer.cache.CacheProxy.get", "liquer.cache.CacheProxy.remove", "liquer.cache.StoreCache.to_path"],
     lemmas=["nested_paths_injective"])


# ------------------------------------------------------------------ StoreCache: key -> store path
classdef("BackingStore", abstract=True, fields={})      # the store behind a StoreCache: any store, every operation may fail
classdef("liquer.cache.StoreCache", bases=["Cache"], fields=dict(storage=Ref("BackingStore"), path=Str, flat=Bool))
SC = Ref("StoreCache")


@spec(params=dict(p=Str, key=Str, prefix=Str), returns=Str, macro=True)
def nested_path(p, key, prefix):
    """the store key under which the nested layout files a cache key"""
    raw = p + "/" + key + "/" + prefix + ".data"
    if raw.startswith("/"):
        return raw[1:]
    return raw


@contract("liquer.cache.StoreCache.to_path", params=dict(self=SC, key=Str, prefix=Str), returns=Str,
          opaque={"md5": Opaque("Any"), "update": NoneT, "hexdigest": Str})
def _(self, key, prefix="0state_"):
    ensures(implies(not self.flat, result == nested_path(self.path, key, prefix)), "nested-layout:path/key/prefix.data")


@lemma(params=dict(p=Str, k1=Str, k2=Str, prefix=Str))
def nested_paths_injective(p, k1, k2, prefix):
    """different cache keys are filed under different store keys (nested layout)"""
    requires(nested_path(p, k1, prefix) == nested_path(p, k2, prefix))
    ensures(k1 == k2)


# ------------------------------------------------------------------ C12: what concurrent readers of a shared memory cache can observe
# Per-operation guarantees (each is one of the obligations above): (i) get serves only an entry whose data was stored and whose
# metadata says ready - a metadata-only placeholder is never served; (ii) store_metadata, which evaluations use for progress
# and for the *final* metadata that precedes the data, never makes an entry retrievable; (iii) store files data and ready metadata
# in one operation; (iv) remove / clean only remove.  Under the property's own granularity (one cache operation is one step)
# these give "an entry another evaluation is still producing is never served as finished"; the schedule-level statement
# (serialisability of whole evaluations) is explored by the labelled bounded stand-in only.
prop("C12", fucs=["liquer.cache.MemoryCache.get", "liquer.cache.MemoryCache.store", "liquer.cache.MemoryCache.store_metadata",
                  "liquer.cache.MemoryCache.remove", "liquer.cache.MemoryCache.contains", "liquer.cache.CacheCombine.get",
                  "liquer.cache.CacheCombine.store"])
