"""C05 / C04 / C09 / C06 — slice verification of the real body of Context.evaluate (liquer/context.py).

The whole body is executed symbolically; only the state that decides cache admission is modelled exactly
(error flag, volatility, caching flag, query text of the state, which cache object is used, the ghost log of
cache operations).  Every other callee is *opaque* (declared below, listed as an assumption in the evidence).
Obligations:
  pre:admissible@Cache.store        the value handed to the cache is finished, successful, non-volatile, caching on,
                                    and is filed under the canonical text of the query                                (C05)
  post:lookup-bypassed-...          no cache lookup when extra parameters / an input value are given                (C04, C05)
  post:hit-returns-the-cached-state and runs no action                                                              (C04, C09)
  post:same-cache-for-the-prefix    the predecessor is evaluated with the same cache object                         (C04, C09)
  post:failed-prefix-short-circuits no action is evaluated after a failed predecessor, the result is an error       (C06)
  post:errors-are-never-stored      an erroneous result never reaches Cache.store                                   (C05)
"""
from pyvc.dsl import *
from contracts.c13_caches import SMeta, Data, ST, state_wf

QArg = Opaque("Any")
Any = Opaque("Any")
classdef("liquer.context.Vars", fields=dict(src=Any))       # the variables of a context; `src` (ghost): the dictionary they were taken from
classdef("liquer.context.Context",
         fields=dict(query=Opt(Ref("Query")), raw_query=Opt(Str), status=Str, _metadata=Any, vars=Ref("Vars"), evaluated_key=Opt(Str), cwd_key=Opt(Str),
                     enable_store_metadata=Bool, parent_query=Opt(Str), store_key=Opt(Str), store_to=Opt(Ref("TargetStore")), started=Str,
                     is_error=Bool, caching=Bool, argument_queries=Any))
CX = Ref("Context")
classdef("TargetStore", abstract=True, fields={})       # the store an evaluation writes its result to (any store)


@spec(params=dict(q=Ref("Query")), returns=Str, uninterpreted=True)
def canonical(q):
    return canonical(q)


@assumed("liquer.context.Vars.__init__", params=dict(self=Ref("Vars"), d=Any))
def _(self, d):
    """Vars(d): a dictionary initialised from d"""
    modifies(self.src)
    ensures(self.src == d)


@assumed("liquer.parser.Query.encode", params=dict(self=Ref("Query")), returns=Str, pure=True)
def _(self):
    ensures(result == canonical(self))


@assumed("liquer.context.Context.to_query", params=dict(cls=Opaque("Class"), query=QArg), returns=Tuple(Str, Ref("Query")))
def _(cls, query):
    pass


@assumed("liquer.parser.Query.predecessor", params=dict(self=Ref("Query")), returns=Tuple(Opt(Ref("Query")), Opt(Ref("TransformQuerySegment"))))
def _(self):
    pass


@assumed("liquer.context.Context.child_context", params=dict(self=CX), returns=CX, returns_fresh=True)
def _(self):
    ensures(fresh_ref(result) and isnone(result.query), "a-new-context-without-a-query")


@assumed("liquer.context.Context.evaluate_action", params=dict(self=CX, state=ST, action=Ref("TransformQuerySegment"), extra_parameters=Opt(Seq(Any)), cache=Opt(Ref("Cache"))),
         returns=ST)
def _(self, state, action, extra_parameters=None, cache=None):
    modifies(self.status, self.vars, self.is_error)
    ensures(state_wf(result.metadata))


@contract("liquer.state.State.with_data", params=dict(self=ST, data=Data), returns=ST,
          opaque={"type_identifier_of": Opt(Str), "data_characteristics": Any})
def _(self, data):
    modifies(self.data, self.metadata)
    ensures(result is self and self.data == data, "the-data-is-kept-as-given")
    ensures(self.metadata == rec_set(rec_set(old(self.metadata), "type_identifier", rec_get(self.metadata, "type_identifier")),
                                     "data_characteristics", rec_get(self.metadata, "data_characteristics")), "only-the-type-description-changes")


@contract("liquer.context.Context.create_initial_state", params=dict(self=CX, input_value=Opt(Data)), returns=ST, returns_fresh=True)
def _(self, input_value=None):
    ensures(fresh_ref(result) and rec_has(result.metadata, "is_error") and not rec_get(result.metadata, "is_error"), "a-new-successful-state")
    ensures(rec_get(result.metadata, "query") == "" and state_wf(result.metadata), "of-the-empty-query,with-the-standard-keys")
    ensures(implies(not isnone(input_value), result.data == unopt(input_value)), "C01:the-supplied-input-value-reaches-the-first-action")
    ensures(volatile_of(result.metadata) == (not isnone(input_value)), "C05:volatile-exactly-when-a-value-was-injected")


@assumed("liquer.context.Context.evaluate_resource", params=dict(self=CX, resource_query=Any), returns=ST)
def _(self, resource_query):
    ensures(state_wf(result.metadata))


module_state("liquer.cache", dict(_cache=Ref("Cache")))


@assumed("liquer.context.Context.cache", params=dict(self=CX), returns=Ref("Cache"))
def _(self):
    ensures(result is module("liquer.cache")._cache, "the-global-cache")


inline("liquer.state.State.vars")

OPAQUE = {"debug": NoneT, "now": Str, "set_description": NoneT, "index_state": "arg1", "store_metadata": NoneT,
          "warning": NoneT, "log_subquery": NoneT, "log_dict": NoneT, "format_exc": Str, "vars_clone": Any, "__init__": NoneT,
          "is_resource_query": Bool, "resource_query": Any, "is_empty": Bool, "is_filename": Bool, "parent_key": Opt(Str), "get": Any,
          "repr": Str, "encode": Str}


@contract("liquer.context.Context.evaluate",
          params=dict(self=CX, query=QArg, cache=Opt(Ref("Cache")), description=Opt(Str), store_key=Opt(Str), store_to=Opt(Ref("TargetStore")),
                      extra_parameters=Opt(Seq(Any)), input_value=Opt(Data), input_value_specified=Bool),
          returns=ST, opaque=OPAQUE)
def _(self, query, cache=None, description=None, store_key=None, store_to=None, extra_parameters=None, input_value=None,
      input_value_specified=False):
    g = module("liquer.cache")._cache
    bypass = (not isnone(extra_parameters) and len(unopt(extra_parameters)) > 0) or not isnone(input_value) or input_value_specified
    c = ite(isnone(cache), g, unopt(cache))
    raises(EvaluationException, label="a-nested-evaluation-or-a-link-argument-failed")
    raises(Exception, label="evaluation-exceptions-propagate")
    modifies_any("State.metadata")
    modifies_any("State.status")
    modifies_any("State.context")
    modifies_all(self)
    modifies(c.cmeta, c.cdata, g.cmeta, g.cdata)
    ensures(implies(log_raised("Context.evaluate") > 0, self.is_error and self.status == "error"),
            "onraise:EvaluationException:C18:a-failure-coming-up-from-a-nested-evaluation-is-recorded-at-this-level-before-it-goes-on")
    ensures(implies(old(isnone(self.query)) and bypass, log_count("Cache.get") == 0), "lookup-bypassed-for-extra-parameters-and-input-values")
    ensures(implies(old(isnone(self.query)) and log_count("Cache.get") > 0,
                    log_arg("Cache.get", "key") == canonical(unopt(self.query)) and log_arg("Cache.get", "self") is c),
            "the-lookup-uses-the-canonical-text-of-the-query,in-the-cache-that-was-given")
    ensures(implies(log_count("Cache.store") > 0 and not isnone(cache), log_arg("Cache.store", "self") is unopt(cache)), "stores-only-into-the-given-cache")
    ensures(implies(log_count("Context.evaluate_action") == 0, log_count("Cache.store") == 0), "only-freshly-computed-results-are-stored")
    ensures(implies(log_count("Cache.store") > 0,
                    rec_has(log_arg("Cache.store", "state").metadata, "query")
                    and rec_get(log_arg("Cache.store", "state").metadata, "query") == canonical(unopt(self.query))),
            "filed-under-the-canonical-text-of-the-query")
    ensures(implies(log_count("Cache.store") > 0, log_arg("Cache.store", "state") is result), "the-stored-state-is-the-returned-one")
    ensures(implies(log_count("Context.evaluate_action") > 0 and rec_has(result.metadata, "is_error") and rec_get(result.metadata, "is_error"),
                    log_count("Cache.store") == 0), "errors-are-never-stored")
    ensures(implies(log_count("Context.evaluate_action") > 0 and admissible(result.metadata), log_count("Cache.store") == 1),
            "every-admissible-result-is-stored-at-its-own-level")
    ensures(implies(old(isnone(self.query)) and log_count("Cache.get") > 0 and not isnone(log_result("Cache.get")),
                    log_count("Context.evaluate_action") == 0 and log_count("Context.evaluate") == 0 and log_count("Cache.store") == 0
                    and result is unopt(log_result("Cache.get"))), "a-cache-hit-is-returned-as-is-and-runs-nothing")
    ensures(implies(old(isnone(self.query)) and log_count("Context.evaluate") > 0 and not isnone(cache),
                    not isnone(log_arg("Context.evaluate", "cache")) and unopt(log_arg("Context.evaluate", "cache")) is unopt(cache)),
            "the-prefix-is-evaluated-with-the-same-cache")
    ensures(implies(old(isnone(self.query)) and log_count("Context.evaluate") > 0
                    and rec_has(log_result_field("Context.evaluate", "metadata"), "is_error") and rec_get(log_result_field("Context.evaluate", "metadata"), "is_error"),
                    log_count("Context.evaluate_action") == 0 and rec_has(result.metadata, "is_error") and rec_get(result.metadata, "is_error")),
            "a-failed-prefix-short-circuits:no-action-runs-and-the-result-is-an-error")
    ensures(implies(log_count("Context.evaluate_action") > 0 and rec_has(result.metadata, "is_error") and not rec_get(result.metadata, "is_error")
                    and not admissible(result.metadata) and log_count("Cache.store") == 0,
                    log_count("Cache.remove") > 0), "a-result-that-is-not-admitted-evicts-the-stale-entry")
    ensures(implies(old(isnone(self.query)), log_count("Context._store_state") >= 1 and log_arg("Context._store_state", "state") is result),
            "C08:every-result-served-or-computed-is-handed-to-the-store-writer")
    ensures(state_wf(result.metadata), "the-result-is-a-state-with-the-standard-keys")
    ensures(implies(old(not isnone(self.query)), self.raw_query == old(self.raw_query) and self.query == old(self.query)
                    and self.parent_query == old(self.parent_query)),
            "a-sub-query-evaluated-through-a-busy-context-leaves-that-context's-own-query-alone")
    ensures(implies(old(not isnone(self.query)), self.enable_store_metadata == old(self.enable_store_metadata)),
            "C18:a-sub-query-leaves-the-metadata-writing-switch-of-the-asking-evaluation-as-it-was")


prop("C05", fucs=["liquer.context.Context.evaluate", "liquer.context.Context.create_initial_state"])
prop("C01", fucs=["liquer.context.Context.create_initial_state", "liquer.state.State.with_data"])
prop("C04", fucs=["liquer.context.Context.evaluate"])
prop("C09", fucs=["liquer.context.Context.evaluate", "liquer.context.Context.create_initial_state"])
prop("C06", fucs=["liquer.context.Context.evaluate"])
prop("C18", fucs=["liquer.context.Context.evaluate"])
