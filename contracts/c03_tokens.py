"""C03 (safety half) — the encoded form of an argument is URL-path safe and contains no bare separator, for ALL strings.

Method (DESIGN.md 5, C03): alphabet contracts.  alph(s) is the set of characters of s; the eight table-driven replace steps
of encode_token (the loop over the constant ESCAPE_SEQUENCES table is unrolled from the real module constant), urllib's
quote and the two '%7E' replacements are a straight-line computation on alphabets.  The round-trip half stays with the
labelled bounded stand-in.
"""
from pyvc.dsl import *


@assumed("urllib.parse.quote", params=dict(string=Str), returns=Str)
def _(string):
    """urllib.parse.quote with the default safe='/': letters, digits and '_.-~' and '/' are kept, everything else becomes %XX"""
    ensures(subset(alph(result), union(alnum_chars(), charset("_.-~/%"))), "output-alphabet")
    ensures(implies(has(alph(result), "/"), has(alph(string), "/")), "slash-only-if-given")
    ensures(implies(has(alph(result), "-"), has(alph(string), "-")), "dash-only-if-given")


@contract("liquer.parser.encode_token", params=dict(token=Str), returns=Str)
def _(token):
    ensures(not has(alph(result), "/"), "no-command-separator")
    ensures(not has(alph(result), "-"), "no-parameter-separator")
    ensures(not has(alph(result), " "), "no-space")
    ensures(subset(alph(result), union(alnum_chars(), charset("_.~%"))), "only-unreserved-characters-and-percent-escapes")


@contract("liquer.parser.StringActionParameter.encode", params=dict(self=Ref("StringActionParameter")), returns=Str)
def _(self):
    ensures(not has(alph(result), "/") and not has(alph(result), "-") and not has(alph(result), " "), "no-bare-separator")
    ensures(subset(alph(result), union(alnum_chars(), charset("_.~%"))), "url-path-safe")



prop("C03", fucs=["liquer.parser.encode_token", "liquer.parser.StringActionParameter.encode"])
