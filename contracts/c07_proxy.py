"""C07 — the generic proxy (ProxyStore) in front of any store: every mutator does to the wrapped store exactly what the Store
interface says, under the same key (whole-view equalities), so a store behind the proxy behaves as the store itself.
(The reads of ProxyStore are proved under C17.)"""
from pyvc.dsl import *
from contracts.stores import Meta, KeyList, isdir, anc, parent_of, child_names
from contracts.c17_access import PS


@contract("liquer.store.ProxyStore.store", params=dict(self=PS, key=Str, data=Bytes, metadata=Meta))
def _(self, key, data, metadata):
    requires(key != "" and not has(self._store.dirs, key), "target-is-not-a-directory")
    modifies(self._store.dirs, self._store.data, self._store.meta)
    ensures(self._store.data == mapset(old(self._store.data), key, data), "bytes-stored-in-the-wrapped-store-others-unchanged")
    ensures(self._store.dirs == union(old(self._store.dirs), anc(parent_of(key))), "ancestors-become-directories")
    ensures(mapdom(self._store.meta) == setadd(mapdom(old(self._store.meta)), key), "metadata-recorded")


@contract("liquer.store.ProxyStore.store_metadata", params=dict(self=PS, key=Str, metadata=Meta))
def _(self, key, metadata):
    requires(key != "", "not-the-root")
    modifies(self._store.meta)
    ensures(mapdom(self._store.meta) == setadd(mapdom(old(self._store.meta)), key), "metadata-recorded")
    ensures(self._store.meta == mapset(old(self._store.meta), key, mapget(self._store.meta, key)), "other-metadata-unchanged")


@contract("liquer.store.ProxyStore.remove", params=dict(self=PS, key=Str))
def _(self, key):
    requires(not isdir(self._store, key), "target-is-not-a-directory")
    modifies(self._store.data, self._store.meta)
    ensures(self._store.data == mapdel(old(self._store.data), key) and self._store.meta == mapdel(old(self._store.meta), key), "gone-from-the-wrapped-store-others-unchanged")


@contract("liquer.store.ProxyStore.makedir", params=dict(self=PS, key=Str))
def _(self, key):
    requires(not has(self._store.data, key), "not-a-file")
    modifies(self._store.dirs)
    ensures(self._store.dirs == union(old(self._store.dirs), anc(key)), "the-key-and-its-ancestors-become-directories")


prop("C07", fucs=["liquer.store.ProxyStore.store", "liquer.store.ProxyStore.store_metadata", "liquer.store.ProxyStore.remove", "liquer.store.ProxyStore.makedir"])


# ------------------------------------------------------------------ the indexing proxy
classdef("liquer.store.IndexerStore", bases=["ProxyStore"], fields={})


@contract("liquer.store.IndexerStore.store", params=dict(self=Ref("IndexerStore"), key=Str, data=Bytes, metadata=Meta),
          opaque={"index": Meta, "get": Opaque("Any"), "to_root_key": Str})
def _(self, key, data, metadata):
    """whatever the indexer does to the metadata, the bytes go to the wrapped store unchanged, under the same key"""
    requires(key != "" and not has(self._store.dirs, key), "target-is-not-a-directory")
    modifies(self._store.dirs, self._store.data, self._store.meta)
    ensures(self._store.data == mapset(old(self._store.data), key, data), "bytes-stored-in-the-wrapped-store-unchanged,others-untouched")
    ensures(self._store.dirs == union(old(self._store.dirs), anc(parent_of(key))), "ancestors-become-directories")
    ensures(mapdom(self._store.meta) == setadd(mapdom(old(self._store.meta)), key), "metadata-recorded")


prop("C07", fucs=["liquer.store.IndexerStore.store"],
     static=[("inherits", "IndexerStore", "ProxyStore", ["get_bytes", "get_metadata", "contains", "is_dir", "keys", "listdir", "store_metadata", "remove", "makedir"])])
