"""State copies (State.as_dict / from_dict / next_state / clone), proved: a copy carries equal metadata (next_state: except the description of
the data, which with_data(None) rewrites) and is a new object.  deepcopy / copy_state_data return an equal value (values are mathematical in
the model; that the copy shares nothing with the original is the `owned` data-flow obligation of C10, not this contract)."""
from pyvc.dsl import *
from contracts.c13_caches import SMeta, Data, ST, state_wf
from contracts.c05_evaluate import Any


@contract("liquer.state.State.as_dict", params=dict(self=ST), returns=SMeta, opaque={"deepcopy": "arg0"})
def _(self):
    ensures(result == self.metadata, "a-copy-of-the-metadata")


@contract("liquer.state.State.from_dict", params=dict(self=ST, metadata=SMeta), returns=ST, opaque={"deepcopy": "arg0"})
def _(self, metadata):
    modifies(self.metadata)
    ensures(result is self and self.metadata == metadata, "takes-a-copy-of-the-given-metadata")


@contract("liquer.state.State.next_state", params=dict(self=ST), returns=ST, returns_fresh=True)
def _(self):
    ensures(fresh_ref(result) and result.data == as_data(None), "a-new-state-without-data")
    ensures(result.metadata == rec_set(rec_set(self.metadata, "type_identifier", rec_get(result.metadata, "type_identifier")),
                                       "data_characteristics", rec_get(result.metadata, "data_characteristics")),
            "with-the-same-metadata-except-the-description-of-the-data")


COPIES = ["liquer.state.State.as_dict", "liquer.state.State.from_dict", "liquer.state.State.next_state"]
prop("C06", fucs=COPIES)      # the short-circuit after a failed prefix returns next_state(): the error flag and the log travel with it
prop("C05", fucs=COPIES)
prop("C13", fucs=["liquer.state.State.clone"])


@contract("liquer.state.State.clone", params=dict(self=ST), returns=ST, returns_fresh=True, opaque={"copy_state_data": "arg0"})
def _(self):
    ensures(fresh_ref(result) and result.data == self.data and result.metadata == self.metadata and not result.metadata_only,
            "an equal, independent state")


prop("C10", fucs=["liquer.state.State.clone"])
