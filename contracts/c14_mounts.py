"""C14 — mounted stores: key translation and forwarding are exact.

Proved: PrefixStore.translate_key in both directions against the ghost functions strip/unstrip with the two
inverse lemmas; PrefixStore.contains / is_dir (mount point is a directory); every KeyTranslatingStore forwarder
reaches the sub-store entry addressed by the stripped key and nothing else (interface contracts of the sub-store),
and get_metadata reports the composite's key.  MountPointStore.route_to / keys / listdir / is_dir (loops over the
routing table, generators) are covered by the labelled bounded stand-in only.
"""
from pyvc.dsl import *
from contracts.stores import Meta, KeyList

classdef("liquer.store.KeyTranslatingStore", bases=["Store"], fields=dict(substore=Ref("Store")))
classdef("liquer.store.PrefixStore", bases=["KeyTranslatingStore"], fields=dict(prefix=Str))
PX = Ref("PrefixStore")


@spec(params=dict(p=Str, k=Str), returns=Bool, macro=True)
def at_or_below(p, k):
    return k == p or k.startswith(p + "/")


@spec(params=dict(p=Str, k=Str), returns=Str, macro=True)
def strip(p, k):
    """the key with the mount prefix stripped"""
    if k == p:
        return ""
    return k[len(p) + 1:]


@spec(params=dict(p=Str, k=Str), returns=Str, macro=True)
def unstrip(p, k):
    """sub-store key re-prefixed"""
    if k == "":
        return p
    return p + "/" + k


@lemma(params=dict(p=Str, k=Str))
def strip_unstrip(p, k):
    """re-prefixing then stripping gives the sub-store key back"""
    ensures(at_or_below(p, unstrip(p, k)) and strip(p, unstrip(p, k)) == k)


@lemma(params=dict(p=Str, k=Str))
def unstrip_strip(p, k):
    """stripping then re-prefixing gives the composite key back (root key to sub-store key and back)"""
    requires(at_or_below(p, k) and not k.endswith("/"))
    ensures(unstrip(p, strip(p, k)) == k)


@contract("liquer.store.PrefixStore.translate_key", params=dict(self=PX, key=Opt(Str), inverse=Bool), returns=Str)
def _(self, key, inverse=False):
    k = ite(isnone(key), "", unopt(key))
    raises(KeyNotSupportedStoreException, when=not inverse and not isnone(key) and not at_or_below(self.prefix, k), label="outside-the-mount")
    raises(AttributeError, when=not inverse and isnone(key), label="none-key")
    ensures(implies(inverse, result == unstrip(self.prefix, k)), "inverse:re-prefixed")
    ensures(implies(not inverse, result == strip(self.prefix, k)), "forward:prefix-stripped")


@spec(params=dict(s=PX, k=Str), returns=Bool, macro=True)
def px_present(s, k):
    return k == s.prefix or present(s.substore, strip(s.prefix, k))


@contract("liquer.store.PrefixStore.contains", params=dict(self=PX, key=Str), returns=Bool)
def _(self, key):
    raises(KeyNotSupportedStoreException, when=not at_or_below(self.prefix, key), label="outside-the-mount")
    ensures(result == px_present(self, key), "mount-point-or-substore-entry")


@contract("liquer.store.PrefixStore.is_dir", params=dict(self=PX, key=Str), returns=Bool)
def _(self, key):
    raises(KeyNotSupportedStoreException, when=not at_or_below(self.prefix, key), label="outside-the-mount")
    ensures(result == (key == self.prefix or isdir(self.substore, strip(self.prefix, key))), "mount-point-is-a-directory")


KT = Ref("PrefixStore")     # the forwarders are inherited from KeyTranslatingStore; they are verified for PrefixStore receivers


@contract("liquer.store.KeyTranslatingStore.get_bytes", params=dict(self=KT, key=Str), returns=Bytes)
def _(self, key):
    raises(KeyNotSupportedStoreException, when=not at_or_below(self.prefix, key), label="outside-the-mount")
    raises(KeyNotFoundStoreException, when=at_or_below(self.prefix, key) and not has(self.substore.data, strip(self.prefix, key)), label="absent")
    ensures(result == mapget(self.substore.data, strip(self.prefix, key)), "the-substore-entry-at-the-stripped-key")


@contract("liquer.store.KeyTranslatingStore.store", params=dict(self=KT, key=Str, data=Bytes, metadata=Meta))
def _(self, key, data, metadata):
    requires(clean(key) and at_or_below(self.prefix, key) and key != self.prefix and not has(self.substore.dirs, strip(self.prefix, key)), "a-clean-file-key-below-the-mount")
    modifies(self.substore.dirs, self.substore.data, self.substore.meta)
    ensures(self.substore.data == mapset(old(self.substore.data), strip(self.prefix, key), data), "stored-at-the-stripped-key-others-unchanged")
    ensures(self.substore.dirs == union(old(self.substore.dirs), anc(parent_of(strip(self.prefix, key)))), "ancestors-in-the-substore")


@contract("liquer.store.KeyTranslatingStore.remove", params=dict(self=KT, key=Str))
def _(self, key):
    requires(at_or_below(self.prefix, key) and not isdir(self.substore, strip(self.prefix, key)), "a-file-key-below-the-mount")
    modifies(self.substore.data, self.substore.meta)
    ensures(self.substore.data == mapdel(old(self.substore.data), strip(self.prefix, key)), "removed-at-the-stripped-key-others-unchanged")
    ensures(self.substore.meta == mapdel(old(self.substore.meta), strip(self.prefix, key)), "metadata-removed-at-the-stripped-key")


@contract("liquer.store.KeyTranslatingStore.store_metadata", params=dict(self=KT, key=Str, metadata=Meta))
def _(self, key, metadata):
    requires(clean(key) and at_or_below(self.prefix, key) and key != self.prefix, "a-clean-key-below-the-mount")
    modifies(self.substore.meta)
    ensures(mapdom(self.substore.meta) == setadd(mapdom(old(self.substore.meta)), strip(self.prefix, key)), "metadata-recorded-at-the-stripped-key")
    ensures(self.substore.meta == mapset(old(self.substore.meta), strip(self.prefix, key), mapget(self.substore.meta, strip(self.prefix, key))),
            "other-metadata-unchanged")
    ensures(self.substore.data == old(self.substore.data) and self.substore.dirs == old(self.substore.dirs), "no-data-or-directory-changes")


@contract("liquer.store.KeyTranslatingStore.makedir", params=dict(self=KT, key=Str))
def _(self, key):
    requires(clean(key) and at_or_below(self.prefix, key) and key != self.prefix and not has(self.substore.data, strip(self.prefix, key)), "a-clean-key-below-the-mount-that-is-not-a-file")
    modifies(self.substore.dirs)
    ensures(self.substore.dirs == union(old(self.substore.dirs), anc(strip(self.prefix, key))), "the-stripped-key-and-its-ancestors-become-directories")


@contract("liquer.store.KeyTranslatingStore.listdir", params=dict(self=KT, key=Str), returns=Opt(KeyList))
def _(self, key):
    raises(KeyNotSupportedStoreException, when=not at_or_below(self.prefix, key), label="outside-the-mount")
    ensures(implies(isdir(self.substore, strip(self.prefix, key)),
                    elems(unopt(result)) == child_names(self.substore, strip(self.prefix, key))), "children-of-the-stripped-key")


@contract("liquer.store.KeyTranslatingStore.to_root_key", params=dict(self=KT, key=Opt(Str)), returns=Str)
def _(self, key):
    requires(isnone(self.parent_store), "mounted-directly-in-the-root-store")
    ensures(result == unstrip(self.prefix, ite(isnone(key), "", unopt(key))), "re-prefixed")


prop("C14", fucs=["liquer.store.PrefixStore.translate_key", "liquer.store.PrefixStore.contains", "liquer.store.PrefixStore.is_dir",
                  "liquer.store.KeyTranslatingStore.get_bytes", "liquer.store.KeyTranslatingStore.store",
                  "liquer.store.KeyTranslatingStore.remove", "liquer.store.KeyTranslatingStore.listdir",
                  "liquer.store.KeyTranslatingStore.store_metadata", "liquer.store.KeyTranslatingStore.makedir",
                  "liquer.store.KeyTranslatingStore.to_root_key", "liquer.store.MountPointStore.route_to", "liquer.store.MountPointStore._leads_to_mount",
                  "liquer.store.MountPointStore.is_dir", "liquer.store.MountPointStore.contains"],
     lemmas=["strip_unstrip", "unstrip_strip"],
     static=[("inherits", "PrefixStore", "KeyTranslatingStore", ["get_bytes", "get_metadata", "store", "store_metadata", "remove", "removedir",
                                                                  "listdir", "keys", "makedir", "to_root_key"])])


# ------------------------------------------------------------------ routing: the last matching mount wins, else the default store
classdef("Route", tuple_fields=["prefix", "store"], fields=dict(prefix=Str, store=Ref("Store")))
classdef("liquer.store.MountPointStore", bases=["Store"], fields=dict(default_store=Opt(Ref("Store")), routing_table=Seq(Ref("Route"))))
MP = Ref("MountPointStore")
RT = Seq(Ref("Route"))


@spec(params=dict(s=Ref("Store"), key=Str), returns=Bool, uninterpreted=True)
def supports(s, key):
    """is_supported is a pure observer of the mounted store"""
    return supports(s, key)


@interface("Store.is_supported", params=dict(self=Ref("Store"), key=Str), returns=Bool, pure=True)
def _(self, key):
    ensures(result == supports(self, key))


@spec(params=dict(e=Ref("Route"), key=Str), returns=Bool, macro=True)
def matches(e, key):
    """a mount serves its own prefix and every supported key below it"""
    pfx = e.prefix if e.prefix.endswith("/") else e.prefix + "/"
    return key == e.prefix or (key.startswith(pfx) and supports(e.store, key))


@spec(params=dict(rt=RT, key=Str, n=Int), returns=Int, reads=[("Route", "prefix"), ("Route", "store")])
def route_idx(rt, key, n):
    """index of the LAST mount among the first n that matches the key, or -1"""
    if n <= 0:
        return -1
    if matches(rt[n - 1], key):
        return n - 1
    return route_idx(rt, key, n - 1)


@contract("liquer.store.MountPointStore.route_to", params=dict(self=MP, key=Str), returns=Ref("Store"))
def _(self, key):
    n = len(self.routing_table)
    r = route_idx(self.routing_table, key, n)
    raises(KeyRouteNotFoundStoreException, when=r < 0 and isnone(self.default_store), label="no-mount-matches-and-no-default-store")
    invariant(0, lambda: route_idx(self.routing_table, key, len(self.routing_table)) == route_idx(self.routing_table, key, len(self.routing_table) - _i),
              "no-later-mount-matches")
    ensures(implies(r >= 0, result is self.routing_table[r].store), "the-last-matching-mount-wins")
    ensures(implies(r < 0, result is unopt(self.default_store)), "otherwise-the-default-store")


# ------------------------------------------------------------------ mount points and the directories above them are directories
@spec(params=dict(rt=RT, key=Str, i=Int), returns=Bool, reads=[("Route", "prefix")])
def leads_to_mount(rt, key, i):
    """one of the mounts from index i on is at the key or below it"""
    if i < 0 or i >= len(rt):
        return False
    if rt[i].prefix == key or rt[i].prefix.startswith(key + "/"):
        return True
    return leads_to_mount(rt, key, i + 1)


@contract("liquer.store.MountPointStore._leads_to_mount", params=dict(self=MP, key=Str), returns=Bool)
def _(self, key):
    invariant(0, lambda: leads_to_mount(self.routing_table, key, 0) == leads_to_mount(self.routing_table, key, _i), "none-of-the-mounts-seen-so-far")
    ensures(result == leads_to_mount(self.routing_table, key, 0), "exactly-when-a-mount-is-at-or-below-the-key")


@contract("liquer.store.MountPointStore.is_dir", params=dict(self=MP, key=Str), returns=Bool)
def _(self, key):
    n = len(self.routing_table)
    r = route_idx(self.routing_table, key, n)
    above = key == "" or leads_to_mount(self.routing_table, key, 0)
    raises(KeyNotSupportedStoreException, label="the-mounted-store-refuses-the-key")
    ensures(implies(above, result), "mount-points-and-the-directories-above-them-are-directories")
    ensures(implies(not above and r < 0 and isnone(self.default_store), not result), "unrouted-keys-are-not-directories")
    ensures(implies(not above and r < 0 and not isnone(self.default_store), result == isdir(unopt(self.default_store), key)), "otherwise-as-the-default-store-says")


@contract("liquer.store.MountPointStore.contains", params=dict(self=MP, key=Str), returns=Bool)
def _(self, key):
    n = len(self.routing_table)
    r = route_idx(self.routing_table, key, n)
    above = key == "" or leads_to_mount(self.routing_table, key, 0)
    raises(KeyNotSupportedStoreException, label="the-mounted-store-refuses-the-key")
    ensures(implies(above, result), "mount-points-and-the-directories-above-them-are-present")
    ensures(implies(not above and r < 0 and isnone(self.default_store), not result), "unrouted-keys-are-absent")
    ensures(implies(not above and r < 0 and not isnone(self.default_store), result == present(unopt(self.default_store), key)), "otherwise-as-the-default-store-says")
