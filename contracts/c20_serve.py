"""C20 — the query service: GET/POST /q/<query> evaluates exactly the query text it was routed (no further decoding or rewriting),
once, with the request's parameters, and answers with the serialisation of that evaluation's result: body = encode_state_data(
state.get(), extension=state.extension), Content-Type = the media type the encoder reported; a failed evaluation never yields a
normal (200) answer.  Flask's routing / WSGI decoding, make_response, abort and the evaluator are outside (assumed; bounded stand-in).
"""
from pyvc.dsl import *
from contracts.c13_caches import SMeta, Data, ST
from contracts.c20_handlers import Response

Any = Opaque("Any")
classdef("FlaskRequest", fields=dict(args=Map(Str, Any)))
classdef("FlaskHeaders", fields={})
classdef("FlaskResponse", bases=["HttpAnswer"], fields=dict(headers=Ref("FlaskHeaders"), body=Bytes))
module_state("liquer.server.blueprint", dict(request=Ref("FlaskRequest")))
FR = Ref("FlaskResponse")


@interface("FlaskRequest.get_json", params=dict(self=Ref("FlaskRequest"), force=Bool), returns=Map(Str, Any))
def _(self, force=False):
    raises(Exception, label="no-json-body")


@assumed("liquer.query.evaluate", params=dict(query=Str, extra_parameters=Map(Str, Any)), returns=ST)
def _(query, extra_parameters=None):
    raises(Exception, label="evaluation-raised")
    ensures(rec_has(result.metadata, "is_error"))


@spec(params=dict(string=Str), returns=Str, uninterpreted=True)
def percent_decoded(string):
    return percent_decoded(string)


@assumed("urllib.parse.unquote", params=dict(string=Str), returns=Str, pure=True, functional="percent_decoded")
def _(string):
    pass


@assumed("flask.abort", params=dict(code=Int))
def _(code):
    raises(Exception, when=True, label="aborts-the-request")


@assumed("flask.make_response", params=dict(body=Bytes), returns=FR, returns_fresh=True)
def _(body):
    ensures(fresh_ref(result) and result.body == body)


@interface("FlaskHeaders.set", params=dict(self=Ref("FlaskHeaders"), key=Str, value=Str, filename=Opt(Str)))
def _(self, key, value, filename=None):
    pass


@assumed("liquer.state_types.encode_state_data", params=dict(data=Data, extension=Opt(Str)), returns=Tuple(Bytes, Str, Str))
def _(data, extension=None):
    raises(Exception, label="not-serialisable-in-that-format")


inline("liquer.state.State.extension")


@contract("liquer.server.blueprint.response", params=dict(state=ST), returns=FR,
          opaque={"state_types_registry": Any, "get": Any, "default_filename": Str})
def _(state):
    requires(rec_has(state.metadata, "is_error"), "a-state-made-by-State()")
    raises(Exception, label="an-error-state-or-an-unserialisable-value-is-never-answered-normally")
    ensures(not rec_get(state.metadata, "is_error"), "only-a-successful-state-is-answered")
    ensures(log_count("encode_state_data") == 1 and log_arg("encode_state_data", "data") == state.data,
            "the-state's-own-data-is-serialised,once")
    ensures(log_count("flask.make_response") == 1 and result is log_result("flask.make_response")
            and result.body == log_result("encode_state_data")[0], "the-body-is-exactly-the-serialisation")
    ensures(log_count("FlaskHeaders.set") >= 1 and log_arg("FlaskHeaders.set", "key", 0) == "Content-Type"
            and log_arg("FlaskHeaders.set", "value", 0) == log_result("encode_state_data")[1], "the-content-type-is-the-encoder's-media-type")


@contract("liquer.server.blueprint.serve", params=dict(query=Str), returns=FR, opaque={"print_exc": NoneT},
          locals=dict(kwargs=Map(Str, Any)))
def _(query):
    raises(Exception, label="aborted-with-500")
    invariant(0, lambda: subset(_seen, mapdom(kwargs)), "every-request-argument-seen-so-far-is-among-the-parameters")
    ensures(log_count("liquer.query.evaluate") == 1 and log_arg("liquer.query.evaluate", "query") == query,
            "evaluates-exactly-the-routed-query-text,once")
    ensures(subset(mapdom(module("liquer.server.blueprint").request.args), mapdom(log_arg("liquer.query.evaluate", "extra_parameters"))),
            "every-request-argument-is-passed-on-as-an-extra-parameter")
    ensures(log_count("blueprint.response") == 1 and log_arg("blueprint.response", "state") is log_result("liquer.query.evaluate")
            and result is log_result("blueprint.response"), "answers-with-the-serialisation-of-that-evaluation's-result")


prop("C20", fucs=["liquer.server.blueprint.response", "liquer.server.blueprint.serve"])
