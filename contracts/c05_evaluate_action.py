"""C05 / C06 / C18 / C01 — slice verification of the real body of Context.evaluate_action (liquer/context.py).

Modelled exactly: the error flags of the context and of the state, the status written, the volatility and caching
flags, which cache receives the final metadata, the ghost log of the command call / error logging.  Everything else is opaque.
"""
from pyvc.dsl import *
from contracts.c13_caches import SMeta, Data, ST
from contracts.c05_evaluate import CX, Any

import contracts.c19_parser      # class declarations of the parser objects (ActionLike, ActionRequest, TransformQuerySegment)
classdef("CmdMeta", fields=dict(attributes=Any))
CMD = Ref("CommandExecutable")

inline("liquer.parser.TransformQuerySegment.is_filename", "liquer.parser.TransformQuerySegment.is_action_request",
       "liquer.state.State.type_identifier", "liquer.state.State.is_error")


@assumed("liquer.commands.CommandExecutable.__call__", params=dict(self=CMD, state=ST, args=Any, context=Opt(CX), kwargs=Any), returns=ST)
def _(self, state, *args, context=None, **kwargs):
    """a registered command: arbitrary Python code; may fail in any way"""
    raises(EvaluationException, label="a-sub-evaluation-failed")
    raises(Exception, label="the-command-raised")
    modifies_any("State.metadata")
    ensures(state_wf(result.metadata), "a-state-made-by-State()")


@assumed("liquer.context.MetadataContextMixin.log_dict", params=dict(self=CX, d=Any), returns=CX)
def _(self, d):
    """appends the entry to the log, writes the metadata, tells the parent context; touches no field of the model"""
    ensures(result is self, "returns-the-context")


_OP_LOG = {"error": NoneT, "to_dict": Any}      # logger.error, Position.to_dict


@contract("liquer.context.MetadataContextMixin.error", params=dict(self=CX, message=Str, position=Any, query=Opt(Str), traceback=Opt(Str)), returns=CX,
          opaque=_OP_LOG)
def _(self, message, position=None, query=None, traceback=None):
    modifies(self.is_error, self.status)
    ensures(self.is_error and self.status == "error" and result is self, "an-error-marks-the-context:flag-and-status")


@contract("liquer.context.MetadataContextMixin.exception", params=dict(self=CX, message=Str, traceback=Str, position=Any, query=Opt(Str)), returns=CX,
          opaque=_OP_LOG)
def _(self, message, traceback, position=None, query=None):
    modifies(self.is_error, self.status)
    ensures(self.is_error and self.status == "error" and result is self, "an-exception-marks-the-context:flag-and-status")


@assumed("liquer.context.Context.evaluate_parameter", params=dict(self=CX, p=Any, action=Ref("ActionRequest")), returns=Any)
def _(self, p, action):
    raises(EvaluationException, label="a-link-argument-failed")
    modifies(self.status, self.is_error)


@assumed("liquer.context.MetadataContextMixin.metadata", params=dict(self=CX), returns=SMeta)
def _(self):
    ensures(rec_has(result, "caching") and rec_get(result, "caching") == self.caching, "reports-the-context's-caching-flag")
    ensures(rec_has(result, "is_error") and rec_get(result, "is_error") == self.is_error, "reports-the-context's-error-flag")
    ensures(not rec_has(result, "attributes") and not rec_has(result, "volatile"))


@assumed("liquer.state.State.set_volatile", params=dict(self=ST, flag=Bool), returns=ST)
def _(self, flag):
    modifies(self.metadata)
    ensures(self.metadata == rec_set(old(self.metadata), "volatile", flag) and result is self)


OPAQUE_EA = {"debug": NoneT, "info": NoneT, "warning": NoneT, "store_metadata": NoneT, "command_registry": Any,
             "resolve_command": Tuple(Opt(Str), Opt(CMD), Opt(Ref("CmdMeta"))), "add_command_dependency": NoneT,
             "format_exc": Str, "to_list": Any, "mimetype": Opt(Str), "_asdict": (Any, ["AttributeError"]), "encode": Str,
             "get_modified": Any, "update": NoneT, "__init__": NoneT, "print_exc": NoneT}


@contract("liquer.context.Context.evaluate_action",
          params=dict(self=CX, state=ST, action=Ref("ActionLike"), extra_parameters=Opt(Seq(Any)), cache=Opt(Ref("Cache"))),
          returns=ST, opaque=OPAQUE_EA, locals=dict(parameters=Seq(Any)))
def _(self, state, action, extra_parameters=None, cache=None):
    requires(not isnone(self.raw_query), "called-from-evaluate:the-context-knows-its-query")
    requires(state_wf(state.metadata), "a-state-made-by-State():standard-keys-present")
    requires(self.vars.src == rec_get(state.metadata, "vars"), "C04:the-context-carries-the-variables-of-the-input-state(not-defaults,not-another-context's)")
    g = module("liquer.cache")._cache
    c = ite(isnone(cache), g, unopt(cache))
    extras = not isnone(extra_parameters) and len(unopt(extra_parameters)) > 0
    is_file_label = isinst(action, "TransformQuerySegment") and len(cast(action, "TransformQuerySegment").query) == 0 \
        and not isnone(cast(action, "TransformQuerySegment").filename)
    raises(EvaluationException, label="a-link-argument-failed")
    raises(AssertionError, label="not-a-single-action")
    invariant(0, lambda: True, "argument-expansion-changes-no-tracked-state")
    modifies_any("State.metadata")
    modifies_any("State.status")
    modifies(self.status, self.is_error, self.vars, c.cmeta, state.context)
    ensures(implies(not is_file_label and (old(volatile_of(state.metadata)) or (extras and log_count("CommandExecutable.__call__") > 0)),
                    volatile_of(result.metadata)),
            "volatility-propagates-from-the-input-state-and-from-extra-parameters")
    ensures(implies(not is_file_label and rec_has(result.metadata, "caching") and rec_get(result.metadata, "caching"), old(self.caching)),
            "caching-switched-off-in-the-context-stays-off")
    ensures(implies(not is_file_label and log_count("CommandExecutable.__call__") > 0 and log_raised("CommandExecutable.__call__") == 0
                    and rec_has(log_result_field("CommandExecutable.__call__", "metadata"), "caching")
                    and not rec_get(log_result_field("CommandExecutable.__call__", "metadata"), "caching"),
                    rec_has(result.metadata, "caching") and not rec_get(result.metadata, "caching")),
            "caching-switched-off-by-or-upstream-of-the-command-stays-off")
    ensures(implies(not is_file_label and volatile_of(result.metadata) and log_count("CommandExecutable.__call__") > 0
                    and log_raised("CommandExecutable.__call__") == 0,
                    old(volatile_of(state.metadata)) or extras or volatile_of(log_result_field("CommandExecutable.__call__", "metadata"))),
            "a-result-is-volatile-only-for-a-reason")
    ensures(implies(not is_file_label and (log_count("MetadataContextMixin.error") > 0 or log_count("MetadataContextMixin.exception") > 0 or log_raised("CommandExecutable.__call__") > 0),
                    rec_has(result.metadata, "is_error") and rec_get(result.metadata, "is_error")), "every-failure-is-flagged")
    ensures(implies(not is_file_label and log_count("CommandExecutable.__call__") == 0, rec_has(result.metadata, "is_error") and rec_get(result.metadata, "is_error")),
            "an-unknown-command-is-an-error")
    ensures(implies(not is_file_label, rec_has(result.metadata, "is_error") and rec_has(result.metadata, "status")
                    and (rec_get(result.metadata, "is_error") == (rec_get(result.metadata, "status") == "error"))
                    and (rec_get(result.metadata, "is_error") or rec_get(result.metadata, "status") == "ready")), "status-agrees-with-the-error-flag")
    ensures(implies(not is_file_label, log_count("CommandExecutable.__call__") <= 1), "the-command-runs-at-most-once")
    ensures(implies(not is_file_label, log_count("Cache.store_metadata") == 1 and log_arg("Cache.store_metadata", "self") is c
                    and log_arg("Cache.store_metadata", "metadata") == result.metadata), "final-metadata-goes-to-the-given-cache")
    ensures(implies(is_file_label, result is state and log_count("CommandExecutable.__call__") == 0), "a-file-name-only-labels-the-state")
    ensures(state_wf(result.metadata), "the-result-is-a-state-with-the-standard-keys")


prop("C05", fucs=["liquer.context.Context.evaluate_action"])
prop("C09", fucs=["liquer.context.Context.evaluate_action"])
prop("C04", fucs=["liquer.context.Context.evaluate_action"])
prop("C06", fucs=["liquer.context.Context.evaluate_action", "liquer.context.MetadataContextMixin.error", "liquer.context.MetadataContextMixin.exception"])
prop("C18", fucs=["liquer.context.Context.evaluate_action", "liquer.context.MetadataContextMixin.error", "liquer.context.MetadataContextMixin.exception"])

# cache transparency also needs the in-memory cache to keep and hand out its own copies (a result mutated by the caller after
# evaluate() must not change what a later evaluation is served): the ownership obligations of C10, on the same source
prop("C04", static=[
    ("owned", "liquer.cache.MemoryCache.store", "the-cache-keeps-its-own-copy", "item:storage"),
    ("owned", "liquer.cache.MemoryCache.get", "the-cache-hands-out-a-copy", "return"),
    ("owned", "liquer.state.State.clone", "a-clone-does-not-share-its-data", "attr:data"),
    ("owned", "liquer.state_types.copy_state_data", "copies-go-through-the-state-type-of-the-value", "return"),
    ("owned", "liquer.state_types.DictStateType.copy", "dictionary-values-are-copied-in-depth", "return"),
    ("owned", "liquer.state_types.JsonStateType.copy", "generic-values-are-copied-in-depth", "return"),
    ("owned", "liquer.state_types.PickleStateType.copy", "pickled-values-are-copied-in-depth", "return"),
])

# C05: what the cache holds for a key stays the value of that key only if the in-memory cache keeps and hands out its own copies
# (the evaluator goes on writing into the states it gets: query, file name, media type), and only if two different queries never
# share a canonical key (an action with one empty argument is not the action without arguments)
prop("C05", static=[
    ("owned", "liquer.cache.MemoryCache.store", "the-cache-keeps-its-own-copy", "item:storage"),
    ("owned", "liquer.cache.MemoryCache.get", "the-cache-hands-out-a-copy", "return"),
], fucs=["liquer.parser.ActionRequest.encode"])
