"""C01 — one step of the pipeline (CommandExecutable.__call__): the registered function is applied exactly once, to the predecessor's
state (if it declared a `state` parameter) or to the predecessor's value, followed by exactly the arguments the argument parser
produced from the action's arguments; what it returns becomes the result - as it is when it is a State, else as the data of the
successor state.  The function itself is arbitrary Python (PyFunction: any result, any exception)."""
from pyvc.dsl import *
from contracts.c13_caches import SMeta, Data, ST
from contracts.c05_evaluate import CX, Any

CE = Ref("CommandExecutable")


@interface("PyFunction.__call__", params=dict(self=Ref("PyFunction"), first=Any, rest=Seq(Any)), returns=Ref("CommandResult"))
def _(self, first, rest):
    raises(Exception, label="the-command-raised")
    modifies_any("State.metadata")
    modifies_any("State.data")


@interface("CommandExecutable.parse_argv", params=dict(self=CE, args=Seq(Any), kwargs=Opt(Map(Str, Any)), context=Opt(CX)), returns=Tuple(Seq(Any), Seq(Any)))
def _(self, args, kwargs=None, context=None):
    """proved separately as CommandExecutable.parse_argv@arguments"""
    raises(ArgumentParserException, label="missing-argument,conversion-error-or-too-many-arguments")


@contract("liquer.commands.CommandExecutable.__call__@step",
          params=dict(self=CE, state=ST, args=Seq(Any), context=Opt(CX), kwargs=Map(Str, Any)), returns=ST,
          untracked_fields=["arguments"])
def _(self, state, *args, context=None, **kwargs):
    requires(rec_has(state.metadata, "is_error"), "a-state-made-by-State()")
    pass_state = rec_get(self.metadata.state_argument, "pass_state")
    raises(Exception, label="argument-error,an-error-state-without-a-state-parameter,or-the-command-raised")
    modifies_any("State.metadata")
    modifies_any("State.data")
    ensures(log_count("CommandExecutable.parse_argv") == 1 and log_arg("CommandExecutable.parse_argv", "args") == args
            and log_arg("CommandExecutable.parse_argv", "context") == context, "the-action's-arguments-go-through-the-argument-parser,once")
    ensures(log_count("PyFunction.__call__") == 1 and log_arg("PyFunction.__call__", "self") is self.f, "the-registered-function-is-applied-exactly-once")
    ensures(log_arg("PyFunction.__call__", "first") == ite(pass_state, as_any(state), as_any(old(state.data))),
            "to-the-predecessor's-state-if-it-asked-for-it,else-to-the-predecessor's-value")
    ensures(log_arg("PyFunction.__call__", "rest") == log_result("CommandExecutable.parse_argv")[0], "followed-by-exactly-the-converted-arguments")
    ensures(implies(isinst(log_result("PyFunction.__call__"), "State"), result is log_result("PyFunction.__call__")), "a-returned-State-is-the-result-as-it-is")
    ensures(implies(not isinst(log_result("PyFunction.__call__"), "State"),
                    result is state and state.data == as_data(log_result("PyFunction.__call__"))), "any-other-value-becomes-the-data-of-the-successor-state")


@interface("PyFunction.__call_star__", params=dict(self=Ref("PyFunction"), rest=Seq(Any)), returns=Ref("CommandResult"))
def _(self, rest):
    """f(*argv): the function is applied to the elements of one sequence"""
    raises(Exception, label="the-command-raised")
    modifies_any("State.metadata")
    modifies_any("State.data")


@contract("liquer.commands.FirstCommandExecutable.__call__@step",
          params=dict(self=Ref("FirstCommandExecutable"), state=ST, args=Seq(Any), context=Opt(CX), kwargs=Map(Str, Any)), returns=ST,
          untracked_fields=["arguments"])
def _(self, state, *args, context=None, **kwargs):
    """a first command takes no input: the function is applied to the converted arguments only; a plain value becomes the data of
    the state it was handed - the metadata collected so far (capitalised attributes, sources) stays with it"""
    raises(Exception, label="argument-error-or-the-command-raised")
    modifies_any("State.metadata")
    modifies_any("State.data")
    ensures(log_count("CommandExecutable.parse_argv") == 1 and log_arg("CommandExecutable.parse_argv", "args") == args, "the-action's-arguments-go-through-the-argument-parser,once")
    ensures(log_count("PyFunction.__call_star__") == 1 and log_arg("PyFunction.__call_star__", "self") is self.f
            and log_arg("PyFunction.__call_star__", "rest") == log_result("CommandExecutable.parse_argv")[0], "the-function-is-applied-once,to-exactly-the-converted-arguments")
    ensures(implies(isinst(log_result("PyFunction.__call_star__"), "State"), result is log_result("PyFunction.__call_star__")), "a-returned-State-is-the-result-as-it-is")
    ensures(implies(not isinst(log_result("PyFunction.__call_star__"), "State"),
                    result is state and state.data == as_data(log_result("PyFunction.__call_star__"))),
            "any-other-value-becomes-the-data-of-the-state-that-was-handed-in,which-keeps-its-metadata")


prop("C01", fucs=["liquer.commands.CommandExecutable.__call__@step", "liquer.commands.FirstCommandExecutable.__call__@step"])
prop("C18", fucs=["liquer.commands.CommandExecutable.__call__@step", "liquer.commands.FirstCommandExecutable.__call__@step"])
