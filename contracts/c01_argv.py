"""C01 / C06 — CommandExecutable.parse_argv: the textual arguments of an action reach the argument parser unchanged and in order,
followed only by keyword values and declared defaults; a normal return means the parser consumed every argument (a surplus
argument is an error, never silently dropped); a conversion error names the query being evaluated."""
from pyvc.dsl import *
from contracts.c05_evaluate import CX, Any

ArgMeta = Rec("ArgMeta", dict(name=Str, multiple=Bool, default=Any, optional=Bool, type=Opt(Str)), required=["name"])
classdef("ArgMetaDict", fields=dict(d=ArgMeta), record="d")        # one entry of CommandMetadata.arguments (a dictionary)
AM = Ref("ArgMetaDict")
StateArg = Rec("StateArg", dict(pass_state=Bool, name=Str), required=["pass_state"])
classdef("CommandMetadataX", fields=dict(arguments=Seq(AM), name=Str, state_argument=StateArg))
classdef("ArgParserX", abstract=True, fields={})
classdef("PyFunction", abstract=True, fields={})        # the registered Python function: arbitrary code
classdef("liquer.commands.CommandExecutable", fields=dict(f=Ref("PyFunction"), metadata=Ref("CommandMetadataX"), argument_parser=Ref("ArgParserX")))
classdef("liquer.commands.FirstCommandExecutable", bases=["CommandExecutable"], fields={})


@interface("ArgParserX.parse_meta", params=dict(self=Ref("ArgParserX"), metadata=Seq(AM), args=Seq(Any), context=Opt(CX)),
           returns=Tuple(Seq(Any), Seq(Any), Seq(Any)))
def _(self, metadata, args, context=None):
    raises(ArgumentParserException, label="a-text-cannot-be-converted")


@contract("liquer.commands.CommandExecutable.parse_argv@arguments",
          params=dict(self=Ref("CommandExecutable"), args=Seq(Any), kwargs=Opt(Map(Str, Any)), context=Opt(CX)), returns=Tuple(Seq(Any), Seq(Any)),
          opaque={"debug": NoneT, "warning": NoneT, "repr": Str, "@position": Any, "@original_message": Str},
          locals=dict(used_kwargs=Seq(Str), kwargs=Map(Str, Any), position=Opt(Any)))
def _(self, args, kwargs=None, context=None):
    given = args
    raises(ArgumentParserException, label="missing-argument,conversion-error-or-too-many-arguments")
    invariant(0, lambda: args[:len(given)] == given and len(args) >= len(given), "the-given-arguments-stay-in-front,unchanged")
    ensures(log_count("ArgParserX.parse_meta") == 1 and log_arg("ArgParserX.parse_meta", "args")[:len(args)] == args
            and log_arg("ArgParserX.parse_meta", "metadata") == self.metadata.arguments,
            "the-given-arguments-reach-the-parser-unchanged-and-in-order,followed-only-by-keyword-values-and-defaults")
    ensures(len(log_result("ArgParserX.parse_meta")[2]) == 0, "a-normal-return-means-every-argument-was-consumed")
    ensures(result[0] == log_result("ArgParserX.parse_meta")[0] and result[1] == log_result("ArgParserX.parse_meta")[1], "the-parser's-values-are-returned-as-they-are")
    ensures(implies(not isnone(context), raised("query") == unopt(context).raw_query) and implies(isnone(context), isnone(raised("query"))),
            "onraise:ArgumentParserException:the-error-names-the-query-being-evaluated")


prop("C01", fucs=["liquer.commands.CommandExecutable.parse_argv@arguments"])
prop("C06", fucs=["liquer.commands.CommandExecutable.parse_argv@arguments"])
