"""C08 (store-level life cycle) — NewRecipeSpecStore against the Store interface of its sub-store.

Proved: get_bytes serves from the sub-store when the key is there and otherwise makes the recipe exactly once and then
serves; contains / is_dir / keys are the union of the sub-store's view and the declared recipe keys (directories implied
by declared keys, ignored keys excluded); remove forwards to the sub-store (so the key falls back to its declared state).
Assumed: make() (the evaluation of the recipe's query and the storing of its result: C01/C04 and the bounded stand-in),
ignore() as a pure predicate, update_recipes (YAML parsing), the status-file side effects of the on_* hooks.
"""
from pyvc.dsl import *
from contracts.stores import Meta, KeyList

classdef("Recipe", fields={})
classdef("liquer.recipes.NewRecipeSpecStore", bases=["Store"], fields=dict(substore=Ref("Store"), _recipes=Map(Str, Ref("Recipe"))))
RS = Ref("NewRecipeSpecStore")


@spec(params=dict(key=Opt(Str)), returns=Bool, uninterpreted=True)
def ignored(key):
    """ignore(key): None or a key with a dot-prefixed component"""
    return ignored(key)


@assumed("liquer.recipes.NewRecipeSpecStore.ignore", params=dict(self=RS, key=Opt(Str)), returns=Bool, pure=True, functional="ignored")
def _(self, key):
    pass


@assumed("liquer.recipes.NewRecipeSpecStore.recipes", params=dict(self=RS), returns=Map(Str, Ref("Recipe")), pure=True)
def _(self):
    ensures(result == self._recipes)


@assumed("liquer.recipes.NewRecipeSpecStore.make", params=dict(self=RS, key=Str))
def _(self, key):
    raises(Exception, label="unknown-or-ignored-key")
    modifies(self.substore.dirs, self.substore.data, self.substore.meta)


@spec(params=dict(s=RS, key=Str), returns=Bool, macro=True)
def declared_at_or_below(s, key):
    return inter(mapdom(s._recipes), setof(lambda k: k == key or k.startswith(key + "/"))) != emptyset(Str)


@contract("liquer.recipes.NewRecipeSpecStore.get_bytes", params=dict(self=RS, key=Str), returns=Opt(Bytes),
          opaque={"on_data_changed": NoneT})
def _(self, key):
    raises(Exception, label="the-recipe-cannot-be-made")
    raises(KeyNotFoundStoreException, label="nothing-was-produced")
    modifies(self.substore.dirs, self.substore.data, self.substore.meta)
    ensures(implies(old(not ignored(some(key)) and present(self.substore, key)), log_count("NewRecipeSpecStore.make") == 0
                    and not isnone(result) and unopt(result) == old(mapget(self.substore.data, key))),
            "served-without-re-evaluation-when-present")
    ensures(implies(old(not ignored(some(key)) and not present(self.substore, key)), log_count("NewRecipeSpecStore.make") == 1
                    and not isnone(result) and unopt(result) == mapget(self.substore.data, key)),
            "made-exactly-once-then-served-from-the-sub-store")
    ensures(implies(old(ignored(some(key))), isnone(result) and log_count("NewRecipeSpecStore.make") == 0), "ignored-keys-yield-nothing")


@contract("liquer.recipes.NewRecipeSpecStore.contains", params=dict(self=RS, key=Str), returns=Bool)
def _(self, key):
    below = setof(lambda k: k == key or k.startswith(key + "/"))
    invariant(0, lambda: inter(_seen, setof(lambda k: k == key or k.startswith(key + "/"))) == emptyset(Str), "no-declared-key-seen-so-far-is-at-or-below")
    ensures(result == (not ignored(some(key)) and (present(self.substore, key) or declared_at_or_below(self, key))),
            "stored-or-declared-(or-a-directory-of-a-declared-key)")


@assumed("liquer.recipes.NewRecipeSpecStore.on_removed", params=dict(self=RS, key=Str))
def _(self, key):
    """the change hook: refreshes the recipe status record of the key's directory (status 'recipe' for a declared key without data)"""
    pass


@contract("liquer.recipes.NewRecipeSpecStore.remove", params=dict(self=RS, key=Str))
def _(self, key):
    requires(not isdir(self.substore, key), "a-file-key")
    modifies(self.substore.data, self.substore.meta)
    ensures(self.substore.data == mapdel(old(self.substore.data), key) and self.substore.meta == mapdel(old(self.substore.meta), key),
            "gone-from-the-sub-store:the-key-falls-back-to-its-declared-state")
    ensures(self._recipes == old(self._recipes), "the-declaration-stays")
    ensures(log_count("NewRecipeSpecStore.on_removed") == 1 and log_arg("NewRecipeSpecStore.on_removed", "key") == key,
            "the-status-record-is-refreshed-for-the-key,whether-or-not-it-had-been-materialised")


@contract("liquer.recipes.NewRecipeSpecStore.keys", params=dict(self=RS), returns=KeyList)
def _(self):
    ensures(elems(result) == setof(lambda k: (has(keyset(self.substore), k) or has(self._recipes, k)) and not ignored(some(k))),
            "stored-and-declared-keys-without-the-ignored-ones")
    ensures(distinct(result), "each-once")


prop("C08", fucs=["liquer.recipes.NewRecipeSpecStore.get_bytes", "liquer.recipes.NewRecipeSpecStore.contains",
                  "liquer.recipes.NewRecipeSpecStore.remove", "liquer.recipes.NewRecipeSpecStore.keys"],
     static=[("argfrom", "liquer.recipes.NewRecipeSpecStore.update_recipes",
              "relative-references-of-a-recipe-are-resolved-against-the-directory's-key-in-the-global-store", "resolve_recipe_definition", 1, "to_root_key")])
