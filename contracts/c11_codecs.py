"""C11 — which codec encodes and which decodes (deductive part; the codecs themselves - as_bytes / from_bytes of every state type -
are exercised by the labelled bounded stand-in).

encode_state_data asks the registry for the state type of the value's class, lets exactly that type serialise exactly the given
value in exactly the requested format, and reports the identifier *of that same type* next to the bytes; decode_state_data looks
the type up by exactly the identifier it is given and lets that type read exactly the given bytes in the requested format.
With the registry invariant (register() files a type under its own identifier) and the per-type codec law
from_bytes(as_bytes(v, e), e) == v (both assumed here, checked by the stand-in) this is the round trip of the property.
"""
from pyvc.dsl import *
from contracts.c13_caches import Data

Any = Opaque("Any")
classdef("StateTypeX", abstract=True, fields=dict(ident=Str))
classdef("RegistryX", abstract=True, fields={})
SX = Ref("StateTypeX")


@spec(params=dict(cls=Opaque("Type")), returns=Str, uninterpreted=True)
def qualname_of(cls):
    return qualname_of(cls)


@assumed("liquer.state_types.get_type_qualname", params=dict(cls=Opaque("Type")), returns=Str, pure=True, functional="qualname_of")
def _(cls):
    pass


@assumed("liquer.state_types.state_types_registry", params={}, returns=Ref("RegistryX"))
def _():
    pass


@interface("RegistryX.get", params=dict(self=Ref("RegistryX"), type_qualname=Opt(Str)), returns=SX)
def _(self, type_qualname):
    pass


@interface("StateTypeX.as_bytes", params=dict(self=SX, data=Data, extension=Opt(Str)), returns=Tuple(Bytes, Str))
def _(self, data, extension=None):
    raises(Exception, label="not-serialisable-in-that-format")


@interface("StateTypeX.from_bytes", params=dict(self=SX, b=Bytes, extension=Opt(Str)), returns=Data)
def _(self, b, extension=None):
    raises(Exception, label="not-readable-in-that-format")


@interface("StateTypeX.identifier", params=dict(self=SX), returns=Str)
def _(self):
    ensures(result == self.ident)


@contract("liquer.state_types.encode_state_data@codec", params=dict(data=Data, extension=Opt(Str)), returns=Tuple(Bytes, Str, Str))
def _(data, extension=None):
    raises(Exception, label="not-serialisable-in-that-format")
    ensures(log_count("RegistryX.get") == 1 and log_arg("RegistryX.get", "self") is log_result("state_types_registry"),
            "one-lookup-in-the-process-registry")
    ensures(log_count("StateTypeX.as_bytes") == 1 and log_arg("StateTypeX.as_bytes", "self") is log_result("RegistryX.get")
            and log_arg("StateTypeX.as_bytes", "data") == data and log_arg("StateTypeX.as_bytes", "extension") == extension,
            "the-looked-up-type-serialises-exactly-the-value-in-exactly-the-requested-format")
    ensures(result[0] == log_result("StateTypeX.as_bytes")[0] and result[1] == log_result("StateTypeX.as_bytes")[1], "bytes-and-media-type-as-the-codec-produced-them")
    ensures(result[2] == log_result("RegistryX.get").ident, "the-identifier-reported-is-that-of-the-type-that-encoded")


@contract("liquer.state_types.decode_state_data@codec", params=dict(b=Bytes, type_identifier=Str, extension=Opt(Str)), returns=Data)
def _(b, type_identifier, extension=None):
    raises(Exception, label="not-readable-in-that-format")
    ensures(log_count("RegistryX.get") == 1 and log_arg("RegistryX.get", "type_qualname") == type_identifier
            and log_arg("RegistryX.get", "self") is log_result("state_types_registry"), "the-decoder-is-selected-by-exactly-the-recorded-identifier")
    ensures(log_count("StateTypeX.from_bytes") == 1 and log_arg("StateTypeX.from_bytes", "self") is log_result("RegistryX.get")
            and log_arg("StateTypeX.from_bytes", "b") == b and log_arg("StateTypeX.from_bytes", "extension") == extension,
            "that-type-reads-exactly-the-bytes-in-exactly-the-requested-format")
    ensures(result == log_result("StateTypeX.from_bytes"), "and-its-value-is-returned-unchanged")


prop("C11", fucs=["liquer.state_types.encode_state_data@codec", "liquer.state_types.decode_state_data@codec"])

# "a copy is equal and shares no mutable structure": the copy functions of the built-in state types return deep copies
# (data-flow obligations on the real source, the same analysis as C10; deepcopy being deep is assumed)
prop("C11", static=[
    ("owned", "liquer.state_types.copy_state_data", "copies-go-through-the-state-type-of-the-value", "return"),
    ("owned", "liquer.state_types.StateType.copy", "the-default-copy-is-a-serialisation-round-trip", "return"),
    ("owned", "liquer.state_types.DictStateType.copy", "dictionary-values-are-copied-in-depth", "return"),
    ("owned", "liquer.state_types.JsonStateType.copy", "generic-values-are-copied-in-depth", "return"),
    ("owned", "liquer.state_types.PickleStateType.copy", "pickled-values-are-copied-in-depth", "return"),
    ("owned", "liquer.state_types.BytesStateType.copy", "bytes-are-copied", "return"),
])


# ------------------------------------------------------------------ the text and bytes codecs: encoder and decoder use the same codec
classdef("liquer.state_types.TextStateType", fields={})
classdef("liquer.state_types.BytesStateType", fields={})
inline("liquer.state_types.TextStateType.default_extension", "liquer.state_types.TextStateType.default_mimetype")


@contract("liquer.state_types.TextStateType.as_bytes", params=dict(self=Ref("TextStateType"), data=Str, extension=Opt(Str)), returns=Tuple(Bytes, Str),
          opaque={"mimetype_from_extension": Str})
def _(self, data, extension=None):
    ensures(result[0] == str_encode(data, "utf-8"), "text-is-written-as-utf-8,whatever-the-extension")


@contract("liquer.state_types.TextStateType.from_bytes", params=dict(self=Ref("TextStateType"), b=Bytes, extension=Opt(Str)), returns=Str)
def _(self, b, extension=None):
    ensures(result == bytes_decode(b, "utf-8"), "and-read-back-with-the-same-codec(no-byte-order-mark-handling,no-other-codec)")


@contract("liquer.state_types.BytesStateType.as_bytes", params=dict(self=Ref("BytesStateType"), data=Bytes, extension=Opt(Str)), returns=Tuple(Bytes, Str),
          opaque={"mimetype_from_extension": Str})
def _(self, data, extension=None):
    ensures(result[0] == data, "bytes-are-written-as-they-are")


@contract("liquer.state_types.BytesStateType.from_bytes", params=dict(self=Ref("BytesStateType"), b=Bytes, extension=Opt(Str)), returns=Bytes)
def _(self, b, extension=None):
    ensures(result == b, "and-read-back-as-they-are")


@lemma(params=dict(s=Str))
def text_round_trip(s):
    """from_bytes(as_bytes(s)) == s for the text codec, by the codec law of utf-8 (assumed for encodable texts)"""
    ensures(bytes_decode(str_encode(s, "utf-8"), "utf-8") == s)


prop("C11", fucs=["liquer.state_types.TextStateType.as_bytes", "liquer.state_types.TextStateType.from_bytes",
                  "liquer.state_types.BytesStateType.as_bytes", "liquer.state_types.BytesStateType.from_bytes"], lemmas=["text_round_trip"])


# ------------------------------------------------------------------ the generic (JSON) codec
classdef("liquer.state_types.JsonStateType", fields={})
inline("liquer.state_types.JsonStateType.default_extension")


@spec(params=dict(obj=Data), returns=Str, uninterpreted=True)
def json_text(obj):
    """json.dumps(obj)"""
    return json_text(obj)


@spec(params=dict(s=Str), returns=Data, uninterpreted=True)
def json_value(s):
    """json.loads(s)"""
    return json_value(s)


@assumed("json.dumps", params=dict(obj=Data), returns=Str, pure=True, functional="json_text")
def _(obj):
    pass


@assumed("json.loads", params=dict(s=Str), returns=Data, pure=True, functional="json_value")
def _(s):
    pass


@contract("liquer.state_types.JsonStateType.as_bytes", params=dict(self=Ref("JsonStateType"), data=Data, extension=Opt(Str)), returns=Tuple(Bytes, Str),
          opaque={"mimetype_from_extension": Str, "default_mimetype": Str, "encode": Bytes})
def _(self, data, extension=None):
    raises(Exception, label="unsupported-extension")
    ensures(implies(isnone(extension) or unopt(extension) == "json", result[0] == str_encode(json_text(data), "utf-8")),
            "the-json-format-is-json.dumps-of-the-value,written-as-utf-8")


@contract("liquer.state_types.JsonStateType.from_bytes", params=dict(self=Ref("JsonStateType"), b=Bytes, extension=Opt(Str)), returns=Data)
def _(self, b, extension=None):
    raises(AssertionError, when=not isnone(extension) and unopt(extension) != "json", label="only-the-json-format-can-be-read-back")
    ensures(result == json_value(bytes_decode(b, "utf-8")), "read-back-with-json.loads-of-the-utf-8-text")


prop("C11", fucs=["liquer.state_types.JsonStateType.as_bytes", "liquer.state_types.JsonStateType.from_bytes"])


# ------------------------------------------------------------------ the pickle codec (the default state type)
classdef("liquer.state_types.PickleStateType", fields={})
inline("liquer.state_types.PickleStateType.default_extension")


@spec(params=dict(obj=Data), returns=Bytes, uninterpreted=True)
def pickled(obj):
    return pickled(obj)


@spec(params=dict(b=Bytes), returns=Data, uninterpreted=True)
def unpickled(b):
    return unpickled(b)


@assumed("pickle.dumps", params=dict(obj=Data), returns=Bytes, pure=True, functional="pickled")
def _(obj):
    pass


@assumed("pickle.loads", params=dict(b=Bytes), returns=Data, pure=True, functional="unpickled")
def _(b):
    pass


@contract("liquer.state_types.PickleStateType.as_bytes", params=dict(self=Ref("PickleStateType"), data=Data, extension=Opt(Str)), returns=Tuple(Bytes, Str),
          opaque={"mimetype_from_extension": Str, "encode": Bytes})
def _(self, data, extension=None):
    raises(Exception, label="unsupported-extension")
    ensures(implies(isnone(extension) or unopt(extension) == "pickle" or unopt(extension) == "pkl", result[0] == pickled(data)), "the-pickle-formats-are-pickle.dumps-of-the-value")
    ensures(implies(not isnone(extension) and unopt(extension) == "json", result[0] == str_encode(json_text(data), "utf-8")), "the-json-format-is-json.dumps-as-utf-8")


@contract("liquer.state_types.PickleStateType.from_bytes", params=dict(self=Ref("PickleStateType"), b=Bytes, extension=Opt(Str)), returns=Data)
def _(self, b, extension=None):
    raises(Exception, label="unsupported-extension")
    ensures(implies(isnone(extension) or unopt(extension) == "pickle" or unopt(extension) == "pkl", result == unpickled(b)), "the-pickle-formats-are-read-with-pickle.loads")
    ensures(implies(not isnone(extension) and unopt(extension) == "json", result == json_value(bytes_decode(b, "utf-8"))), "the-json-format-with-json.loads-of-the-utf-8-text")


prop("C11", fucs=["liquer.state_types.PickleStateType.as_bytes", "liquer.state_types.PickleStateType.from_bytes"])
