"""C13 — the store-backed cache touches the store only at the one store key that belongs to the cache key.

Every operation of StoreCache (get, get_metadata, contains, remove, store, store_metadata) accesses the backing store at
to_path(key) and nowhere else (stated for the nested layout, where to_path is proved to be path/key/0state_.data and injective:
lemma nested_paths_injective; the flat layout files keys under an md5 digest, which is not modelled) - so operations on one
cache key never affect another, whatever characters the keys contain.  get serves nothing unless the stored metadata says ready;
store refuses error states.  The backing store is abstract (BackingStore: any store, every operation may fail); the
serialisation (state types) is opaque here and exercised by the bounded stand-in."""
from pyvc.dsl import *
from contracts.c13_caches import SMeta, Data, ST, nested_path

Any = Opaque("Any")
BS = Ref("BackingStore")
SC = Ref("StoreCache")


@interface("BackingStore.contains", params=dict(self=BS, key=Str), returns=Bool)
def _(self, key):
    raises(Exception, label="any-failure-of-the-store")


@interface("BackingStore.is_dir", params=dict(self=BS, key=Str), returns=Bool)
def _(self, key):
    raises(Exception, label="any-failure-of-the-store")


@interface("BackingStore.is_supported", params=dict(self=BS, key=Str), returns=Bool)
def _(self, key):
    pass


@interface("BackingStore.get_metadata", params=dict(self=BS, key=Str), returns=Opt(SMeta))
def _(self, key):
    raises(Exception, label="any-failure-of-the-store")


@interface("BackingStore.get_bytes", params=dict(self=BS, key=Str), returns=Bytes)
def _(self, key):
    raises(Exception, label="any-failure-of-the-store")


@interface("BackingStore.store", params=dict(self=BS, key=Str, data=Bytes, metadata=SMeta))
def _(self, key, data, metadata):
    raises(Exception, label="any-failure-of-the-store")


@interface("BackingStore.store_metadata", params=dict(self=BS, key=Str, metadata=SMeta))
def _(self, key, metadata):
    raises(Exception, label="any-failure-of-the-store")


@interface("BackingStore.remove", params=dict(self=BS, key=Str))
def _(self, key):
    raises(Exception, label="any-failure-of-the-store")


@contract("liquer.cache.StoreCache.contains", params=dict(self=SC, key=Str), returns=Bool)
def _(self, key):
    raises(Exception, label="the-store-failed")
    ensures(log_count("BackingStore.contains") == 1 and implies(not self.flat, log_arg("BackingStore.contains", "key") == nested_path(self.path, key, "0state_"))
            and result == log_result("BackingStore.contains"), "asks-the-store-about-exactly-the-key's-place")


@contract("liquer.cache.StoreCache.remove", params=dict(self=SC, key=Str), returns=Bool, opaque={"print_exc": NoneT})
def _(self, key):
    ensures(log_count("BackingStore.remove") == 1 and implies(not self.flat, log_arg("BackingStore.remove", "key") == nested_path(self.path, key, "0state_")), "removes-exactly-the-key's-place")
    ensures(result == (log_raised("BackingStore.remove") == 0), "reports-whether-the-store-removed-it")


@contract("liquer.cache.StoreCache._load_metadata", params=dict(self=SC, state_path=Str), returns=Opt(SMeta))
def _(self, state_path):
    raises(Exception, label="the-store-failed")
    ensures(implies(log_count("BackingStore.get_metadata") > 0, log_arg("BackingStore.get_metadata", "key") == state_path)
            and implies(log_count("BackingStore.contains") > 0, log_arg("BackingStore.contains", "key") == state_path)
            and implies(log_count("BackingStore.is_dir") > 0, log_arg("BackingStore.is_dir", "key") == state_path), "reads-only-the-given-place")
    ensures(implies(not isnone(result), log_count("BackingStore.get_metadata") == 1 and result == log_result("BackingStore.get_metadata")), "what-the-store-holds-there")


@contract("liquer.cache.StoreCache.store_metadata", params=dict(self=SC, metadata=SMeta), returns=Bool, opaque={"exception": NoneT})
def _(self, metadata):
    ensures(implies(log_count("BackingStore.store_metadata") > 0, rec_has(metadata, "query")
                    and log_count("BackingStore.store_metadata") == 1
                    and implies(not self.flat, log_arg("BackingStore.store_metadata", "key") == nested_path(self.path, rec_get(metadata, "query"), "0state_"))
                    and log_arg("BackingStore.store_metadata", "metadata") == metadata), "writes-the-metadata-as-given,at-exactly-the-place-of-its-query")
    ensures(log_count("BackingStore.store") == 0 and log_count("BackingStore.remove") == 0, "a-metadata-write-never-writes-or-removes-data")


@contract("liquer.cache.StoreCache.get_metadata", params=dict(self=SC, key=Str), returns=Opt(SMeta))
def _(self, key):
    raises(Exception, label="the-store-failed")
    ensures(implies(not self.flat and log_count("StoreCache._load_metadata") > 0,
                    log_arg("StoreCache._load_metadata", "state_path") == nested_path(self.path, key, "0state_")), "reads-exactly-the-key's-place")
    ensures(log_count("StoreCache._load_metadata") == 1 and result == log_result("StoreCache._load_metadata"), "what-the-store-holds-there")


@contract("liquer.cache.StoreCache.get", params=dict(self=SC, key=Str), returns=Opt(ST),
          opaque={"print": NoneT, "state_types_registry": Any, "get": Any, "from_bytes": (Data, ["Exception"]), "decode": Bytes,
                  "print_exc": NoneT, "exception": NoneT, "__init__": NoneT})
def _(self, key):
    raises(Exception, label="the-store-failed-or-the-stored-metadata-names-no-type")
    ensures(implies(not isnone(result), log_count("StoreCache.get_metadata") == 1 and not isnone(log_result("StoreCache.get_metadata"))
                    and unopt(result).metadata == unopt(log_result("StoreCache.get_metadata"))
                    and rec_has(unopt(result).metadata, "status") and rec_get(unopt(result).metadata, "status") == "ready"),
            "serves-only-an-entry-whose-stored-metadata-says-ready,with-exactly-that-metadata")
    ensures(implies(not isnone(result), log_count("BackingStore.get_bytes") == 1 and log_raised("BackingStore.get_bytes") == 0), "and-whose-bytes-the-store-really-holds")
    ensures(implies(not self.flat and log_count("BackingStore.get_bytes") > 0, log_arg("BackingStore.get_bytes", "key") == nested_path(self.path, key, "0state_"))
            and implies(not self.flat and log_count("BackingStore.contains") > 0, log_arg("BackingStore.contains", "key") == nested_path(self.path, key, "0state_")),
            "reads-exactly-the-key's-place")
    ensures(log_count("BackingStore.store") == 0 and log_count("BackingStore.store_metadata") == 0 and log_count("BackingStore.remove") == 0, "a-read-writes-nothing")


inline("liquer.state.State.is_error", "liquer.state.State.query", "liquer.state.State.type_identifier")


@contract("liquer.cache.StoreCache.store", params=dict(self=SC, state=ST), returns=Opt(Bool),
          opaque={"state_types_registry": Any, "get": Any, "as_bytes": (Tuple(Bytes, Opt(Str)), ["Exception"])})
def _(self, state):
    requires(rec_has(state.metadata, "is_error") and rec_has(state.metadata, "query") and rec_has(state.metadata, "type_identifier"), "a-state-made-by-State()")
    q = rec_get(state.metadata, "query")
    modifies(state.metadata)
    ensures(implies(old(rec_get(state.metadata, "is_error")), isnone(result) and log_count("BackingStore.store") == 0), "an-error-state-is-refused-and-nothing-is-written")
    ensures(implies(log_count("BackingStore.store") > 0, log_count("BackingStore.store") == 1
                    and implies(not self.flat, log_arg("BackingStore.store", "key") == nested_path(self.path, old(q), "0state_"))
                    and rec_get(log_arg("BackingStore.store", "metadata"), "status") == "ready"
                    and rec_get(log_arg("BackingStore.store", "metadata"), "query") == old(q)),
            "writes-once,at-exactly-the-place-of-the-state's-query,with-metadata-marked-ready-under-that-query")
    ensures(implies(not isnone(result) and unopt(result), log_count("BackingStore.store") == 1 and log_raised("BackingStore.store") == 0), "reports-success-only-after-the-store-accepted-the-write")
    ensures(log_count("BackingStore.remove") == 0, "a-store-never-removes")


prop("C13", fucs=["liquer.cache.StoreCache.contains", "liquer.cache.StoreCache.remove", "liquer.cache.StoreCache._load_metadata",
                  "liquer.cache.StoreCache.store_metadata", "liquer.cache.StoreCache.get_metadata", "liquer.cache.StoreCache.get", "liquer.cache.StoreCache.store"])
