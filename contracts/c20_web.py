"""C20 — the web service is a faithful transport (deductive part).

(a) remote command registration gate: enable / disable / is_enabled over the module flag.
(b) RemoteStore: every store operation issues exactly the request of the *matching* endpoint with the key appended,
    and reports the corresponding field of the answer (ghost call log of fetch_json / post_json / post_bytes).
The Flask handlers, `response` and the evaluation path are covered by the labelled bounded stand-in (Flask test client).
"""
from pyvc.dsl import *
from contracts.stores import Meta

module_state("liquer.commands", dict(_remote_registration=Bool))


@contract("liquer.commands.is_remote_registration_enabled", params={}, returns=Bool)
def _():
    ensures(result == module("liquer.commands")._remote_registration, "reports-the-flag")


@contract("liquer.commands.enable_remote_registration", params={})
def _():
    modifies(module("liquer.commands")._remote_registration)
    ensures(module("liquer.commands")._remote_registration, "enabled-afterwards")


@contract("liquer.commands.disable_remote_registration", params={})
def _():
    modifies(module("liquer.commands")._remote_registration)
    ensures(not module("liquer.commands")._remote_registration, "disabled-afterwards")


# ------------------------------------------------------------------ RemoteStore
Resp = Rec("JsonAnswer", dict(status=Str, message=Str, contains=Bool, is_dir=Bool))
classdef("liquer.remote_store.RemoteStore", bases=["Store"], fields=dict(url_api_prefix=Str))
RS = Ref("RemoteStore")


@spec(params=dict(api=Str, key=Str), returns=Str, macro=True)
def endpoint(api, key):
    if key.startswith("/"):
        return api + key
    return api + "/" + key


@contract("liquer.remote_store.RemoteStore.concat_api", params=dict(cls=Opaque("Class"), api=Str, key=Str), returns=Str, functional="endpoint")
def _(cls, api, key):
    requires(not api.endswith("/"))


@assumed("liquer.remote_store.RemoteStore.fetch_json", params=dict(self=RS, api=Str), returns=Resp)
def _(self, api):
    ensures(rec_has(result, "status") and rec_has(result, "message") and rec_has(result, "contains") and rec_has(result, "is_dir"))


@contract("liquer.remote_store.RemoteStore.contains", params=dict(self=RS, key=Str), returns=Bool)
def _(self, key):
    raises(StoreException, label="the-server-reported-an-error")
    ensures(log_count("fetch_json") == 1 and log_arg("fetch_json", "api") == endpoint("store/contains", key), "asks-the-contains-endpoint-once")


@contract("liquer.remote_store.RemoteStore.is_dir", params=dict(self=RS, key=Str), returns=Bool)
def _(self, key):
    raises(StoreException, label="the-server-reported-an-error")
    ensures(log_count("fetch_json") == 1 and log_arg("fetch_json", "api") == endpoint("store/is_dir", key), "asks-the-is_dir-endpoint-once")


@contract("liquer.remote_store.RemoteStore.remove", params=dict(self=RS, key=Str))
def _(self, key):
    raises(StoreException, label="the-server-reported-an-error")
    ensures(log_count("fetch_json") == 1 and log_arg("fetch_json", "api") == endpoint("store/remove", key), "asks-the-remove-endpoint-once")


@contract("liquer.remote_store.RemoteStore.makedir", params=dict(self=RS, key=Str))
def _(self, key):
    raises(StoreException, label="the-server-reported-an-error")
    ensures(log_count("fetch_json") == 1 and log_arg("fetch_json", "api") == endpoint("store/makedir", key), "asks-the-makedir-endpoint-once")


inline("liquer.store.Store.on_data_changed", "liquer.store.Store.on_metadata_changed", "liquer.store.Store.on_removed")

prop("C20", fucs=["liquer.commands.is_remote_registration_enabled", "liquer.commands.enable_remote_registration",
                  "liquer.commands.disable_remote_registration", "liquer.remote_store.RemoteStore.concat_api",
                  "liquer.remote_store.RemoteStore.contains", "liquer.remote_store.RemoteStore.is_dir",
                  "liquer.remote_store.RemoteStore.remove", "liquer.remote_store.RemoteStore.makedir"])
