#!/usr/bin/env python3
"""tools/register.py <PID> <category> <technique> -- reads level text and note from stdin as two paragraphs separated by a blank line."""
import json, sys
pid, cat, tech = sys.argv[1], sys.argv[2], sys.argv[3]
text, note = sys.stdin.read().strip().split("\n\n", 1)
m = json.load(open('/verif/MANIFEST.json'))
m['checks'] = [c for c in m['checks'] if c['property_id'] != pid] + [{
    "property_id": pid, "quick_cmd": "./check %s --tier quick" % pid, "thorough_cmd": "./check %s --tier thorough" % pid,
    "evidence_file": "evidence/%s.json" % pid, "replay_cmd_template": "./check %s --replay {path}" % pid, "engine": "pyvc",
    "level_claimed": {"category": cat, "text": " ".join(text.split()), "design_ref": "DESIGN.md 5 (%s)" % pid},
    "level_note": " ".join(note.split()), "technique": tech}]
m['checks'].sort(key=lambda c: c['property_id'])
m['not_applicable'] = [n for n in m['not_applicable'] if n['property_id'] != pid]
m['engines'][0]['serves_properties'] = sorted(set(m['engines'][0]['serves_properties'] + [pid]))
json.dump(m, open('/verif/MANIFEST.json', 'w'), indent=1)
print("registered", pid)
