#!/usr/bin/env python3
"""Regenerates the detection table in DESIGN.md (between the SEEDTABLE markers) and `detected_by` in seeded/*/meta.json
from selftest/results/*.json (written by `python3-vt -m pyvc.selftest <PID>`)."""
import glob, json, os, re
HERE = os.path.dirname(os.path.dirname(os.path.abspath(__file__)))
rows, harmless = [], []
for f in sorted(glob.glob(os.path.join(HERE, "selftest", "results", "*.json"))):
    d = json.load(open(f))
    for b in d["breaking"]:
        seeded = "seeded/" in b["patch"]
        name = b["patch"].split("/")[-2] if seeded else "selftest/%s/%s" % (d["property"], os.path.basename(b["patch"])[:-5])
        ded = [x.split("  (")[0] for x in b["failed"] if not x.startswith("bounded-stand-in")]
        bnd = [x for x in b["failed"] if x.startswith("bounded-stand-in")]
        what = ""
        mf = os.path.join(HERE, os.path.dirname(b["patch"]), "meta.json")
        if seeded and os.path.exists(mf):
            meta = json.load(open(mf))
            what = (meta.get("needs_to_manifest") or "").strip().splitlines()[0].lstrip("# ").strip()[:110]
            meta["detected_by"] = dict(check="./check %s" % d["property"], status=b["status"], deductive_obligations=ded[:3],
                                       bounded_standin=bool(bnd), replayed_input=bool(b.get("replayed")))
            json.dump(meta, open(mf, "w"), indent=1)
        first = (ded[0].split("#")[-1] if ded else (bnd[0][len("bounded-stand-in:"):] if bnd else ""))[:90]
        rows.append("| %s | %s | %s | %s | %s | `%s` |" % (name, d["property"], b["status"], "yes" if ded else "-", "yes" if bnd else "-", first.replace("|", "/")))
    for h in d.get("harmless", []):
        harmless.append("| %s | %s | %s |" % (h["patch"], d["property"], h["status"]))
table = ["| change | checked by | result | deductive obligation failed | bounded stand-in fired | first failing obligation / contract |", "|---|---|---|---|---|---|"] + rows
table += ["", "Semantics-preserving edits (the check must stay quiet):", "", "| edit | checked by | result |", "|---|---|---|"] + harmless
p = os.path.join(HERE, "DESIGN.md")
s = open(p).read()
s = re.sub(r"(<!-- SEEDTABLE:BEGIN -->\n).*?(<!-- SEEDTABLE:END -->)", lambda m: m.group(1) + "\n".join(table) + "\n" + m.group(2), s, flags=re.S)
open(p, "w").write(s)
print(len(rows), "breaking,", len(harmless), "harmless")
