#!/usr/bin/env python3
"""Rewrites the level texts / notes / technique strings of MANIFEST.json (kept here so that they are edited in one place).
usage: python3 tools/manifest_texts.py"""
import json

BOUNDED = ("The bounded stand-in is a run-time contract / reference-model check of the real code under /venv/bin/python over an "
           "enumerated input space; it is labelled bounded in the evidence and never counted among the discharged obligations.")

T = {
"C01": ("exploration",
        "contract-based deductive verification of the query decomposition and of the initial state (own VC generator over the real AST, z3); "
        "reference-interpreter comparison and a run-time contract of the argument typing as labelled bounded stand-ins",
        "Proved for all inputs on the real source: TransformQuerySegment.predecessor / Query.predecessor split a query into (everything left of the "
        "last step, the last step) with prefix ++ [last] == actions, file name peeled first, header and absoluteness preserved, the receiver "
        "unchanged; Context.create_initial_state hands the injected input value unchanged to the first action (and nothing when none is given); "
        "State.with_data keeps the data as given; CommandExecutable.parse_argv hands the textual arguments of an action to the argument parser "
        "unchanged and in order, followed only by keyword values and declared defaults, and returns only when the parser consumed every argument; CommandExecutable.__call__ (one pipeline step) applies the registered "
        "function exactly once to the predecessor's state or value followed by exactly the converted arguments and makes what it returns the "
        "result (a State as it is, anything else as the data of the successor state); evaluate_parameter evaluates every occurrence of a link "
        "argument once, and Context.apply (relative links) evaluates the combined query exactly once and returns its state as it is. That the argument parsers convert each text according to annotation / default, that evaluate_action hands the expanded "
        "parameters to the step in order, and the end-to-end composition is NOT proved: it is explored by a direct reference interpreter Sem (39-command vocabulary, every argument "
        "shape, links to depth 2/3, file names, injected inputs incl. falsy ones, extra parameters; ~7.5k queries quick) and by a run-time "
        "contract on command_metadata_from_callable / the argument parsers (annotation wins over the default's type; 170 cases).",
        "Category is exploration because the deciding part (composition semantics of evaluate_action / evaluate_parameter / parse_argv) is "
        "bounded; the deductive obligations cover the decomposition the evaluator recurses on and the initial state. Three recorded findings "
        "(KNOWN-FINDING lines) are genuine deviations of the library that were not repaired. " + BOUNDED),
"C02": ("exploration",
        "contract-based deductive verification of the encode side (ActionRequest / SegmentHeader / TransformQuerySegment / Query.encode) + "
        "run-time contract check of parse/encode over generated grammar sentences as labelled bounded stand-in",
        "Proved on the real source: an action with arguments (even a single empty one) always shows the '-' after its name and one without is "
        "just the name; a segment header is dashes for its level, 'R' for a resource header, the name, then one separator per parameter; in a "
        "transformation segment the header comes first and the file name last; Query.encode starts with '/' for an absolute query, always gives "
        "a pure resource query a header, and protects a header-less first segment that is followed by a headed one with '-/'. That the parser "
        "reads the canonical text back to the same structure (the fixed point itself) is NOT proved - the grammar is pyparsing combinator code "
        "outside the VC generator's reach - and is explored over bounded-exhaustive grammar sentences, token sequences, random long sentences "
        "and programmatically built queries (~33k cases quick).",
        "21 deductive obligations, all on the encode side; they catch encode-side regressions (3 self-test mutants, seed C02_3) but cannot "
        "decide the property. " + BOUNDED),
"C03": ("exploration",
        "contract-based deductive verification of the alphabet of encode_token (URL-safety, no bare separator) with an assumed alphabet "
        "contract of str.replace / urllib.parse.quote; run-time contract check of the round trip as labelled bounded stand-in",
        "Proved on the real source (for every string): the text encode_token / StringActionParameter.encode produce consists of unreserved URL "
        "characters, '%XX' escapes and '~' only and contains no bare '-' or '/' - so an argument can never be mistaken for a separator. The "
        "round trip decode_token(encode_token(s)) == s is NOT proved (a chain of str.replace followed by a scanner: both string solvers give up "
        "on unbounded strings): it is checked for every Unicode scalar value, every string of length <= 3 (quick) / 4 (thorough) over the "
        "structurally significant alphabet, and at every argument position of queries, links and headers (1.2 million cases quick).",
        "8 deductive obligations (alphabet half); the round-trip half is bounded. Assumed: alph(s.replace(a, b)) and alph(quote(s)) as stated in "
        "pyvc/strings.py and contracts/c03_tokens.py, cross-checked against CPython by the stand-in. " + BOUNDED),
"C04": ("proof",
        "contract-based deductive slice verification of Context.evaluate and Context.evaluate_action (ghost log of cache operations); "
        "every-cache-kind comparison as labelled bounded stand-in",
        "Proved on the real bodies of Context.evaluate (158 paths) and Context.evaluate_action (228 paths): a cache hit is returned as is and "
        "runs nothing; the prefix is evaluated with the same cache; the lookup is bypassed for extra parameters and injected input values; only "
        "freshly computed, admissible results are stored, under the canonical text, and the stored state is the returned one - so the only way a "
        "cache changes an outcome is by serving what an earlier evaluation of the same canonical query stored. That the served value equals a "
        "fresh evaluation is the content of C05 (admission) and C13 (faithful map); the end-to-end comparison outcome(q | cache, history) == "
        "outcome(q | NoCache) over every cache kind is the bounded stand-in.",
        "Slice verification: callees outside the admission logic are opaque (listed as assumptions in the evidence); the command executable, "
        "parsers and state-type codecs are assumed. " + BOUNDED),
"C05": ("proof",
        "contract-based deductive slice verification of the real Context.evaluate / evaluate_action / create_initial_state bodies with a ghost "
        "log of cache operations (own VC generator, z3); bounded reference-model check of every cache kind as labelled stand-in",
        "Proved: every call of Cache.store inside Context.evaluate satisfies `admissible(state.metadata)` (finished, successful, not volatile, "
        "caching not switched off) and files the state under the canonical query text; errors are never stored; a result that is not admitted "
        "evicts the stale entry; volatility propagates from the input state, from extra parameters and from the command, caching switched off "
        "stays off (evaluate_action); a state created from an injected input value is volatile exactly then (create_initial_state).",
        "The meaning of `volatile` / `caching` flags set by commands themselves is assumed from CommandExecutable.__call__. " + BOUNDED),
"C06": ("proof",
        "contract-based deductive verification (slices of Context.evaluate / evaluate_action, exact State.get); failing-step enumeration as "
        "labelled bounded stand-in",
        "Proved: a failed prefix short-circuits (no action runs, the result is an error state); every failure inside evaluate_action - unknown "
        "command, argument error, exception of the command - is flagged (is_error, status error) and the command runs at most once; a failing "
        "link argument (evaluate_parameter) is logged and surfaces as an EvaluationException that names the query being evaluated and the "
        "position of the failing argument, and a link that failed never yields a value; parse_argv turns a surplus or unconvertible argument into an ArgumentParserException that names "
        "the query being evaluated; State.get never hands out the data of an error state. Which message / position / query text the error record carries is explored only (failing "
        "action at every position and in every way); three deviations there (which query text a position of a nested or non-canonically spelled failure is measured in; resource keys that exist without data) are recorded findings.",
        "KNOWN-FINDING lines name three genuine, unrepaired deviations (two in the error record, one in the containment: a resource key without data, pinned by an existing test; Context.evaluate_resource is outside the deductive part - used through an assumed well-formedness contract only). " + BOUNDED),
"C07": ("proof",
        "contract-based deductive verification of the real MemoryStore code, the key helpers and Store.finalize_metadata against an abstract "
        "store view (own VC generator, z3/cvc5); bounded reference-model comparison of 14 store compositions as labelled stand-in",
        "Proved for MemoryStore (9 methods) against the interface contracts with the abstract view (dirs, data, meta) stated as whole-view "
        "equalities - so `operations on one key never affect another` is part of every postcondition: store / store_metadata / remove / makedir "
        "/ contains / is_dir / get_bytes / get_metadata / keys; parent_key / key_name / join_key and the inverse lemma; Store.finalize_metadata "
        "records key, name, directory flag, size and md5 of exactly the bytes being stored (field-level contract on the same source); the "
        "mutators of the generic proxy (ProxyStore.store / store_metadata / remove / makedir) do to the wrapped store exactly what the interface "
        "says, under the same key; the directory store names the metadata file of an entry after the entry's FULL name inside the metadata folder "
        "beside it (FileStore.metadata_path_for_key, stated with the assumed path algebra), so siblings never share one. The "
        "directory store, listdir / removedir of the memory store and every proxy composition are explored against the reference model "
        "(all well-formed histories to depth 2-4 over 6 keys - two of them siblings sharing a stem - incl. read-modify-write of an entry).",
        "listdir (an image comprehension over split keys) stays undecided in both solvers and is bounded only. hashlib.md5 and Metadata.as_dict "
        "are assumed. " + BOUNDED),
"C08": ("proof",
        "contract-based deductive verification of NewRecipeSpecStore against the Store interface of its sub-store, of Context._store_state and "
        "of the hand-off in Context.evaluate; recipe life-cycle model over generated recipe files as labelled bounded stand-in",
        "Proved: NewRecipeSpecStore.get_bytes serves from the sub-store when the key is there and otherwise makes the recipe exactly once and "
        "then serves; contains / keys are the union of stored and declared keys without ignored ones; remove forwards to the sub-store, keeps "
        "the declaration and refreshes the status record whether or not the key had been materialised; Context._store_state writes a result "
        "under exactly the store key, once, to the store the caller named (bytes + metadata, or metadata only for a failed / unserialisable "
        "result); Context.evaluate hands every result it serves or computes (cache hit included) to that writer; update_recipes resolves "
        "relative references against the directory's key in the global store (static origin obligation). That the bytes equal the evaluation of "
        "the resolved query is the evaluator's semantics (C01) and is explored: 36 store configurations x histories, with and without a "
        "process-wide cache.",
        "make() / update_recipes (YAML) are assumed; the on_* status hooks are assumed to do what their name says. " + BOUNDED),
"C09": ("proof",
        "contract-based deductive slice verification of Context.evaluate / evaluate_action (ghost log) + the proved in-memory cache; "
        "call-counter comparison per cache kind as labelled bounded stand-in",
        "Proved: every admissible result computed by evaluate_action is stored at its own level, exactly once, under the canonical text, into "
        "the cache that was given (also for the final metadata); a hit runs nothing and is returned as is; a result is volatile only for a "
        "reason (input, non-empty extra parameters, or the command said so) - so nothing cacheable is silently recomputed. Re-evaluation "
        "counts over real caches (memory, file, SQL, store-backed) are explored.",
        BOUNDED),
"C10": ("proof",
        "ownership obligations decided by a data-flow analysis of the real source (every value reaching a boundary is the result of a deep "
        "copier); mutate-then-re-read scenarios as labelled bounded stand-in",
        "19 structural obligations, decided on every run: every value that crosses a boundary named by the property - variable defaults into a "
        "new State / Context, a state into the in-memory cache and back (data and metadata), a state into a command unless volatile, metadata "
        "to the caller, the copy methods of the built-in state types - is a constant, the result of deepcopy / clone / copy_state_data / a "
        "state-type copy, or a local all of whose assignments are. Locals may be renamed freely. That deepcopy is deep is assumed; the behaviour "
        "(mutate, then re-read) is explored.",
        "Structural proof relative to the listed deep copiers; aliasing introduced inside a command is out of scope by the property's own "
        "statement. " + BOUNDED),
"C11": ("exploration",
        "contract-based deductive verification of codec selection (encode_state_data / decode_state_data) + ownership obligations on the copy "
        "methods; run-time contract check of the real codecs over generated values as labelled bounded stand-in",
        "Proved: encode_state_data asks the process registry for the state type of the value's class, lets exactly that type serialise exactly "
        "the value in exactly the requested format and reports the identifier of that same type; decode_state_data selects the decoder by "
        "exactly the recorded identifier and lets it read exactly the given bytes in the requested format; the text type writes utf-8 and reads it "
        "back with the same codec, the bytes type passes bytes through, the generic and pickle types pair json.dumps / json.loads and pickle.dumps "
        "/ pickle.loads per format (round trips relative to the assumed laws of utf-8, json and pickle); the copy methods return "
        "deep copies. "
        "The codec law from_bytes(as_bytes(v, e), e) == v of the remaining state types (the line-oriented dictionary format, dataframes, images ...) and the laws of the library codecs themselves are NOT proved - "
        "library codecs are outside the engine - and is explored over generated values of every built-in type and format.",
        "17 deductive obligations decide who encodes and who decodes; the round trip itself is bounded. One recorded finding (nested "
        "containers in the line-oriented dictionary format). " + BOUNDED),
"C12": ("exploration",
        "per-operation guarantees of the shared in-memory cache proved deductively (contracts of MemoryCache / CacheCombine); deterministic "
        "interleaving enumeration at cache-operation and file-operation granularity as labelled bounded stand-in",
        "Proved (37 obligations): MemoryCache.get serves only an entry whose data was stored and whose metadata says ready - a metadata-only "
        "placeholder is never served; store_metadata (used for progress and for the final metadata that precedes the data) never makes an entry "
        "retrievable and touches no other key; store files data and ready metadata in one operation. With one cache operation as one step this "
        "gives `an entry another evaluation is still producing is never served as finished`. The schedule-level statement (every interleaving of "
        "two or three overlapping evaluations returns the stand-alone outcomes and leaves only correct entries) is NOT proved: the engine has no "
        "concurrency; it is explored by deterministic interleavings (memory cache and file cache, ~1400 schedules quick; scheduling points before every cache "
        "operation and, for file-backed caches, before every open, write and rename; two writers of ONE key stopped at each (rename, write) pair with "
        "a reader in between - the schedule that exposed the temporary file shared by the threads of a process, repaired).",
        "No thread-level proof; atomicity of one cache operation is the property's own granularity and is assumed. " + BOUNDED),
"C13": ("proof",
        "contract-based deductive verification of the in-memory cache, the combinators and the store-backed key mapping against an abstract map "
        "view (own VC generator, z3/cvc5); bounded reference-model comparison of every back-end as labelled stand-in",
        "Proved: MemoryCache (get / contains / store / store_metadata / remove / clean), CacheCombine (get / contains / remove / store), NoCache, "
        "CacheProxy against the Cache interface with the view (cmeta, cdata): a stored value is served, ready, under its query; a refused value "
        "leaves nothing stale; remove removes from both levels; the conditional wrappers (if_attribute_equal / if_contains / if_not_contains: "
        "get, remove, store) read the wrapped cache and either store into it unchanged or refuse and leave nothing stale, for every outcome of the "
        "attribute test; the store-backed cache (get, get_metadata, contains, remove, store, store_metadata) touches its backing store only at "
        "to_path(key), which is injective in the nested layout (lemma) - so operations on one key never affect another -, serves only an entry "
        "whose stored metadata says ready and whose bytes the store holds, and refuses error states. File, SQL and obfuscating / encrypting "
        "caches, the flat layout and the serialisation itself are explored against the reference map.",
        "Interface clause `a cached state carries the standard metadata keys` is assumed of every cache, not proved on the implementations. "
        + BOUNDED),
"C14": ("proof",
        "contract-based deductive verification of key translation, forwarding and routing (own VC generator, z3/cvc5); bounded reference-model "
        "comparison over mount tables as labelled stand-in",
        "Proved: PrefixStore.translate_key strips / adds exactly the mount prefix (inverse lemmas in both directions), contains / is_dir and five "
        "KeyTranslatingStore forwarders call the sub-store with the translated key; MountPointStore.route_to picks the last matching mount "
        "(loop invariant `no later mount matches`) else the default store; _leads_to_mount / is_dir / contains report the ancestors of a mount "
        "point as directories; the routed operations (get_bytes, store, store_metadata, remove, makedir) reach exactly the store route_to "
        "selects, under the same key, and modify no other mounted store (frame obligation). Union listings (listdir / keys of the composite) are explored: 5 mount tables x memory / directory stores.",
        BOUNDED),
"C15": ("proof",
        "contract-based deductive verification against interface contracts with an abstract view (own VC generator, z3/cvc5); bounded "
        "reference-model comparison as labelled stand-in",
        "Proved for 12 OverlayStore methods against the interface contracts of both layers: the overlay invariant (tombstones and overlay entries "
        "are disjoint, a tombstoned key is never visible), reads fall back exactly when the overlay neither holds nor hides the key, every "
        "mutator leaves the fall-back store unchanged (frame obligation), remove hides, store / makedir un-hide the key and its ancestors. "
        "Recursive removedir is bounded only.",
        BOUNDED),
"C16": ("proof",
        "static trace obligations over the real writers (write-temporary-then-rename, no in-place write of a final path, data before metadata) "
        "+ bounded crash-point enumeration as labelled stand-in",
        "19 structural obligations on FileCache (and its obfuscating / encrypting subclasses, which inherit the writers) and FileStore: "
        "every write of a final path goes through a helper that writes a temporary file in the same directory and renames it onto "
        "the target; no function opens a final path for writing; data is in place before the metadata that declares it ready. Relative to the "
        "atomicity of os.replace this gives `old, new or nothing - never a torn entry`. The behaviour is explored by killing a forked writer at "
        "every file-system event.",
        "Proof is structural and relative to POSIX rename atomicity (assumed). " + BOUNDED),
"C17": ("proof",
        "contract-based deductive verification (own VC generator, z3/cvc5) + static path-origin obligations; bounded sentinel-file check as "
        "labelled stand-in",
        "Proved: ReadOnlyStore refuses every mutator (store, store_metadata, remove, removedir, makedir, openbin for writing) with "
        "ReadOnlyStoreException before touching the wrapped store, and read_only() returns such a view; ProxyStore reads forward unchanged; "
        "FileStore._checked_key rejects absolute keys and '..' components, path_for_key / metadata_path_for_key stay inside the root (pathlib "
        "model J1-J6); every file-system primitive in FileStore takes its path from those functions (origin obligation).",
        "pathlib's join / parent / name laws are assumed as stated in pyvc/pathmodel.py. " + BOUNDED),
"C18": ("proof",
        "contract-based deductive verification of State.with_filename and of the metadata clauses of Context.evaluate_action / evaluate; "
        "returned / cached / stored metadata comparison as labelled bounded stand-in",
        "Proved: with_filename records the file name and derives extension and media type from it; in evaluate_action status agrees with the "
        "error flag (error iff is_error, otherwise ready), every failure is flagged, the final metadata goes to the given cache and equals the "
        "returned one; evaluate files the result under the canonical query text and flags a failed prefix, records a failure that comes up from a nested evaluation "
        "(status error, error flag) before it goes on, and leaves the metadata-writing switch of the asking evaluation as it found it; "
        "MetadataContextMixin.error / exception set flag and status; the in-memory cache keeps and hands out private copies (ownership by data "
        "flow), so a later step cannot rewrite a kept copy. That type identifier, message, "
        "commands and the three kept copies (returned, cached, stored) agree in every field - also for the copies kept for the prefixes of a query - is explored.",
        "Two recorded findings (KNOWN-FINDING: StoreCache media type, file-name-only query) are genuine, unrepaired deviations. " + BOUNDED),
"C19": ("proof",
        "contract-based deductive verification (own VC generator over the real AST, z3/cvc5); bounded run-time contract check as labelled stand-in",
        "Proved for all directories and all paths: ResourceQuerySegment._query_to_absolute / to_absolute and Query.to_absolute compute exactly "
        "the POSIX normalisation N(dir, path) of the reference function (recursive spec; 6 lemmas: result is dot-free, idempotence, join), reject "
        "climbing above the root, select the right segment and do not mutate the receiver.",
        "Unbounded proof by recursion contract (decreases on the remaining path). " + BOUNDED),
"C20": ("proof",
        "contract-based deductive verification of the Flask handlers as forwarders, of serve / response, of the registration gate and of the "
        "RemoteStore endpoint mapping (own VC generator, ghost call log); Flask test-client comparison as labelled bounded stand-in",
        "Proved on the handler bodies: each store / cache endpoint calls exactly the one operation its route names on the process store "
        "(cache) with the key unchanged, reports what it answered in the field the client reads and status ERROR exactly when it failed; GET /api/store/data answers with exactly "
        "the bytes the store holds under the key and the stored media type, POST stores exactly the request body under the key together with the "
        "metadata already held for it; serve "
        "evaluates exactly the routed query text, once, passes every request argument on, and answers with response(state): body == "
        "encode_state_data(state.get(), state.extension), Content-Type == the encoder's media type, never a normal answer for an error state; "
        "the remote-registration gate is the module flag; every RemoteStore operation issues exactly the request of the matching endpoint. "
        "Flask's routing and WSGI percent-decoding, jsonify and the evaluator behind evaluate() are assumed and explored with the test client.",
        "One recorded finding: WSGI percent-decodes the path of /q/<query> before the handler sees it. " + BOUNDED),
}


def main():
    m = json.load(open('/verif/MANIFEST.json'))
    for c in m['checks']:
        cat, tech, text, note = T[c['property_id']]
        c['level_claimed'] = dict(category=cat, text=" ".join(text.split()), design_ref="DESIGN.md 0.3 and 5 (%s)" % c['property_id'])
        c['level_note'] = " ".join(note.split())
        c['technique'] = " ".join(tech.split())
    m['notes'] = ("All 20 properties are decided by ./check <id>; deductive obligations are regenerated from /repo's working tree on every run; "
                  "bounded stand-ins are labelled and never counted as proved. See DESIGN.md section 0.")
    json.dump(m, open('/verif/MANIFEST.json', 'w'), indent=1)
    print("updated", len(m['checks']))


if __name__ == "__main__":
    main()
