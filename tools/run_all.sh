#!/bin/sh
# run every registered check (default tier quick) in parallel; one summary line per property
TIER=${1:-quick}
P=${2:-5}
cd "$(dirname "$0")/.."
mkdir -p /tmp/runall
seq -w 1 20 | sed 's/^/C/' | xargs -P $P -I{} sh -c "./check {} --tier $TIER > /tmp/runall/{}.out 2>&1; echo {} rc=\$? \$(grep -c '^VIOLATION' /tmp/runall/{}.out) violations, \$(grep -c '^KNOWN-FINDING' /tmp/runall/{}.out) known; grep -m1 'tier=' /tmp/runall/{}.out | cut -c1-90"
