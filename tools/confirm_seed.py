#!/usr/bin/env python3
"""Confirm a seeded defect independently and store it under /verif/seeded/<name>/.
usage: confirm_seed.py <seed dir with patch.diff, demo.py, notes.md> <property id> <name>
Steps (scratch worktree under /tmp, removed afterwards): demo passes on HEAD; patch applies; demo fails with it;
the pinned 216 baseline tests still pass with it."""
import json, os, shutil, subprocess, sys, tempfile, xml.etree.ElementTree as ET

src, pid, name = sys.argv[1], sys.argv[2], sys.argv[3]
wt = tempfile.mkdtemp(prefix="seedconfirm_")
os.rmdir(wt)
def sh(cmd, **kw):
    return subprocess.run(cmd, shell=True, capture_output=True, text=True, **kw)
res = dict(property=pid, name=name)
try:
    assert sh("git -C /repo worktree add -q %s HEAD" % wt).returncode == 0
    env = dict(os.environ, PYTHONPATH=wt)
    shutil.copy(os.path.join(src, "demo.py"), os.path.join(wt, "_demo.py"))
    r0 = sh("cd %s && /venv/bin/python _demo.py" % wt, env=env, timeout=600)
    # two demo conventions: exit code (0 holds / non-zero broken), or exit 0 with a line HOLDS / BROKEN: ...
    by_text = "HOLDS" in r0.stdout
    res["demo_without_patch_rc"] = r0.returncode if not by_text else (0 if "BROKEN" not in r0.stdout else 1)
    ra = sh("git -C %s apply %s" % (wt, os.path.join(src, "patch.diff")))
    res["patch_applies"] = ra.returncode == 0
    r1 = sh("cd %s && /venv/bin/python _demo.py" % wt, env=env, timeout=600)
    res["demo_with_patch_rc"] = r1.returncode if not by_text else (1 if "BROKEN" in r1.stdout else 0)
    res["demo_with_patch_tail"] = (r1.stdout + r1.stderr)[-400:]
    jx = os.path.join(wt, "_junit.xml")
    sh("cd %s && /venv/bin/python -m pytest -q -p no:cacheprovider --timeout=900 --continue-on-collection-errors --junitxml=%s tests" % (wt, jx), timeout=1500)
    base = set(json.load(open("/root/.vp/BASELINE.json"))["stable_pass"])
    ok = set()
    for tc in ET.parse(jx).iter("testcase"):
        if not any(c.tag in ("failure", "error", "skipped") for c in tc):
            ok.add(tc.get("classname") + "::" + tc.get("name"))
    res["baseline_missing_with_patch"] = sorted(base - ok)
    res["confirmed"] = bool(res["patch_applies"] and res["demo_without_patch_rc"] == 0 and res["demo_with_patch_rc"] != 0 and not res["baseline_missing_with_patch"])
finally:
    sh("git -C /repo worktree remove --force %s" % wt)
    shutil.rmtree(wt, ignore_errors=True)
if res.get("confirmed"):
    dst = os.path.join("/verif/seeded", name)
    os.makedirs(dst, exist_ok=True)
    for f in ("patch.diff", "demo.py", "notes.md"):
        if os.path.exists(os.path.join(src, f)):
            shutil.copy(os.path.join(src, f), os.path.join(dst, f))
    notes = open(os.path.join(src, "notes.md")).read() if os.path.exists(os.path.join(src, "notes.md")) else ""
    if not notes and os.path.exists(os.path.join(src, "meta.json")):
        notes = json.load(open(os.path.join(src, "meta.json"))).get("summary", "")
    meta = dict(property=pid, breaks=pid, needs_to_manifest=notes[:1500],
                confirmed_by="tools/confirm_seed.py: demo exit 0 on HEAD, patch applies, demo exit %d with patch, all 216 baseline tests pass with patch" % res["demo_with_patch_rc"],
                what_was_run=["/venv/bin/python demo.py (clean worktree)", "git apply patch.diff", "/venv/bin/python demo.py (patched)",
                              "/venv/bin/python -m pytest tests (patched) compared with BASELINE.json stable_pass"],
                detected_by=None)
    json.dump(meta, open(os.path.join(dst, "meta.json"), "w"), indent=1)
print(json.dumps(res))
