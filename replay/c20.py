"""C20: labelled *bounded* stand-ins - the Flask blueprint as a faithful transport of the library.

(a) GET /liquer/q/<query> vs in-process evaluate() + encode_state_data() over a small command vocabulary, arbitrary
    argument text (liquer.parser.encode_token) and file extensions; failing queries must not answer 2xx;
(b) every store / cache endpoint vs the same call on a twin library object driven with the same history;
(c) the remote-registration gate over all enable/disable histories of length <= 4;
(d) liquer.remote_store.RemoteStore (its `requests` routed into the Flask test client) vs a twin of the served store.
"""
import contextlib
import io
import itertools
import json
import random
import shutil
import tempfile
from urllib.parse import quote

MAXV = 8
TIME_KEYS = ("created", "updated", "started", "timestamp")

_APP = None


def client():
    global _APP
    if _APP is None:
        from flask import Flask
        import liquer.server.blueprint as bp
        _APP = Flask("liquer_bounded_c20")
        _APP.register_blueprint(bp.app, url_prefix="/liquer")
    return _APP.test_client()


@contextlib.contextmanager
def quiet():
    with contextlib.redirect_stderr(io.StringIO()), contextlib.redirect_stdout(io.StringIO()):
        yield


def add_violation(violations, v, per_function=2):
    if len(violations) < MAXV and sum(1 for x in violations if x.get("function") == v.get("function")) < per_function:
        violations.append(v)


# ------------------------------------------------------------------------------------------ vocabulary
def register_vocabulary():
    from liquer.commands import reset_command_registry, command, first_command
    reset_command_registry()

    @first_command
    def txt(x="hello"):
        return "T:" + str(x)

    @first_command
    def num(x: int = 1):
        return x * 2

    @first_command
    def dic(x="k"):
        return {"a": x, "n": [1, 2]}

    @first_command
    def raw(x="b"):
        return ("B:" + x).encode("utf-8")

    @first_command
    def lst(x="l"):
        return [x, 1, None]

    @first_command
    def fail():
        raise Exception("boom")

    @command
    def up(s, suffix=""):
        return str(s).upper() + suffix

    @command
    def add(n, m: int = 1):
        return n + m

    @command
    def wrap(v):
        return {"value": v if not isinstance(v, bytes) else v.decode("utf-8")}

    @command
    def enc(v):
        return str(v).encode("utf-8")

    @command
    def boom(v):
        raise Exception("boom on " + repr(v)[:20])


ARG_TEXTS = ["abc", "", "a b", "a-b", "a/b", "~x~", "x_y.z", "é中", "a?b=c&d", "100%", "#frag", "semi;colon:", "plus+",
             "q\"uo'te", "a%20b", "line\nbreak", "tab\there", "<b>&amp;</b>", "\\back", "{}[]|^`", "-", "--R", "~", "a,b@c!$()*"]
EXTENSIONS = [None, "txt", "json", "html", "pickle", "pkl", "b", "djson", "md", "htm", "xml"]


def query_space(rnd, count):
    """Systematic part (every head x every argument text; every head x transform x extension) + seeded random part."""
    from liquer.parser import encode_token
    heads_with_arg = ["txt", "dic", "raw", "lst"]
    out = []

    def fn(ext, name="out"):
        return [] if ext is None else ["%s.%s" % (name, ext)]

    for h in heads_with_arg:
        for i, a in enumerate(ARG_TEXTS):
            ext = {"txt": "txt", "dic": "json", "raw": "b", "lst": "json"}[h] if i % 2 == 0 else None
            out.append("/".join(["%s-%s" % (h, encode_token(a))] + fn(ext)))
    for a in ARG_TEXTS:
        out.append("txt/up-%s/o.txt" % encode_token(a))
    heads = ["txt-abc", "txt", "num-3", "num", "num-x", "dic-v", "raw-z", "lst-q", "fail", "nosuch", "num-1-2"]
    transforms = [[], ["up"], ["up-s"], ["add-2"], ["add"], ["wrap"], ["enc"], ["boom"], ["up", "wrap"], ["wrap", "enc"], ["nosuch-1"]]
    for h in heads:
        for t in transforms:
            for ext in EXTENSIONS:
                out.append("/".join([h] + t + fn(ext)))
    systematic = list(dict.fromkeys(out))
    extra = []
    for _ in range(count):
        h = rnd.choice(heads_with_arg + ["num"])
        a = rnd.choice(ARG_TEXTS) if h != "num" else str(rnd.randint(-5, 50))
        parts = ["%s-%s" % (h, encode_token(a))]
        for _i in range(rnd.randint(0, 2)):
            t = rnd.choice(["up", "add", "wrap", "enc", "up"])
            if t == "up" and rnd.random() < 0.7:
                t += "-" + encode_token(rnd.choice(ARG_TEXTS))
            if t == "add" and rnd.random() < 0.7:
                t += "-" + str(rnd.randint(0, 9))
            parts.append(t)
        parts += fn(rnd.choice(EXTENSIONS), name=rnd.choice(["out", "a.b", "x-y"]))
        extra.append("/".join(parts))
    return systematic, extra


def inprocess(query, extra_parameters=None):
    """(ok, bytes, mimetype) of the in-process evaluation serialised by the query's extension."""
    from liquer.query import evaluate
    from liquer.state_types import encode_state_data
    try:
        with quiet():
            state = evaluate(query) if extra_parameters is None else evaluate(query, extra_parameters=dict(extra_parameters))
            if state.is_error:
                return False, None, None
            b, mime, _t = encode_state_data(state.get(), extension=state.extension)
        return True, b, mime
    except Exception:
        return False, None, None


def serve_standin(tier, rnd, violations):
    from liquer.cache import set_cache, NoCache, MemoryCache
    from liquer.store import set_store, MemoryStore
    register_vocabulary()
    systematic, extra = query_space(rnd, 80 if tier == "quick" else 1000)
    if tier == "quick":
        # keep the argument-text part whole, thin the head x transform x extension product deterministically
        keep = [q for i, q in enumerate(systematic) if i < 5 * len(ARG_TEXTS) or i % 8 == 0]
    else:
        keep = systematic
    queries = keep + extra
    c = client()
    n = 0
    nontrivial = set()
    link_cases = 0
    store = MemoryStore()
    store.store("data/in.txt", b"stored text", {})
    resource_queries = ["-R/data/in.txt", "-R/data/in.txt/-/up/o.txt", "data/in.txt/-/enc/up-x/o.html", "-R/data/none.txt", "data/none.txt/-/up/o.txt"]
    try:
        set_store(store)
        for mode in ("no cache", "memory cache, HTTP first", "memory cache, in-process first"):
            set_cache(NoCache() if mode == "no cache" else MemoryCache())
            qs = queries + resource_queries if mode == "no cache" else [q for i, q in enumerate(queries) if i % (8 if tier == "quick" else 3) == 0]
            for q in qs:
                n += 1
                nontrivial.add(q)
                if mode.endswith("in-process first"):
                    exp = inprocess(q)
                with quiet():
                    r = c.get("/liquer/q/" + quote(q, safe="/"))
                if not mode.endswith("in-process first"):
                    exp = inprocess(q)
                compare_serve(violations, "serve (request path percent-quoted so that the route receives exactly the query text)", q, mode, exp, r)
                if "%" in q and mode == "no cache":
                    # the link exactly as the library composes it (server + api_path + query, see /api/build): the query text *is* the URL path
                    link_cases += 1
                    with quiet():
                        r = c.get("/liquer/q/" + q)
                    compare_serve(violations, "serve (query text used as the URL path, the link form of /api/build)", q, mode, exp, r,
                                  known="GET /liquer/q/txt-a%3Fb/o.txt (argument 'a?b' encoded by encode_token, query text used as URL path as /api/build composes links): "
                                        "the WSGI layer percent-decodes the path, the parser then meets the raw character and the request fails with 500 "
                                        "(any %XX escape of encode_token: '?', '#', '%', '&', non-ASCII, ...) while evaluate() of the same query succeeds")
        # request parameters (URL arguments / JSON body) are the extra parameters of the evaluation; requests must not influence each other
        set_cache(NoCache())
        for q, params in (("txt", {"x": "Bob"}), ("txt/up", {"suffix": "!"}), ("num", {"x": "4"}), ("txt/up/o.txt", {"suffix": "?"}), ("dic", {"x": "y z"})):
            for how in ("url", None, "json", None, "url", "json", None):
                n += 1
                with quiet():
                    if how == "url":
                        r = c.get("/liquer/q/" + q, query_string=params)
                    elif how == "json":
                        r = c.post("/liquer/q/" + q, json=params)
                    else:
                        r = c.get("/liquer/q/" + q)
                exp = inprocess(q, params if how else None)
                compare_serve(violations, "serve (request parameters as extra parameters, request histories)", q,
                              "no cache; parameters %r sent as %s" % (params, how), exp, r)
    finally:
        set_cache(None)
        set_store(None)
    return n + link_cases, len(nontrivial), len(queries), link_cases


def compare_serve(violations, function, q, mode, exp, r, known=None):
    ok, b, mime = exp
    v = None
    if not ok:
        if 200 <= r.status_code < 300:
            v = dict(problem="failing query answered with a success status", http_status=r.status_code, body=repr(r.data[:60]))
    else:
        if r.status_code != 200:
            v = dict(problem="query accepted in-process is refused over HTTP", http_status=r.status_code, expected_bytes=repr(b[:60]))
        elif r.data != b:
            v = dict(problem="bytes differ", http_body=repr(r.data[:80]), expected_bytes=repr(b[:80]))
        elif r.headers.get("Content-Type") != mime:
            v = dict(problem="media type differs", http_content_type=r.headers.get("Content-Type"), expected=mime)
    if v:
        v = dict(contract="GET /liquer/q/<query> == encode_state_data(evaluate(query).get(), extension); failing query => non-2xx",
                 function=function, query=q, cache=mode, **v)
        if known:
            v["known"] = known
        add_violation(violations, v)


# ------------------------------------------------------------------------------------------ helpers for twins
def mask(x, roots=()):
    """JSON form with time stamps masked and temporary roots neutralised."""
    def rec(y):
        if isinstance(y, dict):
            return {str(k): ("<time>" if k in TIME_KEYS and v is not None else rec(v)) for k, v in y.items()}
        if isinstance(y, (list, tuple)):
            return [rec(i) for i in y]
        return y
    try:
        t = json.dumps(rec(json.loads(json.dumps(x))), sort_keys=True)
    except Exception as e:
        return "unserialisable:" + type(e).__name__
    for r in roots:
        t = t.replace(r, "<root>")
    return t


def delta(a_text, b_text):
    """The differing top-level fields of two masked JSON texts (service side, library side)."""
    try:
        a, b = json.loads(a_text), json.loads(b_text)
        if isinstance(a, dict) and isinstance(b, dict):
            return repr({k: (a.get(k, "<absent>"), b.get(k, "<absent>")) for k in sorted(set(a) | set(b)) if a.get(k, "<absent>") != b.get(k, "<absent>")})[:400]
    except Exception:
        pass
    return "service %s / library %s" % (a_text[:200], b_text[:200])


def call(f, *a, **kw):
    try:
        with quiet():
            return ("ok", f(*a, **kw))
    except Exception as e:
        return ("raises", type(e).__name__)


def http_json(r):
    """('ok', json) for a 2xx answer whose JSON does not report status ERROR, else ('raises', ...)."""
    if not (200 <= r.status_code < 300):
        return ("raises", "HTTP %d" % r.status_code)
    try:
        j = json.loads(r.data)
    except Exception:
        return ("raises", "not JSON")
    if isinstance(j, dict) and j.get("status") == "ERROR":
        return ("raises", "status ERROR")
    return ("ok", j)


KNOWN_KEYS = ("GET /liquer/api/store/keys with set_store(FileStore(dir)): FileStore.keys() is a generator, jsonify cannot serialise it, the endpoint answers "
              "status ERROR (and RemoteStore.keys() raises StoreException) although store.keys() works; the blueprint needs list(store.keys())")
KNOWN_ROOT = ("RemoteStore.contains('') / is_dir('') / listdir('') / get_metadata(''): the root key yields the URL '.../store/listdir/' for which the "
              "blueprint has no route (404 -> HTTPError), while the served store answers True / True / the top-level names")
STORE_KEYS = ["a.txt", "d/x.json", "d/e/z.bin", "d/ü x.txt"]
STORE_DIRS = ["d", "d/e", "n/m", "n"]
PAYLOAD = {"a.txt": b"one", "d/x.json": b'{"k": 1}', "d/e/z.bin": b"\x00\xff\x80bin", "d/ü x.txt": "ü".encode("utf-8")}


def store_factories(tier):
    from liquer.store import MemoryStore, FileStore

    def mem():
        return MemoryStore(), MemoryStore(), [], []

    def fs():
        a, b = tempfile.mkdtemp(prefix="liquer_bounded_"), tempfile.mkdtemp(prefix="liquer_bounded_")
        return FileStore(a), FileStore(b), [a, b], [a, b]
    return [("MemoryStore", mem), ("FileStore", fs)]


def store_ops(keys):
    ops = []
    for k in keys:
        ops.append(("post_data", k, PAYLOAD[k]))
        ops.append(("post_metadata", k, {"title": "T-" + k, "custom": 1}))
        ops.append(("remove", k))
    ops.append(("post_data", "a.txt", b""))
    for d in ("d", "d/e"):
        ops.append(("removedir", d))
    for d in ("d", "n/m"):
        ops.append(("makedir", d))
    return ops


def twin_store_op(B, op):
    from liquer.store import KeyNotFoundStoreException
    kind, k = op[0], op[1]
    if kind == "post_data":
        def f():
            try:
                md = B.get_metadata(k)
            except KeyNotFoundStoreException:
                md = {}
            B.store(k, op[2], md)
        return call(f)
    if kind == "post_metadata":
        return call(B.store_metadata, k, json.loads(json.dumps(op[2])))
    return call(getattr(B, kind), k)


def http_store_op(c, op):
    kind, k = op[0], op[1]
    p = "/liquer/api/store/%s/%s" % ({"post_data": "data", "post_metadata": "metadata"}.get(kind, kind), quote(k, safe="/"))
    with quiet():
        if kind == "post_data":
            r = c.post(p, data=op[2], headers={"Content-Type": "application/octet-stream"})
        elif kind == "post_metadata":
            r = c.post(p, json=op[2])
        else:
            r = c.get(p)
    return http_json(r)


def compare_store_reads(c, B, roots, universe):
    """Differences between every read endpoint and the same read on the twin: the first one, preceded by those of an identified root cause."""
    diffs = []
    with quiet():
        r = c.get("/liquer/api/store/keys")
    got, exp = http_json(r), call(lambda: sorted(B.keys()))
    if got[0] != exp[0] or (exp[0] == "ok" and sorted(got[1].get("keys")) != exp[1]):
        d = dict(endpoint="keys", http=repr(got)[:200], library=repr(exp)[:200])
        if got[0] == "raises" and exp[0] == "ok" and not isinstance(B.keys(), (list, tuple)):
            d["known"] = KNOWN_KEYS
            diffs.append(d)
        else:
            return diffs + [d]
    for k in universe:
        qk = quote(k, safe="/")
        for ep, field, f in (("contains", "contains", B.contains), ("is_dir", "is_dir", B.is_dir), ("listdir", "listdir", B.listdir)):
            with quiet():
                r = c.get("/liquer/api/store/%s/%s" % (ep, qk))
            got, exp = http_json(r), call(f, k)
            if exp[0] == "ok" and exp[1] is not None and not isinstance(exp[1], bool):
                exp = ("ok", sorted(exp[1]))
            gv = got[1].get(field) if got[0] == "ok" else None
            if isinstance(gv, list):
                gv = sorted(gv)
            if got[0] != exp[0] or (exp[0] == "ok" and gv != exp[1]):
                return diffs + [dict(endpoint=ep, key=k, http=repr(got)[:200], library=repr(exp)[:200])]
        with quiet():
            r = c.get("/liquer/api/store/metadata/" + qk)
        got, exp = http_json(r), call(B.get_metadata, k)
        if got[0] != exp[0] or (exp[0] == "ok" and mask(got[1], roots) != mask(exp[1], roots)):
            if got[0] == exp[0]:
                return diffs + [dict(endpoint="metadata GET", key=k, differing_fields_service_vs_library=delta(mask(got[1], roots), mask(exp[1], roots)))]
            return diffs + [dict(endpoint="metadata GET", key=k, http=repr(got)[:300], library=repr(exp)[:300])]
        with quiet():
            r = c.get("/liquer/api/store/data/" + qk)

        def data():
            md = B.get_metadata(k)
            b = B.get_bytes(k)
            if b is None:
                raise KeyError(k)
            return b, md.get("mimetype", "application/octet-stream")
        exp = call(data)
        if exp[0] == "ok":
            if r.status_code != 200 or r.data != exp[1][0] or r.headers.get("Content-Type") != exp[1][1]:
                return diffs + [dict(endpoint="data GET", key=k, http=repr((r.status_code, r.data[:60], r.headers.get("Content-Type"))), library=repr(exp)[:200])]
        elif 200 <= r.status_code < 300:
            return diffs + [dict(endpoint="data GET", key=k, http=repr((r.status_code, r.data[:60])), library=repr(exp))]
    return diffs


def direct_snapshot(s, universe, roots):
    out = {"keys": call(lambda: sorted(s.keys()))}
    for k in universe:
        md = call(s.get_metadata, k)
        out[k] = (call(s.get_bytes, k), call(s.contains, k), call(s.is_dir, k), (md[0], mask(md[1], roots)) if md[0] == "ok" else md)
    return out


def run_store_history(name, make, hist, violations, function, drive, reads):
    """Drive the served store A through `drive` and the twin B directly; compare reports, reads and the stores themselves."""
    from liquer.store import set_store
    A, B, tmp, roots = make()
    universe = STORE_KEYS + STORE_DIRS
    try:
        set_store(A)
        for i, op in enumerate(hist):
            got = drive(A, op)
            exp = twin_store_op(B, op) if drive is not remote_drive else twin_remote_op(B, op)
            if got[0] != exp[0] or (drive is remote_drive and got[0] == "ok" and op[0] in ("removedir", "remove", "makedir", "store", "store_metadata") and (got[1] is None) != (exp[1] is None)):
                return add_violation(violations, dict(contract="operation through the service reports what the library operation reports",
                                                      function="%s %s" % (function, op[0]), store=name,
                                                      history=[repr(o)[:70] for o in hist[:i + 1]], service=repr(got)[:160], library=repr(exp)[:160]))
        diffs = reads(A, B, roots, universe)
        if all("known" in d for d in diffs):
            sa, sb = direct_snapshot(A, universe, roots), direct_snapshot(B, universe, roots)
            for k in sa:
                if sa[k] != sb[k]:
                    parts = [(x, y) for x, y in zip(sa[k], sb[k]) if x != y] if k != "keys" else [(sa[k], sb[k])]
                    x, y = parts[0]
                    if isinstance(x, tuple) and isinstance(y, tuple) and x[0] == y[0] == "ok" and isinstance(x[1], str) and x[1].startswith("{"):
                        x, y = "differing fields (served, library): " + delta(x[1], y[1]), "see served"
                    diffs.append(dict(endpoint="(served store read directly)", key=k, served=repr(x)[:400], library=repr(y)[:300]))
                    break
        for d in diffs:
            fn = "%s %s" % (function, d["endpoint"])
            add_violation(violations, dict(contract="after the same history the served store and the library twin are indistinguishable by any read", function=fn,
                                           store=name, history=[repr(o)[:70] for o in hist], **d), per_function=1)
    finally:
        set_store(None)
        for t in tmp:
            shutil.rmtree(t, ignore_errors=True)


def store_standin(tier, rnd, violations):
    c = client()
    n = 0
    distinct = set()
    standins = []
    for name, make in store_factories(tier):
        ops = store_ops(STORE_KEYS if (name == "MemoryStore" or tier != "quick") else STORE_KEYS[:2])
        depth = 2 if tier == "quick" else 3
        if name == "FileStore" and tier != "quick":
            depth = 2
        hists = [list(h) for d in range(0, min(depth, 2) + 1) for h in itertools.product(ops, repeat=d)]
        if depth == 3:      # thorough tier: length 3 exhaustively over the calls on two keys and the directories
            hists += [list(h) for h in itertools.product(store_ops(STORE_KEYS[:2]), repeat=3)]
        if tier == "quick" and name == "MemoryStore":
            hists = [h for i, h in enumerate(hists) if len(h) < 2 or i % 2 == 0]
        nrand = (40 if name == "MemoryStore" else 15) if tier == "quick" else (800 if name == "MemoryStore" else 300)
        for _ in range(nrand):
            hists.append([rnd.choice(ops) for _i in range(rnd.randint(depth + 1, 4 if tier == "quick" else 5))])
        for h in hists:
            n += 1
            distinct.add((name, repr(h)))
            run_store_history(name, make, h, violations, "store endpoint",
                              lambda A, op: http_store_op(c, op), lambda A, B, roots, uni: compare_store_reads(c, B, roots, uni))
        standins.append(dict(name="store endpoints over %s vs twin library store" % name, labelled="bounded",
                             bound="all histories of length <= %d over %d endpoint calls%s + %d seeded random longer ones; every read endpoint on %d keys after each history"
                                   % (min(depth, 2), len(ops), " (every second pair)" if tier == "quick" and name == "MemoryStore" else
                                      (" + all of length 3 over the 11 calls on two keys" if depth == 3 else ""), nrand,
                                      len(STORE_KEYS) + len(STORE_DIRS)), cases=len(hists), exhaustive=False))
    return n, len(distinct), standins


# ------------------------------------------------------------------------------------------ cache endpoints
CACHE_QUERIES = ["txt-abc/o.txt", "num-3", "dic-v/wrap/o.json", "raw-z/o.b", "txt-abc", "lst-q/o.pickle", "absent/q"]


def mkstate(q, value):
    from liquer.state import State
    from liquer.parser import parse
    s = State().with_data(value)
    s.query = q
    s.metadata["status"] = "ready"
    try:
        s.metadata["extension"] = parse(q).extension()
    except Exception:
        pass
    return s


def cache_standin(tier, rnd, violations):
    from liquer.cache import set_cache, MemoryCache
    from liquer.query import evaluate
    from liquer.state_types import encode_state_data
    from liquer.store import set_store, MemoryStore
    register_vocabulary()
    c = client()
    values = {"txt-abc/o.txt": "text é", "num-3": 7, "dic-v/wrap/o.json": {"k": [1, 2]}, "raw-z/o.b": b"\x00raw", "txt-abc": "plain", "lst-q/o.pickle": [1, "two"]}
    ops = []
    for q in CACHE_QUERIES[:6]:
        ops.append(("put", q))
        ops.append(("remove", q))
    for q in CACHE_QUERIES[:4]:
        ops.append(("eval", q))
    for q in ("txt-abc/o.txt", "num-3", "absent/q"):
        for status in ("ready", "evaluation"):
            ops.append(("post_meta", q, status))
    ops.append(("clean",))
    depth = 2
    hists = [list(h) for d in range(0, depth + 1) for h in itertools.product(ops, repeat=d)]
    for _ in range(60 if tier == "quick" else 1500):
        hists.append([rnd.choice(ops) for _i in range(rnd.randint(3, 4 if tier == "quick" else 6))])
    if tier == "quick":
        hists = [h for i, h in enumerate(hists) if len(h) != 2 or i % 3 == 0]
    n = 0
    function = "cache endpoints /api/cache/*"
    try:
        set_store(MemoryStore())
        for hist in hists:
            n += 1
            A, B = MemoryCache(), MemoryCache()
            set_cache(A)
            bad = None
            for i, op in enumerate(hist):
                kind = op[0]
                if kind == "put":
                    A.store(mkstate(op[1], values[op[1]]))
                    B.store(mkstate(op[1], values[op[1]]))
                    continue
                if kind == "eval":
                    with quiet():
                        c.get("/liquer/q/" + quote(op[1], safe="/"))
                        set_cache(B)
                        try:
                            evaluate(op[1])
                        finally:
                            set_cache(A)
                    continue
                with quiet():
                    if kind == "remove":
                        got = http_json(c.get("/liquer/api/cache/remove/" + quote(op[1], safe="/")))
                        exp = call(B.remove, op[1])
                        same = got[0] == exp[0] and (got[0] != "ok" or (got[1].get("removed") == exp[1] and got[1].get("query") == op[1]))
                    elif kind == "post_meta":
                        md0 = B.get_metadata(op[1])
                        md = dict(md0) if isinstance(md0, dict) else dict(query=op[1], attributes={}, type_identifier=None)
                        md["query"] = op[1]
                        md["status"] = op[2]
                        md = json.loads(json.dumps(md, default=str))
                        got = http_json(c.post("/liquer/api/cache/meta/" + quote(op[1], safe="/"), json=md))
                        exp = call(B.store_metadata, json.loads(json.dumps(md)))
                        same = got[0] == exp[0] and (got[0] != "ok" or got[1].get("result") == exp[1])
                    else:
                        got = http_json(c.get("/liquer/api/cache/clean"))
                        exp = call(B.clean)
                        same = got[0] == exp[0]
                if not same:
                    bad = dict(problem="the endpoint reports something else than the library call", history=[repr(o) for o in hist[:i + 1]], http=repr(got)[:160], library=repr(exp)[:160])
                    break
            if bad is None:
                with quiet():
                    got = http_json(c.get("/liquer/api/cache/keys.json"))
                exp = call(lambda: sorted(B.keys()))
                if got[0] != exp[0] or (got[0] == "ok" and sorted(got[1].get("keys", [])) != exp[1]):
                    bad = dict(problem="keys.json differs", http=repr(got)[:200], library=repr(exp)[:200])
                if bad is None and sorted(A.keys()) != sorted(B.keys()):
                    bad = dict(problem="served cache and twin hold different keys", served=sorted(A.keys()), library=sorted(B.keys()))
                for q in ([] if bad else sorted(set(CACHE_QUERIES) | set(B.keys()))):
                    qq = quote(q, safe="/")
                    with quiet():
                        r = c.get("/liquer/api/cache/contains/" + qq)
                    got, exp = http_json(r), call(B.contains, q)
                    if got[0] != exp[0] or (got[0] == "ok" and got[1].get("cached") != exp[1]):
                        bad = dict(problem="contains differs", query=q, http=repr(got)[:160], library=repr(exp))
                        break
                    with quiet():
                        r = c.get("/liquer/api/cache/meta/" + qq)
                    got, exp = http_json(r), call(B.get_metadata, q)
                    if exp[0] == "ok" and exp[1] is False:
                        exp = ("ok", dict(query=q, status="not available", cached=False))
                    if got[0] != exp[0] or (got[0] == "ok" and mask(got[1]) != mask(exp[1])):
                        bad = dict(problem="metadata differs", query=q, http=repr(got)[:300], library=repr(exp)[:300])
                        if got[0] == exp[0]:
                            bad = dict(problem="metadata differs", query=q, differing_fields_service_vs_library=delta(mask(got[1]), mask(exp[1])))
                        break
                    with quiet():
                        r = c.get("/liquer/api/cache/get/" + qq)
                        st = B.get(q)
                        if st is None:
                            exp = ("absent", None)
                        else:
                            exp = call(lambda: encode_state_data(st.get(), extension=st.extension)[:2])
                    if exp[0] == "ok":
                        same = r.status_code == 200 and r.data == exp[1][0] and r.headers.get("Content-Type") == exp[1][1]
                    else:
                        same = not (200 <= r.status_code < 300)
                    if not same:
                        bad = dict(problem="cached data differs", query=q, http=repr((r.status_code, r.data[:60], r.headers.get("Content-Type"))), library=repr(exp)[:160])
                        break
                if bad is not None:
                    bad.setdefault("history", [repr(o) for o in hist])
            if bad is not None:
                add_violation(violations, dict(contract="cache endpoint == the same call on the configured cache", function=function, **bad))
    finally:
        set_cache(None)
        set_store(None)
    return n, dict(name="cache endpoints over MemoryCache vs twin cache", labelled="bounded",
                   bound="histories of length <= 2 over %d calls (direct store / evaluation / metadata POST / remove / clean)%s + seeded random longer ones; "
                         "get, meta, contains for %d queries and keys.json after each" % (len(ops), " (every third pair)" if tier == "quick" else "", len(CACHE_QUERIES)),
                   cases=n, exhaustive=False)


# ------------------------------------------------------------------------------------------ registration gate
def gate_standin(violations):
    import liquer.commands as lc
    from liquer.commands import (reset_command_registry, command_registry, command_metadata_from_callable, enable_remote_registration,
                                 disable_remote_registration, is_remote_registration_enabled)
    from liquer.query import evaluate
    c = client()
    n = 0
    counter = [0]
    saved = lc._remote_registration

    def attempt(method):
        counter[0] += 1
        name = "remote_cmd_%d" % counter[0]

        def f(x: int = 1):
            return x * 102
        f.__name__ = name
        metadata = command_metadata_from_callable(f, has_state_argument=False, attributes={})
        with quiet():
            if method == "GET":
                data = command_registry().encode_registration_base64(f, metadata).decode("ascii")
                r = c.get("/liquer/api/register_command/" + data)
            else:
                r = c.post("/liquer/api/register_command/", data=command_registry().encode_registration(f, metadata))
            rep = http_json(r)
            registered = name in command_registry().executables.get("root", {})
            try:
                st = evaluate(name + "-3")
                works = (not st.is_error) and st.get() == 306
            except Exception:
                works = False
        return rep, registered, works

    try:
        for length in range(0, 5):
            for hist in itertools.product(("enable", "disable"), repeat=length):
                for initial in (False, True):
                    lc._remote_registration = initial
                    reset_command_registry()
                    expected = initial
                    steps = [None] + list(hist)
                    for i, op in enumerate(steps):
                        if op == "enable":
                            enable_remote_registration()
                            expected = True
                        elif op == "disable":
                            disable_remote_registration()
                            expected = False
                        if i < len(steps) - 1 and length > 2:
                            continue      # long histories: observe at the end only (every prefix is enumerated on its own)
                        n += 1
                        w = dict(function="remote registration gate", initially_enabled=initial, history=list(hist[:i]))
                        flag = is_remote_registration_enabled()
                        if bool(flag) != expected:
                            add_violation(violations, dict(contract="is_remote_registration_enabled() == (last switch was enable)", reported=repr(flag), expected=expected, **w))
                            break
                        stop = False
                        for method in ("GET", "POST"):
                            rep, registered, works = attempt(method)
                            if not expected and (rep[0] == "ok" or registered or works):
                                add_violation(violations, dict(contract="registration request is refused while registration is disabled", method=method,
                                                               response=repr(rep)[:160], command_registered=registered, command_runs=works, **w))
                                stop = True
                            if expected and not (rep[0] == "ok" and registered and works):
                                add_violation(violations, dict(contract="registration request == register_remote_serialized() while enabled", method=method,
                                                               response=repr(rep)[:200], command_registered=registered, command_runs=works, **w))
                                stop = True
                        if stop:
                            break
    finally:
        lc._remote_registration = saved
        reset_command_registry()
    return n


# ------------------------------------------------------------------------------------------ RemoteStore
class _Response:
    def __init__(self, r):
        self.status_code = r.status_code
        self.content = r.data
        self.ok = r.status_code < 400

    def raise_for_status(self):
        if self.status_code >= 400:
            import requests
            raise requests.HTTPError("%d" % self.status_code)

    def json(self):
        return json.loads(self.content)


class _Requests:
    """Stands for the `requests` module inside liquer.remote_store: same URL normalisation, routed into the Flask test client."""

    def __init__(self, c):
        self.c = c
        self.log = []

    def _path(self, url):
        from requests.utils import requote_uri
        return requote_uri(url)

    def get(self, url, **kw):
        self.log.append(("GET", url))
        return _Response(self.c.get(self._path(url)))

    def post(self, url, data=None, json=None, headers=None, **kw):
        self.log.append(("POST", url))
        if json is not None:
            return _Response(self.c.post(self._path(url), json=json))
        return _Response(self.c.post(self._path(url), data=data, headers=headers or {}))


_REMOTE = {}


def remote_drive(A, op):
    R = _REMOTE["store"]
    kind = op[0]
    if kind == "store":
        return call(R.store, op[1], op[2], json.loads(json.dumps(op[3])))
    if kind == "store_metadata":
        return call(R.store_metadata, op[1], json.loads(json.dumps(op[2])))
    if kind == "removedir":
        return call(R.removedir, op[1], recursive=op[2])
    return call(getattr(R, kind), op[1])


def twin_remote_op(B, op):
    kind = op[0]
    if kind == "store":
        return call(B.store, op[1], op[2], json.loads(json.dumps(op[3])))
    if kind == "store_metadata":
        return call(B.store_metadata, op[1], json.loads(json.dumps(op[2])))
    if kind == "removedir":
        return call(B.removedir, op[1], recursive=op[2])
    return call(getattr(B, kind), op[1])


def remote_reads(A, B, roots, universe):
    R = _REMOTE["store"]
    diffs = []
    got, exp = call(lambda: sorted(R.keys())), call(lambda: sorted(B.keys()))
    if got != exp:
        d = dict(endpoint="keys", remote=repr(got)[:200], library=repr(exp)[:200])
        if got[0] == "raises" and exp[0] == "ok" and not isinstance(B.keys(), (list, tuple)):
            d["known"] = KNOWN_KEYS
            diffs.append(d)
        else:
            return diffs + [d]
    for k in list(universe) + [""]:
        for meth in ("contains", "is_dir", "listdir", "get_bytes", "get_metadata", "openbin"):
            if k == "" and meth in ("get_bytes", "openbin"):
                continue
            if meth == "openbin":
                got, exp = call(lambda: R.openbin(k).read()), call(lambda: B.openbin(k).read())
            else:
                got, exp = call(getattr(R, meth), k), call(getattr(B, meth), k)
            if meth == "listdir":
                got = (got[0], None if got[1] is None else sorted(got[1])) if got[0] == "ok" else got
                exp = (exp[0], None if exp[1] is None else sorted(exp[1])) if exp[0] == "ok" else exp
            if meth == "get_metadata" and got[0] == exp[0] == "ok":
                same = mask(got[1], roots) == mask(exp[1], roots)
                got, exp = ("ok", "differing fields (remote, library): " + delta(mask(got[1], roots), mask(exp[1], roots))), ("ok", "see remote")
            elif got[0] == exp[0] == "raises":
                same = True      # both fail; a remote failure necessarily has another exception class
            else:
                same = got == exp
            if not same:
                d = dict(endpoint=meth, key=k, remote=repr(got)[:300], library=repr(exp)[:300])
                if k == "" and got[0] == "raises" and exp[0] == "ok":
                    d["known"] = KNOWN_ROOT
                    if not any(x.get("known") == KNOWN_ROOT for x in diffs):
                        diffs.append(d)
                    continue
                return diffs + [d]
    return diffs


def remote_standin(tier, rnd, violations):
    import liquer.remote_store as rs
    c = client()
    shim = _Requests(c)
    saved = rs.requests
    n = 0
    standins = []
    try:
        rs.requests = shim
        _REMOTE["store"] = rs.RemoteStore("/liquer/api/")
        for name, make in store_factories(tier):
            ops = []
            for k in STORE_KEYS:
                ops.append(("store", k, PAYLOAD[k], {"title": "T-" + k}))
                ops.append(("store_metadata", k, {"title": "M-" + k, "custom": [1]}))
                ops.append(("remove", k))
            ops += [("removedir", "d", False), ("removedir", "d", True), ("removedir", "d/e", False), ("makedir", "d"), ("makedir", "n/m")]
            depth = 2 if (tier != "quick" or name == "MemoryStore") else 1
            hists = [list(h) for d in range(0, depth + 1) for h in itertools.product(ops, repeat=d)]
            if tier == "quick" and depth == 2:
                hists = [h for i, h in enumerate(hists) if len(h) < 2 or i % 2 == 0]
            nrand = (30 if name == "MemoryStore" else 20) if tier == "quick" else 300
            for _ in range(nrand):
                hists.append([rnd.choice(ops) for _i in range(rnd.randint(depth + 1, 4 if tier == "quick" else 5))])
            for h in hists:
                n += 1
                run_store_history(name, make, h, violations, "RemoteStore", remote_drive, remote_reads)
            standins.append(dict(name="RemoteStore -> blueprint -> %s vs twin library store" % name, labelled="bounded",
                                 bound="histories of length <= %d over %d RemoteStore calls%s + %d seeded random longer ones; every read method on %d keys and the root"
                                       % (depth, len(ops), " (every second pair)" if tier == "quick" and depth == 2 else "", nrand, len(STORE_KEYS) + len(STORE_DIRS)),
                                 cases=len(hists), exhaustive=False))
    finally:
        rs.requests = saved
        _REMOTE.clear()
    return n, standins


# ------------------------------------------------------------------------------------------ entry points
def bounded(tier, seed):
    rnd = random.Random(seed)
    violations = []
    v_serve, v_store, v_cache, v_gate, v_remote = [], [], [], [], []
    n_serve, distinct_q, nq, n_link = serve_standin(tier, rnd, v_serve)
    n_store, distinct_h, store_standins = store_standin(tier, rnd, v_store)
    n_cache, cache_standin_rec = cache_standin(tier, rnd, v_cache)
    n_gate = gate_standin(v_gate)
    n_remote, remote_standins = remote_standin(tier, rnd, v_remote)
    for part in (v_gate, v_remote, v_serve, v_store, v_cache):
        for v in part:
            if len(violations) < MAXV:
                violations.append(v)
    standins = [dict(name="GET /liquer/q/<query> vs evaluate()+encode_state_data()", labelled="bounded",
                     bound="%d generated queries (11 heads x 11 transform chains x 11 extensions%s, 24 argument texts through encode_token, seeded random chains) "
                           "x 3 cache configurations; %d of them additionally with the query text used verbatim as URL path"
                           % (nq, ", every eighth" if tier == "quick" else "", n_link), cases=n_serve, exhaustive=False)]
    standins += store_standins
    standins.append(cache_standin_rec)
    standins.append(dict(name="remote registration gate", labelled="bounded", bound="all enable/disable histories of length <= 4 from both initial states, GET and POST registration",
                         cases=n_gate, exhaustive=True))
    standins += remote_standins
    return dict(evaluations=n_serve + n_store + n_cache + n_gate + n_remote, distinct_nontrivial=distinct_q + distinct_h,
                rule="(a) generated queries over a registered vocabulary (text/int/dict/bytes/list results, failing and unknown commands, resource queries) requested through the "
                     "Flask test client and compared byte-for-byte and by Content-Type with the in-process evaluation serialised by the query's extension (failing => non-2xx); "
                     "(b) store and cache endpoints vs the same call on a twin library object after identical histories (time stamps and temp roots masked); "
                     "(c) is_remote_registration_enabled and GET/POST registration after every enable/disable history; "
                     "(d) RemoteStore with its `requests` routed into the test client vs a twin of the served store",
                standins=standins, violations=violations)


def replay(doc):
    ob = doc.get("obligation", "")
    inp = doc.get("inputs") or {}
    if "remote_registration" in ob or "register_remote" in ob:
        v = []
        gate_standin(v)
        return dict(confirmed=bool(v), witnesses=v[:2])
    if "RemoteStore" in ob or "remote_store" in ob:
        v = []
        remote_standin("quick", random.Random(0), v)
        v = [x for x in v if "known" not in x or "root key" not in x["known"]] or v
        meth = ob.split("#")[0].split(".")[-1]
        hit = [x for x in v if meth in json.dumps(x)]
        return dict(confirmed=bool(hit or v), witnesses=(hit or v)[:2], inputs=inp)
    if "blueprint" in ob or "serve" in ob:
        q = inp.get("query")
        if isinstance(q, str):
            from liquer.cache import set_cache, NoCache
            register_vocabulary()
            set_cache(NoCache())
            try:
                v = []
                exp = inprocess(q)
                with quiet():
                    r = client().get("/liquer/q/" + quote(q, safe="/"))
                compare_serve(v, "serve", q, "no cache", exp, r)
                return dict(confirmed=bool(v), witnesses=v, inputs=dict(query=q))
            finally:
                set_cache(None)
    return dict(confirmed=False, note="no replay scenario for this obligation; see the bounded stand-in witnesses")
