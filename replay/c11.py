"""C11: labelled *bounded* stand-in - every registered state type, every extension accepted in both directions:
decode(encode(v)) == v with the same type, the recorded type identifier selects a decoder accepting the bytes,
and copy_state_data(v) is an equal value sharing no mutable structure (the copy is mutated in depth, the original compared
with a snapshot).  Values are drawn from the classes the property's quantifier names, per format."""
import datetime
import decimal
import fractions
import math
import pickle
import random
import warnings

from liquer.state_types import (state_types_registry, encode_state_data, decode_state_data, copy_state_data, type_identifier_of)

warnings.simplefilter("ignore")

try:
    import pandas as pd
    import numpy as np
    import liquer.ext.lq_pandas  # noqa: F401  (registers the data-frame type, as the tests do)
    HAVE_PANDAS = True
except Exception:       # pragma: no cover - third-party library missing
    pd = None
    HAVE_PANDAS = False
try:
    import pyarrow  # noqa: F401
    HAVE_ARROW = True
except Exception:       # pragma: no cover
    HAVE_ARROW = False
try:
    import polars as pl
    import liquer.ext.lq_polars  # noqa: F401
    HAVE_POLARS = True
except Exception:       # pragma: no cover
    pl = None
    HAVE_POLARS = False
try:
    import liquer.ext.dataframe_batches  # noqa: F401
    from liquer.ext.dataframe_batches import StoredDataframeIterator
    from liquer.store import MemoryStore
    HAVE_BATCHES = True
except Exception:       # pragma: no cover
    StoredDataframeIterator = None
    HAVE_BATCHES = False


# ------------------------------------------------------------------------------------------------ known genuine defects
KNOWN_DJSON_KEY = ("DictStateType.as_bytes(d, 'djson') writes the key unescaped between quotes: a key containing a quote, a backslash or a "
                   "control character (e.g. {'q\"x': 1}, {'a\\\\b': 1}, {'n\\nl': 1}) yields bytes that from_bytes('djson') rejects or decodes "
                   "to a different key")
KNOWN_DJSON_NESTED = ("DictStateType djson: a member that is itself a dict is embedded in its default JSON format, so its non-JSON members are "
                      "lost or changed (e.g. {'m': {'t': (1, 2)}} decodes to {'m': {'t': [1, 2]}}, {'m': {1: 'x'}} to {'m': {'1': 'x'}})")
KNOWN_ITER_COPY = ("StoredDataframeIterator.copy() (used by StoredDataframeIteratorStateType.copy) passes self.item_keys on uncopied: "
                   "copy.item_keys.append(k) also changes the original")
KNOWN_POLARS_COPY = ("PolarsDataframeStateType.copy goes through pandas (pl.from_pandas(df.to_pandas().copy())): an Int64 column with a null "
                     "comes back as Float64 and a Date column as Datetime[ms], so the copy is not an equal value")


# ------------------------------------------------------------------------------------------------------- helper classes
class Point:
    """A picklable user object with value equality and nested mutable structure."""

    def __init__(self, x, items):
        self.x = x
        self.items = items

    def __eq__(self, other):
        return type(other) is Point and self.x == other.x and deep_same(self.items, other.items)

    def __hash__(self):
        return hash(self.x)

    def __repr__(self):
        return "Point(%r, %r)" % (self.x, self.items)


def is_df(x):
    return HAVE_PANDAS and isinstance(x, pd.DataFrame)


def is_pl(x):
    return HAVE_POLARS and isinstance(x, pl.DataFrame)


def is_iter(x):
    return HAVE_BATCHES and isinstance(x, StoredDataframeIterator)


def deep_same(a, b):
    """Equal and of the same type, recursively (so that 1 / 1.0 / True and list / tuple are told apart)."""
    if type(a) is not type(b):
        return False
    try:
        if is_df(a):
            return (a.shape == b.shape and list(a.dtypes) == list(b.dtypes) and a.columns.equals(b.columns) and a.index.equals(b.index)
                    and a.columns.dtype == b.columns.dtype and bool(a.equals(b)))
        if is_pl(a):
            return a.schema == b.schema and bool(a.equals(b))
        if is_iter(a):
            return a.to_dict(with_batch_number=True) == b.to_dict(with_batch_number=True)
        if isinstance(a, float):
            return a == b or (math.isnan(a) and math.isnan(b))
        if isinstance(a, (list, tuple)):
            return len(a) == len(b) and all(deep_same(x, y) for x, y in zip(a, b))
        if isinstance(a, dict):
            if list(a.keys()) != list(b.keys()) and set(a.keys()) != set(b.keys()):
                return False
            return len(a) == len(b) and all(k in b and deep_same(a[k], b[k]) for k in a)
        if isinstance(a, (set, frozenset)):
            return a == b and sorted(map(repr, a)) == sorted(map(repr, b))
        return bool(a == b)
    except Exception:
        return False


def show(v, n=160):
    try:
        if is_df(v):
            r = "DataFrame(%s; dtypes=%s; index=%r)" % (v.to_dict(orient="list"), [str(x) for x in v.dtypes], list(v.index)[:4])
        elif is_pl(v):
            r = "polars.DataFrame(%s; schema=%s)" % (v.to_dict(as_series=False), dict(v.schema))
        elif is_iter(v):
            r = "StoredDataframeIterator(%r)" % (v.to_dict(with_batch_number=True),)
        else:
            r = repr(v)
    except Exception as e:     # pragma: no cover
        r = "<unprintable %s: %s>" % (type(v).__name__, e)
    return r if len(r) <= n else r[:n] + "..."


def snapshot(v):
    if is_iter(v):
        return StoredDataframeIterator.from_dict(v.to_dict(with_batch_number=True))
    if is_pl(v):
        return v.clone()
    return pickle.loads(pickle.dumps(v))


SENTINEL = "__MUTATED__"


def mutate_deep(x, seen=None):
    """Mutate every reachable mutable container of x in place (children first)."""
    seen = set() if seen is None else seen
    if id(x) in seen:
        return
    seen.add(id(x))
    if is_df(x):
        nrow, ncol = x.shape
        for j in range(ncol):
            if nrow >= 2:
                try:
                    x.iloc[0, j] = x.iloc[nrow - 1, j]
                except Exception:
                    pass
        try:
            x[SENTINEL] = 1
        except Exception:
            pass
        try:
            x.columns = ["c%d" % i for i in range(len(x.columns))]
        except Exception:
            pass
        return
    if is_pl(x):
        return
    if is_iter(x):
        x.item_keys.append(SENTINEL)
        x.batch_number += 1
        x.key = str(x.key) + SENTINEL
        return
    if isinstance(x, list):
        for e in list(x):
            mutate_deep(e, seen)
        x.append(SENTINEL)
        if len(x) > 1:
            x[0] = SENTINEL
    elif isinstance(x, dict):
        for e in list(x.values()):
            mutate_deep(e, seen)
        x[SENTINEL] = SENTINEL
    elif isinstance(x, set):
        for e in list(x):
            mutate_deep(e, seen)
        x.add(SENTINEL)
    elif isinstance(x, bytearray):
        x.extend(b"!")
    elif isinstance(x, (tuple, frozenset)):
        for e in x:
            mutate_deep(e, seen)
    elif isinstance(x, Point):
        mutate_deep(x.items, seen)
        x.x = SENTINEL


def has_mutable(x):
    if is_df(x) or is_iter(x):
        return True
    if isinstance(x, (list, dict, set, bytearray, Point)):
        return True
    if isinstance(x, (tuple, frozenset)):
        return any(has_mutable(e) for e in x)
    return False


# ----------------------------------------------------------------------------------------------------------- generators
BYTES = [b"", b"\x00", b"abc", b"\xff\xfe\x00\x01", bytes(range(256)), b"\xef\xbb\xbfbom", b"line\r\nline\n", b'{"json": 1}', b"\x80\x04N."]
TEXTS = ["", "a", "é", "\ufeff", "\ufeffid,name\n", "\ufeff\ufeffx", "x\ufeff", "line\r\nx\n", "\r", 'quote"back\\slash', "\x00nul",
         "日本語 \U0001F600", " ", '{"a": 1}', "<pre>1</pre>", "  ", "tab\tend "]
GENERIC = [None, 0, 1, -1, 7, 2 ** 70, -2 ** 63, 10 ** 30, 0.0, -0.0, 1.5, -2.25, 1e308, 5e-324, 0.1 + 0.2, 1e22, 123456789.123456789,
           float("inf"), float("-inf")]
KEYS = ["", "a", "a b", 'q"uote', '"', "back\\slash", "\\", "\\n", "\\u0041", "new\nline", "tab\t", "\r", "\x00", "\x1f", "é",
        "日本", "\ufeff", "k:", "a,b", "{", "}", "[", "'", " ", "x" * 30, " ", "%s", "%(a)s", "key/with/slash", '":1,"z']
SAFE_KEYS = ["a", "k2", "é", "a b", "x" * 25, ""]
JSON_MEMBERS = [None, True, False, 0, -3, 2 ** 65, 1.5, -0.0, "s", "", 'é"\\\n', [], {}, [1, [2, {"a": None}]], {"n": {"m": [1.5, "x", False]}},
                [[], [[]], {}], {"": ""}, {'q"': ['"']}, [None, True, 1, 1.0, "1"], float("inf")]
JSON_SHAPED_NONDICT = [True, False, [], [1, 2], [1, [2.5, {"a": None, "b": [True]}], "x"], [{}], ["é\"\\"], [[[]]]]


def pickle_values():
    return [True, False, (), (1, 2), [1, (2, 3)], [], {1, 2}, set(), frozenset({"a"}), 3 + 4j, Point(1, [2, {"k": [3]}]), [Point(0, []), Point(0, [])],
            decimal.Decimal("1.10"), fractions.Fraction(1, 3), datetime.date(2020, 2, 29), datetime.datetime(2021, 1, 2, 3, 4, 5, 6),
            datetime.timedelta(seconds=1.5), range(3), bytearray(b"ab"), [b"x", "y", None, 1.5], ({"a": (1,)}, [{2: {3}}]), [[1, 2], [1, 2]],
            Ellipsis, slice(1, 2), [float("inf"), -0.0], ("\ufeff", "\ud800")]


def djson_members():
    out = list(JSON_MEMBERS[:13])
    out += [b"", b"\x00\xff", (1, 2), (), [1, (2, 3)], [], [1, 2], {1, 2}, frozenset({1}), 3 + 4j, Point(1, [2]), decimal.Decimal("2.5"),
            datetime.date(2020, 1, 1), bytearray(b"q"), {"a": 1}, {}, {"n": {"m": [1.5, None]}}, "multi\nline", "\ufeff", 2 ** 80, 1e-7,
            float("inf")]
    if HAVE_PANDAS:
        out.append(pd.DataFrame({"i": [1, 2], "s": ["a", "b"]}))
    return out


def djson_nested_nonjson_members():
    """Members that are dictionaries with non-JSON members: still 'arbitrary picklable objects'."""
    return [{"t": (1, 2)}, {1: "x"}, {"n": {"t": (1,)}}, {"b": True, 2: None}]


def frames(rnd=None, count=0):
    """Data frames with mixed column types; second component: the formats in which every column type is representable."""
    if not HAVE_PANDAS:
        return []
    lossless = ["pickle", "pkl"] + (["parquet", "feather"] if HAVE_ARROW else [])
    out = []

    def add(df, fmts=lossless):
        out.append((df, list(fmts)))
    add(pd.DataFrame({"i": [1, 2, 3], "f": [1.5, float("nan"), -0.0], "s": ["a", "é", ""], "b": [True, False, True],
                      "d": pd.to_datetime(["2020-01-01", "2021-05-06", "2000-02-29"]), "c": pd.Categorical(["x", "y", "x"])}))
    add(pd.DataFrame())
    add(pd.DataFrame({"a": pd.Series([], dtype="int64"), "s": pd.Series([], dtype="str")}))
    add(pd.DataFrame({"I": pd.array([1, None, 3], dtype="Int64"), "B": pd.array([True, None, False], dtype="boolean"),
                      "S": pd.array(["a", None, "c"], dtype="string")}))
    add(pd.DataFrame({"t": pd.to_timedelta(["1 days", "2 hours", None]),
                      "z": pd.to_datetime(["2020-01-01", "2021-05-06", "2000-02-29"]).tz_localize("Europe/Prague")}))
    add(pd.DataFrame({"u8": np.array([1, 2], dtype="uint8"), "f32": np.array([1.5, 2.5], dtype="float32"), "i16": np.array([1, -2], dtype="int16")}))
    add(pd.DataFrame({'q"uote': [1], "new\nline": [2.0], "é": ["x"], "": [True]}))
    add(pd.DataFrame({"a": [1, 2]}, index=["r1", "r2"]))
    add(pd.DataFrame({"x": [2 ** 62, -2 ** 63], "y": [float("inf"), 5e-324], "s": ["\ufeff", 'q"\\\n']}))
    # object columns are representable in pickle only (parquet / feather have no 'Python object' column type)
    add(pd.DataFrame({"o": pd.Series(["a", None, 3, 2.5], dtype=object), "i": [1, 2, 3, 4]}), ["pickle", "pkl"])
    if rnd is not None:
        makers = [
            lambda n: ("i", [rnd.randint(-10 ** 6, 10 ** 6) for _ in range(n)]),
            lambda n: ("f", [rnd.choice([rnd.uniform(-1e3, 1e3), float("nan"), 0.0]) for _ in range(n)]),
            lambda n: ("s", [rnd.choice(TEXTS[:12]) for _ in range(n)]),
            lambda n: ("b", [rnd.random() < 0.5 for _ in range(n)]),
            lambda n: ("d", pd.to_datetime([datetime.datetime(2000 + rnd.randint(0, 30), rnd.randint(1, 12), rnd.randint(1, 28)) for _ in range(n)])),
            lambda n: ("c", pd.Categorical([rnd.choice("xyz") for _ in range(n)])),
            lambda n: ("I", pd.array([rnd.choice([None, rnd.randint(0, 9)]) for _ in range(n)], dtype="Int64")),
        ]
        for _ in range(count):
            n = rnd.randint(0, 4)
            cols = {}
            for mk in rnd.sample(makers, rnd.randint(1, len(makers))):
                name, col = mk(n)
                cols[name + rnd.choice(["", "_1", " x"])] = col
            add(pd.DataFrame(cols))
    return out


def format_represents(df, ext):
    """'Values representable in the format at hand': the format library itself (pandas/pyarrow with default options) must be able to
    hold the frame without loss (e.g. pyarrow reads a 0-row categorical column back as object).  The state type is then required to be
    as lossless as the format is."""
    import io
    try:
        if ext == "parquet":
            buf = io.BytesIO()
            df.to_parquet(buf)
            back = pd.read_parquet(io.BytesIO(buf.getvalue()))
        elif ext == "feather":
            buf = io.BytesIO()
            df.to_feather(buf)
            back = pd.read_feather(io.BytesIO(buf.getvalue()))
        else:
            back = pickle.loads(pickle.dumps(df))
    except Exception:
        return True       # the encoder of the state type is expected to refuse it as well (counted as refused)
    return deep_same(back, df)


def polars_frames():
    if not HAVE_POLARS:
        return []
    return [pl.DataFrame({"i": [1, 2, 3], "f": [1.5, 2.5, -0.0], "s": ["a", "é", ""], "b": [True, False, True]}),
            pl.DataFrame({"i": [1, None, 3], "s": ["a", None, "c"]}),
            pl.DataFrame({"d": [datetime.date(2020, 1, 1)], "t": [datetime.datetime(2020, 1, 1, 2, 3, 4)]}),
            pl.DataFrame()]


def iterators():
    if not HAVE_BATCHES:
        return []
    st = MemoryStore()
    return [StoredDataframeIterator("k", store=st), StoredDataframeIterator("dir/k", item_keys=["dir/k/0001.parquet", "dir/k/0002.parquet"], store=st),
            StoredDataframeIterator("k", item_keys=["k/1.csv"], extension="csv", number_format="%d", store=st)]


def rand_json(rnd, depth=3):
    c = rnd.random()
    if depth <= 0 or c < 0.45:
        return rnd.choice([None, True, False, rnd.randint(-10 ** 12, 10 ** 12), rnd.uniform(-1e6, 1e6), rnd.choice(TEXTS), rnd.choice(KEYS)])
    if c < 0.72:
        return [rand_json(rnd, depth - 1) for _ in range(rnd.randint(0, 3))]
    return {rand_key(rnd): rand_json(rnd, depth - 1) for _ in range(rnd.randint(0, 3))}


ALPHABET = ['a', 'B', '0', ' ', '"', "\\", "\n", "\t", "\r", "'", ":", ",", "{", "}", "é", "日", "\ufeff", "\x00", "/", "%", "\U0001F600"]


def rand_key(rnd):
    if rnd.random() < 0.3:
        return rnd.choice(KEYS)
    return "".join(rnd.choice(ALPHABET) for _ in range(rnd.randint(0, 6)))


def rand_safe_key(rnd):
    return "".join(rnd.choice(["a", "b", "Z", "1", " ", "é", "日", "_", "-"]) for _ in range(rnd.randint(0, 6)))


def rand_pickle(rnd, depth=3):
    c = rnd.random()
    if depth <= 0 or c < 0.4:
        return rnd.choice([None, True, 1, 2.5, "s", b"b", 3j, decimal.Decimal("0.1"), datetime.date(2001, 2, 3), rnd.choice(TEXTS), rnd.choice(BYTES)])
    if c < 0.55:
        return [rand_pickle(rnd, depth - 1) for _ in range(rnd.randint(0, 3))]
    if c < 0.7:
        return tuple(rand_pickle(rnd, depth - 1) for _ in range(rnd.randint(0, 3)))
    if c < 0.8:
        return {rnd.choice([1, "k", (1, 2), None, 2.5]): rand_pickle(rnd, depth - 1) for _ in range(rnd.randint(0, 3))}
    if c < 0.9:
        return set(rnd.sample([1, "a", (1,), None, 2.5, b"x"], rnd.randint(0, 4)))
    return Point(rnd.randint(0, 9), rand_pickle(rnd, depth - 1))


# --------------------------------------------------------------------------------------------------------------- checks
class Run:
    def __init__(self):
        self.violations = []
        self.evaluations = 0
        self.refused = 0
        self.distinct = set()
        self.cases = {}

    def violate(self, function, contract, **w):
        per = sum(1 for v in self.violations if v["function"] == function and v.get("known") == w.get("known"))
        unknown = "known" not in w
        if per >= 2 or (len([v for v in self.violations if ("known" in v) == (not unknown)]) >= (10 if unknown else 8)):
            return
        d = dict(contract=contract, function=function)
        d.update(w)
        self.violations.append(d)

    def count(self, standin, v, ext):
        self.cases[standin] = self.cases.get(standin, 0) + 1
        self.distinct.add((standin, ext, show(v, 400)))


def type_name(t):
    return type(t).__name__


def roundtrip(run, standin, v, ext, known_for=None):
    """One (value, extension) instance of the round-trip clause.  known_for(problem) -> known text or None."""
    reg = state_types_registry()
    run.count(standin, v, ext)
    run.evaluations += 1
    try:
        b, mime, tid = encode_state_data(v, ext)
    except Exception:
        run.refused += 1          # the value is not representable in this format: nothing was encoded, nothing to decode
        return
    t_enc = reg.get(type(v))
    fn = "%s(%s)" % (type_name(t_enc), ext if ext is not None else "default")
    w = dict(value=show(v), extension=ext, type_identifier=tid, encoded=show(b, 120))
    if not isinstance(b, bytes):
        return run.violate(fn, "as_bytes yields bytes", problem="encoded form is %s" % type(b).__name__, **w)
    t_dec = reg.get(tid)
    if t_dec is not t_enc and type(t_dec) is not type(t_enc):
        return run.violate(fn, "recorded type identifier selects the decoder of the encoding type",
                           problem="identifier %r selects %s, encoded by %s" % (tid, type_name(t_dec), type_name(t_enc)), **w)
    problem = None
    try:
        r = t_dec.from_bytes(b, extension=ext)
        r2 = decode_state_data(b, tid, ext)
    except Exception as e:
        problem = "the decoder selected by the recorded identifier rejects the encoded bytes: %s: %s" % (type(e).__name__, str(e)[:100])
    else:
        if not deep_same(r, v):
            problem = "decoded value %s (%s) differs from the original (%s)" % (show(r), type(r).__name__, type(v).__name__)
        elif not deep_same(r2, v):
            problem = "decode_state_data gives %s" % show(r2)
    if problem:
        k = known_for(v, problem) if known_for else None
        if k:
            w["known"] = k
        run.violate(fn, "decode(encode(v)) == v, same type, decoder selected by the recorded identifier accepts the bytes", problem=problem, **w)


def copycheck(run, standin, v, known=None):
    reg = state_types_registry()
    t = reg.get(type(v))
    fn = "%s.copy" % type_name(t)
    run.count(standin, v, "copy")
    run.evaluations += 1
    try:
        snap = snapshot(v)
    except Exception:
        run.refused += 1
        return
    w = dict(value=show(v))
    if known:
        w["known"] = known
    problem = None
    for how, f in (("copy_state_data", copy_state_data), ("state type copy", t.copy)):
        try:
            c = f(v)
        except Exception as e:
            problem = "%s raised %s: %s" % (how, type(e).__name__, str(e)[:100])
            break
        if not deep_same(c, v):
            problem = "%s gives %s (%s), not equal to the original" % (how, show(c), type(c).__name__)
            break
        if c is v and has_mutable(v):
            problem = "%s returns the very same mutable object" % how
            break
        mutate_deep(c)
        if not deep_same(v, snap):
            problem = "after mutating the %s result in depth the original reads %s" % (how, show(v))
            break
    if problem:
        run.violate(fn, "copy is equal and shares no mutable structure with the original", problem=problem, **w)


def djson_known(v, problem):
    bad_key = any(('"' in k or "\\" in k or any(ord(ch) < 0x20 for ch in k)) for k in v.keys())
    if bad_key:
        return KNOWN_DJSON_KEY

    def nonjson(x):
        if isinstance(x, dict):
            return any(not isinstance(k, str) or nonjson(e) for k, e in x.items())
        if isinstance(x, list):
            return any(nonjson(e) for e in x)
        return not (x is None or isinstance(x, (bool, int, float, str)))
    if any(isinstance(m, dict) and nonjson(m) for m in v.values()):
        return KNOWN_DJSON_NESTED
    return None


def supported_both_ways(t, probe, ext):
    try:
        b, _ = t.as_bytes(probe, extension=ext)
        t.from_bytes(b, extension=ext)
        return True
    except Exception:
        return False


CANDIDATE_EXTENSIONS = [None, "json", "djson", "pickle", "pkl", "txt", "b", "bin", "html", "htm", "csv", "tsv", "parquet", "feather", "xlsx",
                        "msgpack", "idf", "ndjson", "md", "png", "yaml"]


def bounded(tier, seed):
    rnd = random.Random(seed)
    thorough = tier != "quick"
    run = Run()
    reg = state_types_registry()
    n_rand = 150 if not thorough else 3000
    pairs = {}

    def exts_for(t, probe, restrict=None):
        out = []
        for e in CANDIDATE_EXTENSIONS + [t.default_extension()]:
            if e in out or (restrict is not None and e is not None and e not in restrict):
                continue
            if supported_both_ways(t, probe, e):
                out.append(e)
        pairs[type_name(t)] = out
        return out

    # ---- bytes
    t = reg.get(bytes)
    s = "bytes: every extension accepted both ways"
    rb = [bytes(rnd.randrange(256) for _ in range(rnd.randint(0, 40))) for _ in range(n_rand // 3)]
    for e in exts_for(t, b"probe"):
        for v in BYTES + rb:
            roundtrip(run, s, v, e)
    for v in BYTES + rb[:20]:
        copycheck(run, "bytes copy", v)
    # ---- text
    t = reg.get(str)
    s = "text: every extension accepted both ways"
    rt = ["".join(rnd.choice(ALPHABET) for _ in range(rnd.randint(0, 12))) for _ in range(n_rand // 3)]
    rt += ["\ufeff" + x for x in rt[:10]]
    for e in exts_for(t, "probe"):
        for v in TEXTS + rt:
            roundtrip(run, s, v, e)
    for v in TEXTS + rt[:20]:
        copycheck(run, "text copy", v)
    # ---- None / int / float
    t = reg.get(int)
    s = "None/int/float: json"
    rg = [rnd.choice([rnd.randint(-10 ** 20, 10 ** 20), rnd.uniform(-1e9, 1e9), rnd.random() * 10 ** rnd.randint(-300, 300)]) for _ in range(n_rand // 2)]
    for e in exts_for(t, 1):
        for v in GENERIC + rg:
            roundtrip(run, s, v, e)
    for v in GENERIC:
        copycheck(run, "None/int/float copy", v)
    # ---- dictionaries, JSON format
    t = reg.get(dict)
    dict_exts = exts_for(t, {"a": 1})
    s = "dictionary json: arbitrary string keys x JSON-shaped members"
    dj = [{}] + [{k: m} for k in KEYS for m in (JSON_MEMBERS if thorough else JSON_MEMBERS[::4])] + [{k: 1 for k in KEYS}]
    dj += [{"a": m} for m in JSON_MEMBERS] + [{"a": 1, "b": [1, {"c": [2, 3]}], "d": {"e": {"f": []}}}]
    dj += [{rand_key(rnd): rand_json(rnd) for _ in range(rnd.randint(0, 4))} for _ in range(n_rand)]
    for e in [x for x in dict_exts if x in (None, "json")]:
        for v in dj:
            roundtrip(run, s, v, e)
    for v in [{"a": [1]}, {"a": {"b": 1}}, {"a": [1, [2, {"b": [3]}]], "c": {"d": {"e": [4]}}}] + dj[:5] + dj[-60:]:
        copycheck(run, "dictionary copy", v)
    # ---- dictionaries, line-oriented format
    if "djson" in dict_exts:
        s = "dictionary djson: arbitrary string keys x arbitrary picklable members"
        members = djson_members()
        dd = [{}] + [{k: 1} for k in KEYS] + [{k: (1, "x")} for k in KEYS[::3]] + [{"m": m} for m in members]
        dd += [{"a": 1, "b": (2, [3]), "c": b"\x00", "d": None, "e": {"f": [1.5]}}] + [{"m": m} for m in djson_nested_nonjson_members()]
        dd += [{rand_safe_key(rnd): rnd.choice([rand_pickle(rnd, 2), rand_json(rnd, 0), rnd.choice(members)]) for _ in range(rnd.randint(0, 4))}
               for _ in range(n_rand)]
        dd += [{rand_key(rnd): rand_json(rnd, 0)} for _ in range(n_rand // 3)]
        for v in dd:
            roundtrip(run, s, v, "djson", known_for=djson_known)
        for v in dd[-40:]:
            copycheck(run, "dictionary copy", v)
    # ---- pickle (default type of everything unregistered)
    t = reg.get(tuple)
    s = "pickle: arbitrary picklable objects"
    pv = pickle_values() + [rand_pickle(rnd) for _ in range(n_rand)]
    pv = [x for x in pv if not isinstance(x, (dict, str, bytes, int, float, type(None))) or isinstance(x, bool)]
    pick_exts = exts_for(t, [1, 2])
    for e in [x for x in pick_exts if x in (None, "pickle", "pkl")]:
        for v in pv:
            roundtrip(run, s, v, e)
    for v in pv:
        copycheck(run, "pickle copy", v)
    if "json" in pick_exts:
        s = "pickle type, json extension: JSON-shaped lists / booleans"
        for v in JSON_SHAPED_NONDICT + [[rand_json(rnd, 2) for _ in range(rnd.randint(0, 3))] for _ in range(n_rand // 3)]:
            roundtrip(run, s, v, "json")
    # ---- data frames in their lossless formats
    if HAVE_PANDAS:
        t = reg.get(pd.DataFrame)
        ok = exts_for(t, pd.DataFrame({"a": [1]}), restrict=["pickle", "pkl", "parquet", "feather"])
        s = "pandas data frame: pickle/parquet/feather"
        for df, fmts in frames(rnd, 12 if not thorough else 120):
            for e in ok:
                if (e is None or e in fmts) and format_represents(df, e):
                    roundtrip(run, s, df, e)
            copycheck(run, "pandas data frame copy", df)
    # ---- further registered types whose library is importable
    if HAVE_POLARS:
        t = reg.get(pl.DataFrame)
        ok = exts_for(t, pl.DataFrame({"a": [1]}), restrict=["parquet"])
        for df in polars_frames():
            for e in ok:
                roundtrip(run, "polars data frame: parquet", df, e)
            nullable_or_date = any(df[c].null_count() > 0 or df[c].dtype == pl.Date for c in df.columns)
            copycheck(run, "polars data frame copy", df, known=KNOWN_POLARS_COPY if nullable_or_date else None)
    if HAVE_BATCHES:
        t = reg.get(StoredDataframeIterator)
        ok = exts_for(t, iterators()[0])
        for it in iterators():
            for e in ok:
                roundtrip(run, "stored data-frame iterator: idf/json", it, e)
        for it in iterators():
            copycheck(run, "stored data-frame iterator copy", it, known=KNOWN_ITER_COPY)
    # ---- registry: identifier <-> type for every registered entry
    for qual, st in list(reg.state_types_dictionary.items()):
        run.evaluations += 1
        if reg.get(st.identifier()) is not st and type(reg.get(st.identifier())) is not type(st):
            run.violate("StateTypesRegistry.get", "identifier of a registered type selects that type", qualified_name=qual, identifier=st.identifier(),
                        selected=type_name(reg.get(st.identifier())))
    standins = [dict(name=k, labelled="bounded", bound="fixed corner values + %d seeded random values per class (seed %d); both-way extensions discovered: %s"
                     % (n_rand, seed, {a: b for a, b in pairs.items()}), cases=c, exhaustive=False) for k, c in sorted(run.cases.items())]
    return dict(evaluations=run.evaluations, distinct_nontrivial=len(run.distinct),
                rule="for every registered state type whose library imports and every extension that a probe value passes through as_bytes and "
                     "from_bytes: encode_state_data -> registry.get(identifier).from_bytes and decode_state_data must give a deep-equal value of the same "
                     "type (values the encoder refuses are skipped: %d); copy_state_data / t.copy: equal, then the copy is mutated in depth and the "
                     "original compared with a snapshot taken before" % run.refused,
                standins=standins, violations=run.violations)


def replay(doc):
    """Counter-models of the djson layout obligation carry a key; of the copy obligation a nested value."""
    inp = doc.get("inputs") or {}
    run = Run()
    key = inp.get("key", inp.get("k"))
    data = inp.get("data", inp.get("value"))
    ext = inp.get("extension")
    try:
        if isinstance(key, str):
            roundtrip(run, "replay", {key: 1}, ext or "djson")
        elif data is not None:
            roundtrip(run, "replay", data, ext)
            copycheck(run, "replay", data)
        else:
            return dict(confirmed=False, note="no key / data in the counter-model; see bounded stand-in witnesses")
    except Exception as e:
        return dict(confirmed=True, observed="raised %s: %s" % (type(e).__name__, e))
    return dict(confirmed=bool(run.violations), violations=run.violations[:2], inputs=dict(key=key, data=show(data), extension=ext))
