"""Replay / bounded stand-in runner.  Runs under /venv/bin/python against the real code in /repo
(PYTHONPATH=/verif:/repo).  Prints one JSON line as its last line of output."""
import importlib
import io
import json
import os
import sys
import contextlib
import traceback

sys.path.insert(0, os.path.dirname(os.path.dirname(os.path.abspath(__file__))))
sys.path.insert(1, os.environ.get("LIQUER_REPO", "/repo"))


def main():
    import logging
    logging.disable(logging.CRITICAL)
    mode, pid = sys.argv[1], sys.argv[2]
    mod = importlib.import_module("replay." + pid.lower())
    buf = io.StringIO()
    try:
        with contextlib.redirect_stdout(buf), contextlib.redirect_stderr(io.StringIO()):
            if mode == "replay":
                doc = json.load(open(sys.argv[3]))
                res = mod.replay(doc)
            else:
                res = mod.bounded(sys.argv[3], int(sys.argv[4]))
    except Exception:
        sys.stderr.write(buf.getvalue()[-2000:])
        traceback.print_exc()
        sys.exit(3)
    print(json.dumps(res, default=str))


if __name__ == "__main__":
    main()
