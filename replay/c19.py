"""C19: replay of solver counterexamples and the labelled *bounded* cross-check of the executable contract
on the real liquer.parser code.  The executable specification is the sidecar's own N / resolve / dotfree."""
import itertools

from liquer.parser import ResourceQuerySegment, ResourceName, Query, parse, SegmentHeader, TransformQuerySegment, ActionRequest
from contracts.c19_parser import N, resolve, dotfree


def mk(names):
    return [ResourceName(n) for n in names]


def names(seq):
    return [x.name for x in seq]


def seq_of(v):
    return mk([(e.get("name") if isinstance(e, dict) else str(e)) or "" for e in (v or [])])


def check_helper(path, processed, rest):
    """executable contract of _query_to_absolute: result == N(processed, rest), rejection iff N rejects"""
    ok, exp = N(list(processed), list(rest))
    rq = ResourceQuerySegment(None, list(rest))
    try:
        res = rq._query_to_absolute(list(path), list(processed), list(rest))
        raised = False
    except Exception:
        raised = True
        res = None
    if not ok:
        return raised, dict(expected="rejected", observed=None if raised else names(res))
    return (not raised) and names(res) == names(exp), dict(expected=names(exp), observed="raised" if raised else names(res))


def check_segment(dirnames, qnames):
    """executable contract of ResourceQuerySegment.to_absolute"""
    rq = ResourceQuerySegment(None, mk(qnames))
    path = mk(dirnames)
    ok, exp = resolve(path, rq.query)
    try:
        res = rq.to_absolute(path)
        raised = False
    except Exception:
        raised = True
        res = None
    if not qnames:
        return res is rq, dict(expected="self", observed=str(res))
    if not ok:
        return raised, dict(expected="rejected", observed=None if raised else names(res.query))
    good = (not raised) and names(res.query) == names(exp) and res is not rq and names(rq.query) == list(qnames)
    return good, dict(expected=names(exp), observed="raised" if raised else names(res.query))


def replay(doc):
    ob = doc["obligation"]
    inp = doc.get("inputs") or {}
    if "_query_to_absolute" in ob:
        good, d = check_helper(seq_of(inp.get("path")), seq_of(inp.get("processed")), seq_of(inp.get("rest")))
        return dict(confirmed=not good, inputs=dict(path=names(seq_of(inp.get("path"))), processed=names(seq_of(inp.get("processed"))),
                                                      rest=names(seq_of(inp.get("rest")))), **d)
    if "ResourceQuerySegment.to_absolute" in ob:
        q = names(seq_of((inp.get("self") or {}).get("query")))
        p = names(seq_of(inp.get("path")))
        if not dotfree(mk(p)):
            return dict(confirmed=False, note="model violates the precondition concretely")
        good, d = check_segment(p, q)
        return dict(confirmed=not good, inputs=dict(path=p, query=q), **d)
    if "Query.to_absolute" in ob:
        segs = []
        for s in (inp.get("self") or {}).get("segments") or []:
            hd = None
            if isinstance(s.get("header"), dict):
                hd = SegmentHeader(name=s["header"].get("name", ""), resource=s.get("__class__") == "ResourceQuerySegment")
            if s.get("__class__") == "TransformQuerySegment":
                segs.append(TransformQuerySegment(hd, [ActionRequest("a")]))
            else:
                segs.append(ResourceQuerySegment(hd, seq_of(s.get("query"))))
        q = Query(segs, absolute=bool((inp.get("self") or {}).get("absolute")))
        p = names(seq_of(inp.get("path")))
        rsn = inp.get("resource_segment_name")
        good, d = check_query(q, p, rsn)
        return dict(confirmed=not good, inputs=dict(path=p, query=q.encode(), resource_segment_name=rsn), **d)
    return dict(confirmed=False, note="no replay scenario for this obligation")


def check_query(q, dirnames, rsn):
    path = mk(dirnames)
    expect_reject = False
    expected = []
    for s in q.segments:
        if isinstance(s, ResourceQuerySegment) and (rsn is None or rsn == s.segment_name()) and len(s.query):
            ok, exp = resolve(path, s.query)
            if not ok:
                expect_reject = True
            expected.append(("resolved", names(exp)))
        else:
            expected.append(("same", s))
    try:
        r = q.to_absolute(path, resource_segment_name=rsn)
    except Exception:
        return expect_reject, dict(expected="rejected" if expect_reject else "a query", observed="raised")
    if expect_reject:
        return False, dict(expected="rejected", observed=r.encode())
    if r.absolute != q.absolute or len(r.segments) != len(q.segments):
        return False, dict(expected="same shape", observed=r.encode())
    for (kind, e), s_old, s_new in zip(expected, q.segments, r.segments):
        if kind == "same" and s_new is not s_old:
            return False, dict(expected="segment untouched", observed=s_new.encode())
        if kind == "resolved" and (not isinstance(s_new, ResourceQuerySegment) or names(s_new.query) != e or s_new.header is not s_old.header):
            return False, dict(expected=e, observed=s_new.encode())
    return True, {}


def bounded(tier, seed):
    import random
    rnd = random.Random(seed)
    comps = ["a", "b", ".", "..", "a.b"]
    maxq, maxd = (4, 3) if tier == "quick" else (6, 4)
    dirs = [list(d) for n in range(maxd + 1) for d in itertools.product(["x", "y"], repeat=n)]
    n = 0
    nontrivial = set()
    violations = []
    for k in range(maxq + 1):
        for q in itertools.product(comps, repeat=k):
            for d in dirs:
                n += 1
                good, det = check_segment(d, list(q))
                if "." in q or ".." in q:
                    nontrivial.add((tuple(d), q))
                if good and len(q):
                    # string form: parse, resolve against the key string, encode; and idempotence
                    ok, exp = resolve(mk(d), mk(q))
                    if ok:
                        r1 = parse("-R/" + "/".join(q)).to_absolute("/".join(d))
                        r2 = r1.to_absolute("/".join(d))
                        if names(r1.segments[0].query) != names(exp) or r2.encode() != r1.encode():
                            good, det = False, dict(expected=names(exp), observed=r1.encode(), again=r2.encode())
                if not good and len(violations) < 5:
                    violations.append(dict(contract="ResourceQuerySegment.to_absolute == resolve(dir, path)",
                                           function="ResourceQuerySegment.to_absolute", inputs=dict(path=d, query=list(q)), **det))
    # whole queries: headers, several resource segments, trailing transformations
    m = 0
    for _ in range(300 if tier == "quick" else 3000):
        segs = []
        for _i in range(rnd.randint(1, 3)):
            nm = rnd.choice(["", "", "other"])
            hd = SegmentHeader(name=nm, resource=True) if (nm or rnd.random() < 0.5) else None
            segs.append(ResourceQuerySegment(hd, mk([rnd.choice(comps) for _j in range(rnd.randint(0, 4))])))
            if rnd.random() < 0.5:
                segs.append(TransformQuerySegment(SegmentHeader(name=rnd.choice(["", "t"])), [ActionRequest("act")]))
        q = Query(segs, absolute=rnd.random() < 0.5)
        d = rnd.choice(dirs)
        rsn = rnd.choice(["", "", "other", None])
        good, det = check_query(q, d, rsn)
        m += 1
        if not good and len(violations) < 5:
            violations.append(dict(contract="Query.to_absolute resolves exactly the selected resource segments",
                                   function="Query.to_absolute", inputs=dict(path=d, query=q.encode(), resource_segment_name=rsn), **det))
    return dict(evaluations=n + m, distinct_nontrivial=len(nontrivial) + m,
                rule="every directory of depth 0..%d over {x,y} x every resource path of up to %d components over %r (non-trivial: contains '.' or '..'), "
                     "object and string forms, idempotence; plus %d seeded random whole queries with headers / several resource segments / transformations"
                     % (maxd, maxq, comps, m),
                standins=[dict(name="executable contract of to_absolute vs real code", labelled="bounded", bound="dir depth<=%d, path length<=%d" % (maxd, maxq),
                               cases=n, exhaustive=True),
                          dict(name="executable contract of Query.to_absolute vs real code", labelled="bounded", bound="%d seeded random queries" % m, cases=m,
                               exhaustive=False)],
                violations=violations)
