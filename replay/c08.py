"""C08: labelled *bounded* stand-in - recipes materialise on demand, once, as the serialised query result.

Generated recipes.yaml programs (plain / dictionary form, local and sub-directory sections, './' and '../' resource references
to other recipes, failing queries, file-name overrides) are placed at depth 0-2 of a memory- or directory-backed RecipeSpecStore
which is the global store or mounted into it at 'm' / 'm/n'.  Histories (length <= 4) of read / observe (metadata, keys, listdir,
contains) / remove / clean_recipes are run through get_store() against a small life-cycle model
    recipe --read--> ready | error,   remove / clean --> recipe
with instrumented commands counting every evaluation, and an oracle (plain MemoryStore holding the referenced files) that
evaluates the independently resolved absolute query directly.
"""
import contextlib
import importlib
import io
import itertools
import random
import shutil
import tempfile

MAXV = 8
COUNT = {}

KNOWN_EXT = ("dictionary-form recipe {query: dic-k/d.json, filename: d.djson}: the bytes stored under the key d.djson are the 'json' serialisation (the extension "
             "of the query) instead of the 'djson' format of the key's extension; Context._store_state encodes with state.metadata['extension'], not with the "
             "extension of store_key")


@contextlib.contextmanager
def quiet():
    with contextlib.redirect_stderr(io.StringIO()), contextlib.redirect_stdout(io.StringIO()):
        yield


def add_violation(violations, v, per_function=2):
    if len(violations) < MAXV and sum(1 for x in violations if x.get("function") == v.get("function")) < per_function:
        violations.append(v)


def hit(marker):
    COUNT[marker] = COUNT.get(marker, 0) + 1


# ------------------------------------------------------------------------------------------ vocabulary
def register_vocabulary():
    from liquer.commands import reset_command_registry, command, first_command
    reset_command_registry()
    with quiet():
        import sys
        for name in ("liquer.ext.basic", "liquer.ext.meta"):      # (re-)register the library commands used by clean_recipes
            if name in sys.modules:
                importlib.reload(sys.modules[name])
            else:
                importlib.import_module(name)

    @first_command
    def hello(x="w"):
        hit(x)
        return "Hello, " + x

    @first_command
    def num(n: int = 1, tag=""):
        hit(tag)
        return n * 2

    @first_command
    def dic(x="w"):
        hit(x)
        return {"v": x, "l": [1, 2]}

    @first_command
    def raw(x="w"):
        hit(x)
        return b"\x00\xffraw:" + x.encode("utf-8")

    @first_command
    def error(x="e"):
        hit(x)
        raise Exception("deliberate failure " + x)

    @command
    def c(s, tag=""):
        hit(tag)
        return (s.decode("latin-1") if isinstance(s, bytes) else repr(s)) + "|" + tag

    @command
    def boom(s, tag=""):
        hit(tag)
        raise Exception("deliberate failure in a transformation " + tag)


# ------------------------------------------------------------------------------------------ programs
def join(*parts):
    return "/".join(p for p in parts if p)


def ext_of(name):
    return name.rsplit(".", 1)[1] if "." in name else None


def make_program(rnd, variant):
    """A recipe file as a list of entries; each: section, form, yaml query, how to build the absolute query, marker, file name, title, description, ref."""
    n = [0]

    def marker():
        n[0] += 1
        return "k%d" % n[0]
    entries = []

    def add(section, name, kind, ref=None, ref_rel=None, form=None, qname=None, fails=False):
        m = marker()
        e = dict(section=section, name=name, qname=qname or name, kind=kind, marker=m, ref=ref, ref_rel=ref_rel, fails=fails,
                 form=form or rnd.choice(["plain", "dict"]), header=rnd.choice(["", "", "-R/"]))
        if qname and qname != name:
            e["form"] = "dict"
        if e["form"] == "dict":
            e["title"] = rnd.choice(["Title of %s" % name, "T: '%s' #1" % m, None])
            e["description"] = rnd.choice(["Description of %s, with: colon" % name, None])
        entries.append(e)
        return e
    base_kind = rnd.choice(["hello", "hello", "num", "dic", "raw"]) if variant % 2 else "hello"
    base_name = {"hello": "b1.txt", "num": "b1.json", "dic": "b1.json", "raw": "b1.b"}[base_kind]
    add(None, base_name, base_kind)
    add(None, "b2.txt", "hello", form="dict", qname=rnd.choice(["b2.txt", "other.txt", "b2.html"]))
    add(None, "copy.txt", "ref", ref=(None, base_name), ref_rel=".")
    if variant % 3 != 1:
        add(None, "err.txt", rnd.choice(["error", "boomref"]), ref=(None, base_name), ref_rel=".", fails=True)
    add("sub", "up.txt", "ref", ref=(None, base_name), ref_rel="..")
    if variant % 3 != 2:
        add("sub", "chain.txt", "ref", ref=("sub", "up.txt"), ref_rel=".")
    if variant % 3 == 1:
        add("sub", "suberr.txt", "error", fails=True)
    if variant % 4 == 0:
        add("sub", "s.txt", "hello")
        add(None, "down.txt", "ref", ref=("sub", "s.txt"), ref_rel="./sub")
    if variant % 5 == 0:
        add(None, "d.djson", "dic", form="dict", qname="d.json")
    for e in entries:
        if e["kind"] == "error" and e["ref"] and e["name"] == "err.txt":
            e["ref"] = None
    return entries


def query_text(e, absolute_dir=None, directory_of=None):
    """The query as written in the recipe file (absolute_dir None) or resolved by hand against the recipe's directory."""
    m, q = e["marker"], e["qname"]
    kind = e["kind"]
    if kind == "hello":
        return "hello-%s/%s" % (m, q)
    if kind == "num":
        return "num-%d-%s/%s" % (int(m[1:]) + 3, m, q)
    if kind == "dic":
        return "dic-%s/%s" % (m, q)
    if kind == "raw":
        return "raw-%s/%s" % (m, q)
    if kind == "error":
        return "error-%s/%s" % (m, q)
    action = "boom-%s" % m if kind == "boomref" else "c-%s" % m
    if absolute_dir is None:
        return "%s%s/%s/-/%s/%s" % (e["header"], e["ref_rel"], e["ref"][1], action, q)
    return "-R/%s/-/%s/%s" % (join(directory_of(e["ref"][0]), e["ref"][1]), action, q)


def yaml_text(entries):
    def quote(s):
        return '"%s"' % s.replace("\\", "\\\\").replace('"', '\\"')
    lines = []
    for section in (None, "sub"):
        es = [e for e in entries if e["section"] == section]
        if not es:
            continue
        lines.append("%s:" % ("RECIPES" if section is None else section))
        for e in es:
            q = query_text(e)
            if e["form"] == "plain":
                lines.append("  - %s" % q)
            else:
                lines.append("  - query: %s" % q)
                if e["qname"] != e["name"] or e.get("explicit_filename"):
                    lines.append("    filename: %s" % e["name"])
                if e.get("title") is not None:
                    lines.append("    title: %s" % quote(e["title"]))
                if e.get("description") is not None:
                    lines.append("    description: %s" % quote(e["description"]))
    return "\n".join(lines) + "\n"


# ------------------------------------------------------------------------------------------ worlds
CONFIGS = [(backing, mount, depth, order) for backing in ("memory", "directory") for mount in (None, "m", "m/n")
           for depth in ("", "p", "p/q") for order in ("file first", "store first")]


class World:
    def __init__(self, config, entries):
        from liquer.store import MemoryStore, FileStore, MountPointStore, set_store
        from liquer.recipes import RecipeSpecStore
        self.config = config
        backing, mount, depth, order = config
        self.tmp = None
        if backing == "memory":
            sub = MemoryStore()
        else:
            self.tmp = tempfile.mkdtemp(prefix="liquer_bounded_")
            sub = FileStore(self.tmp)
        text = yaml_text(entries).encode("utf-8")
        ykey = join(depth, "recipes.yaml")
        self.base = join(mount, depth)
        with quiet():
            if order == "file first":
                sub.store(ykey, text, {})
            rs = RecipeSpecStore(sub)
            if mount is None:
                g = rs
            else:
                g = MountPointStore(MemoryStore())
                g.mount(mount, rs)
            set_store(g)
            if order == "store first":
                g.store(join(self.base, "recipes.yaml"), text, {})
        self.G, self.rs, self.sub = g, rs, sub
        self.entries = entries
        self.key = {id(e): join(self.base, e["section"], e["name"]) for e in entries}
        self.by_ref = {(e["section"], e["name"]): e for e in entries}

    def directory_of(self, section):
        return join(self.base, section)

    def close(self):
        from liquer.store import set_store
        set_store(None)
        if self.tmp:
            shutil.rmtree(self.tmp, ignore_errors=True)


_ORACLE = {}


class Oracle:
    """expected(key) = bytes of evaluating the hand-resolved absolute query directly, the referenced files being plain data in a MemoryStore
    (computed on demand, in dependency order, once per program and base directory)."""

    def __init__(self, world):
        from liquer.store import MemoryStore
        self.plain = MemoryStore()
        self.bytes = {}
        self.base = world.base
        self.entries = world.entries

    @classmethod
    def of(cls, world, program_id):
        k = (world.base, program_id)
        if k not in _ORACLE:
            _ORACLE[k] = cls(world)
        return _ORACLE[k]

    def expected(self, world, key):
        from liquer.store import set_store, get_store
        from liquer.query import evaluate
        from liquer.state_types import encode_state_data
        if key in self.bytes:
            return self.bytes[key]
        e = next(x for x in world.entries if world.key[id(x)] == key)
        if e["ref"]:
            self.expected(world, world.key[id(world.by_ref[e["ref"]])])
        q = query_text(e, absolute_dir=True, directory_of=world.directory_of)
        from liquer.cache import get_cache, set_cache, NoCache
        saved = get_store()
        saved_cache = get_cache()
        counts = dict(COUNT)
        try:
            set_store(self.plain)
            set_cache(NoCache())        # the oracle never shares cached results with the run under test
            with quiet():
                st = evaluate(q)
                if st.is_error:
                    raise Exception("the oracle cannot evaluate %r: %r" % (q, st.metadata.get("message")))
                b, _mime, _t = encode_state_data(st.get(), extension=ext_of(e["name"]))
            self.plain.store(key, b, {})
            self.bytes[key] = b
        finally:
            set_store(saved)
            set_cache(saved_cache)
            COUNT.clear()
            COUNT.update(counts)
        return b


# ------------------------------------------------------------------------------------------ model + checks
class Run:
    def __init__(self, world, oracle, violations, witness):
        self.w = world
        self.oracle = oracle
        self.violations = violations
        self.witness = witness
        self.state = {world.key[id(e)]: "recipe" for e in world.entries}
        self.entry = {world.key[id(e)]: e for e in world.entries}
        self.versions = {}
        self.history = []
        self.failed = False

    def report(self, function, contract, known=None, **kw):
        self.failed = True
        v = dict(contract=contract, function=function, history=list(self.history), **self.witness, **kw)
        if known:
            v["known"] = known
        add_violation(self.violations, v)

    def succeeds(self, key):
        e = self.entry[key]
        if e["fails"]:
            return False
        d = self.dep(key)
        return self.succeeds(d) if d else True

    def expected(self, key):
        return self.oracle.expected(self.w, key)

    def dep(self, key):
        e = self.entry[key]
        return self.w.key[id(self.w.by_ref[e["ref"]])] if e["ref"] else None

    def plan_read(self, key, deltas, unsure):
        """Model of materialising `key`: expected invocation deltas of the markers of succeeding recipes; returns True when the key ends ready."""
        if self.state[key] == "ready":
            return True
        if self.state[key] == "error":
            # re-reading a failed recipe: whether it is tried again is not specified; whatever it references may or may not be touched
            k = self.dep(key)
            while k is not None:
                if self.state[k] != "ready":
                    unsure.add(k)
                k = self.dep(k)
            return False
        d = self.dep(key)
        ok = self.plan_read(d, deltas, unsure) if d else True
        if d in unsure:
            unsure.add(key)
            return False
        if ok and self.succeeds(key):
            deltas[key] = deltas.get(key, 0) + 1
            self.state[key] = "ready"
            return True
        self.state[key] = "error"
        return False

    def do_read(self, key):
        before = dict(COUNT)
        deltas, unsure = {}, set()
        was = self.state[key]
        states0 = dict(self.state)
        self.plan_read(key, deltas, unsure)
        if CACHED["on"]:
            # with a result cache the evaluation of the key's query may be served from the cache: what it refers to is then not
            # demanded and may stay unmaterialised ("on demand") - its state is settled by the next observation
            for k, s0 in states0.items():
                if k != key and s0 != "ready" and self.state[k] == "ready":
                    self.state[k] = "?"
        try:
            with quiet():
                got = self.w.G.get_bytes(key)
            raised = None
        except Exception as e:
            got, raised = None, type(e).__name__
        fn = "read of a recipe key (%s-backed)" % self.w.config[0]
        if self.succeeds(key):
            if raised or got != self.expected(key):
                known = None
                if self.entry[key]["name"] == "d.djson" and got is not None and got != self.expected(key):
                    known, fn = KNOWN_EXT, "read of a recipe key whose file name overrides the extension of the query"
                self.report(fn, "bytes read == evaluating the (resolved) query directly, serialised by the key's extension", known=known, key=key,
                            recipe=query_text(self.entry[key]), read=repr(got)[:120] if not raised else "raises " + raised, expected=repr(self.expected(key))[:120])
                if not known:
                    return
                self.failed = False
        else:
            if not raised and got is not None:
                return self.report("read of a failing recipe (%s-backed)" % self.w.config[0], "a failing recipe leaves no data", key=key,
                                   recipe=query_text(self.entry[key]), read=repr(got)[:120])
        for k in self.state:
            if not self.succeeds(k) or k in unsure:
                continue
            m = self.entry[k]["marker"]
            d = COUNT.get(m, 0) - before.get(m, 0)
            if CACHED["on"] and d <= deltas.get(k, 0):
                continue        # with a result cache the recipe's commands run at most once per materialisation (a cache hit runs nothing)
            if d != deltas.get(k, 0):
                what = "first read evaluates the recipe once" if deltas.get(k, 0) else "a read of an existing key does not evaluate again"
                return self.report(fn, what, key_read=key, state_before_read=was, recipe_counted=k, evaluations_observed=d, evaluations_expected=deltas.get(k, 0))
        for k in unsure:
            if self.succeeds(k):
                self.state[k] = "?"

    def do_remove(self, key):
        was = self.state[key]
        try:
            with quiet():
                self.w.G.remove(key)
        except Exception as e:
            if was == "ready":
                return self.report("remove of a recipe key (%s-backed)" % self.w.config[0], "removing a materialised key returns it to the 'recipe' state", key=key,
                                   raised=type(e).__name__)
        self.state[key] = "recipe"

    def do_clean(self, recursive):
        from liquer.query import evaluate
        d = self.w.base
        q = ("-R-meta/%s/-/ns-meta/clean_recipes" % d if d else "ns-meta/root_key/clean_recipes") + ("-t" if recursive else "")
        before = dict(COUNT)
        try:
            with quiet():
                st = evaluate(q)
                ok = not st.is_error
                removed = st.get().get("removed") if ok else None
        except Exception:
            ok, removed = False, None
        fn = "clean_recipes (%s-backed)" % self.w.config[0]
        if not ok:
            return self.report(fn, "clean_recipes over the recipe directory succeeds", query=q)
        if COUNT != before:
            return self.report(fn, "clean_recipes does not evaluate recipes", query=q)
        for k, e in self.entry.items():
            if e["section"] is None or recursive:
                if self.state[k] in ("ready", "error", "?") and k not in (removed or []) and self.state[k] != "?":
                    return self.report(fn, "clean_recipes removes every materialised key that has a recipe", query=q, key=k, state=self.state[k], removed=removed)
                self.state[k] = "recipe"

    def observe(self):
        """listed / present / status / declared title+description / recorded recipe name+version, without any evaluation."""
        G = self.w.G
        before = dict(COUNT)
        backing = self.w.config[0]
        try:
            with quiet():
                keys = list(G.keys())
        except Exception as e:
            return self.report("keys", "declared keys are listed", raised=type(e).__name__)
        for key, e in self.entry.items():
            fn = "metadata of a recipe key (%s-backed)" % backing
            try:
                with quiet():
                    present = G.contains(key)
                    names = list(G.listdir(join(self.w.base, e["section"])) or [])
                    is_dir = G.is_dir(key)
                    md = G.get_metadata(key)
            except Exception as ex:
                return self.report(fn, "a declared key is present and has metadata", key=key, state=self.state[key], raised=type(ex).__name__ + ": " + str(ex)[:80])
            if key not in keys or not present or e["name"] not in names or is_dir:
                return self.report("listing of a recipe key (%s-backed)" % backing, "a declared key is listed and reported present (keys, contains, listdir), in every state",
                                   key=key, state=self.state[key], in_keys=key in keys, contains=present, in_listdir=e["name"] in names, is_dir=is_dir)
            if not isinstance(md, dict):
                return self.report(fn, "a declared key has metadata", key=key, metadata=repr(md)[:80])
            status = md.get("status")
            st = self.state[key]
            if st == "?":
                st = self.state[key] = "ready" if status == "ready" else "recipe"
                if status not in ("ready", "recipe"):
                    return self.report(fn, "status is 'recipe' or 'ready'", key=key, status=status)
            if status != st:
                contract = {"recipe": "status is 'recipe' before the key exists and after it was removed", "ready": "status becomes 'ready' after the first read",
                            "error": "a failing recipe leaves error metadata"}[st]
                return self.report(fn, contract, key=key, recipe=query_text(e), status=status, expected_status=st)
            if st == "recipe":
                for f in ("title", "description"):
                    if e.get(f) is not None and md.get(f) != e[f]:
                        return self.report(fn, "declared title and description are reported before the key exists", key=key, field=f, reported=md.get(f), declared=e[f])
                if md.get("recipe_name"):
                    self.versions.setdefault(key, {})["advertised"] = md.get("recipe_name")
            if st == "ready":
                rec = (md.get("dependencies") or {}).get("recipe") or {}
                try:
                    local = key[len(self.w.config[1]) + 1:] if self.w.config[1] else key
                    robj = self.w.rs.recipes()[local]
                    want = (robj.recipe_name(), robj.version())
                except Exception:
                    want = None
                name_ok = bool(rec.get("name")) and (want is None or rec.get("name") == want[0]) and md.get("recipe_name") == rec.get("name")
                adv = self.versions.get(key, {}).get("advertised")
                if adv and rec.get("name") != adv:
                    name_ok = False
                ver_ok = bool(rec.get("version")) and (want is None or rec.get("version") == want[1])
                if not name_ok or not ver_ok or not md.get("has_recipe"):
                    return self.report(fn, "metadata of a materialised key records the recipe's name and version", key=key, recorded=repr(rec)[:160],
                                       recipe_name=md.get("recipe_name"), expected=repr(want)[:160], has_recipe=md.get("has_recipe"))
            if st == "error":
                if not md.get("is_error") or not (md.get("message") or md.get("log")):
                    return self.report(fn, "a failing recipe leaves error metadata", key=key, is_error=md.get("is_error"), message=md.get("message"))
        if COUNT != before:
            return self.report("observation", "metadata / keys / listdir / contains never evaluate a recipe",
                               evaluated=sorted(k for k in COUNT if COUNT[k] != before.get(k, 0)))

    def resolve_unknown(self):
        for k, st in list(self.state.items()):
            if st == "?":
                try:
                    with quiet():
                        status = self.w.G.get_metadata(k).get("status")
                except Exception:
                    status = None
                self.state[k] = "ready" if status == "ready" else "recipe"

    def step(self, op):
        self.history.append(" ".join(str(x) for x in op))
        self.resolve_unknown()
        kind = op[0]
        if kind == "read":
            self.do_read(op[1])
        elif kind == "remove":
            self.do_remove(op[1])
        elif kind == "clean":
            self.do_clean(op[1])
        elif kind == "observe":
            self.observe()


def run_history(config, entries, hist_fn, violations, stats, variant, program_id=None):
    program_id = variant if program_id is None else program_id
    COUNT.clear()
    if CACHED["on"]:
        from liquer.cache import set_cache, MemoryCache
        set_cache(MemoryCache())        # a fresh process-wide cache per history
    world = World(config, entries)
    try:
        COUNT.clear()
        witness = dict(backing=config[0], mounted_at=config[1], recipes_file=join(world.base, "recipes.yaml"), recipe_file_stored=config[3], program_variant=variant)
        run = Run(world, Oracle.of(world, program_id), violations, witness)
        # sanity of the set-up: every declared key must be known to the model
        hist = hist_fn(run)
        for op in hist:
            run.step(op)
            stats["evaluations"] += 1
            if run.failed:
                return
        run.history.append("observe (final)")
        run.observe()
        stats["evaluations"] += 1
    finally:
        world.close()


def canonical_histories(run):
    """Histories that walk every clause of the statement for chosen keys."""
    keys = list(run.state)
    good = [k for k in keys if run.succeeds(k)]
    bad = [k for k in keys if not run.succeeds(k)]
    refs = [k for k in good if run.dep(k)]
    out = []
    for k in good:
        if run.entry[k]["qname"] != run.entry[k]["name"] and ext_of(run.entry[k]["qname"]) != ext_of(run.entry[k]["name"]):
            out.append([("read", k)])
    for k in good[:3] + refs[-2:]:
        out.append([("observe",), ("read", k), ("observe",), ("read", k)])
        out.append([("read", k), ("remove", k), ("observe",), ("read", k)])
    for k in refs[-2:]:
        d = run.dep(k)
        out.append([("read", k), ("read", d), ("remove", d), ("read", k)])
        out.append([("read", d), ("read", k), ("remove", k), ("read", k)])
    for k in bad:
        out.append([("observe",), ("read", k), ("observe",), ("read", k)])
        out.append([("read", k), ("remove", k), ("observe",), ("read", k)])
        out.append([("read", k), ("clean", True), ("observe",)])
    out.append([("read", k) for k in good[:3]] + [("clean", False)])
    out.append([("read", k) for k in keys[-3:]] + [("clean", True)])
    out.append([("remove", keys[0]), ("observe",), ("read", keys[0])])
    return out


def random_history(run, rnd, maxlen=4):
    keys = list(run.state)
    h = []
    for _ in range(rnd.randint(1, maxlen)):
        c = rnd.random()
        if c < 0.5:
            h.append(("read", rnd.choice(keys)))
        elif c < 0.72:
            h.append(("remove", rnd.choice(keys)))
        elif c < 0.9:
            h.append(("observe",))
        else:
            h.append(("clean", rnd.random() < 0.5))
    return h


CACHED = {"on": False}


def bounded(tier, seed):
    """NoCache (the default configuration) over every store configuration, then the same with a process-wide MemoryCache over every
    third configuration: a cache hit must still re-materialise a removed / cleaned key."""
    a = bounded_with(tier, seed, False)
    b = bounded_with(tier, seed + 1, True)
    a["evaluations"] += b["evaluations"]
    a["distinct_nontrivial"] += b["distinct_nontrivial"]
    a["standins"] += b["standins"]
    a["violations"] += b["violations"]
    return a


def bounded_with(tier, seed, cached):
    from liquer.cache import set_cache, NoCache
    rnd = random.Random(seed)
    violations = []
    stats = dict(evaluations=0)
    distinct = set()
    register_vocabulary()
    from liquer.cache import MemoryCache
    CACHED["on"] = cached
    set_cache(MemoryCache() if cached else NoCache())
    _ORACLE.clear()
    cases = 0
    nprograms = 10 if tier == "quick" else 40
    programs = [make_program(random.Random(seed * 1000 + v), v) for v in range(nprograms)]
    per_config_random = 3 if tier == "quick" else 50
    try:
        for ci, config in enumerate(CONFIGS):
            if cached and ci % 3 != seed % 3:
                continue
            # clause-covering histories: one program per configuration (rotating) at the quick tier, three at the thorough tier
            for v in ([ci % nprograms] if tier == "quick" else [(ci + 13 * j) % nprograms for j in range(3)]):
                entries = programs[v]
                probe = World(config, entries)
                try:
                    canon = canonical_histories(Run(probe, None, [], {}))
                finally:
                    probe.close()
                idx = [i for i in range(len(canon)) if tier != "quick" or (i + ci) % 5 == 0 or len(canon[i]) == 1]
                for i in idx:
                    cases += 1
                    distinct.add((config, v, "canonical", i))
                    run_history(config, entries, lambda run, i=i: canonical_histories(run)[i], violations, stats, v)
            for j in range(per_config_random):
                v = rnd.randrange(nprograms)
                hseed = rnd.randint(0, 10 ** 9)
                cases += 1
                distinct.add((config, v, "random", hseed))
                run_history(config, programs[v], lambda run, hseed=hseed: random_history(run, random.Random(hseed)), violations, stats, v)
    finally:
        set_cache(None)
        CACHED["on"] = False
        _ORACLE.clear()
        from liquer.commands import reset_command_registry
        reset_command_registry()
    return dict(evaluations=stats["evaluations"], distinct_nontrivial=len(distinct),
                rule="generated recipe files (plain/dictionary form, RECIPES and sub-directory sections, './', '../', './sub' references with and without '-R/', failing commands, "
                     "failing transformations of a referenced recipe, file-name overrides) x 36 configurations (memory/directory backing; global store itself or mounted at 'm', "
                     "'m/n'; recipes.yaml at depth 0-2; file stored before or through the recipe store); histories of read / observe / remove / clean_recipes of length <= 4 "
                     "(clause-covering + seeded random) against the life-cycle model, invocation counters of instrumented commands, and an oracle evaluating the hand-resolved "
                     "absolute query on plain data",
                standins=[dict(name="recipe life cycle through get_store() vs model + direct evaluation, %s" % ("process-wide MemoryCache" if cached else "NoCache"), labelled="bounded",
                               bound="36 store configurations x (clause-covering histories%s + %d seeded random histories of length <= 4) over %d generated recipe files"
                                     % (" (every fifth, one recipe file per configuration)" if tier == "quick" else " over 3 recipe files each", per_config_random, nprograms),
                               cases=cases, exhaustive=False)],
                violations=violations)


def replay(doc):
    return dict(confirmed=False, note="no solver-model replay for recipe histories; see the bounded stand-in witnesses")
