"""C12: labelled *bounded* stand-in - deterministic interleavings of evaluations sharing a cache, at cache-operation
granularity (and, for file-backed caches, at open()/write() granularity).

The shared cache is wrapped by an Interposer that calls a scheduler before every cache operation.
 * inline mode (every cache kind): at the k-th operation of evaluation A a second evaluation B (overlapping query) runs to
   completion, then A continues - all k; optionally a third evaluation C runs to completion at B's j-th operation;
 * thread mode (kinds usable from threads, i.e. not the sqlite ones): A and B run in two threads under a token-passing
   scheduler; at A's k-th operation B runs up to its own j-th operation, then A runs to completion, then B finishes.
Every evaluation must return its stand-alone (NoCache) outcome and afterwards every cache.get(key) must be None or equal
to the reference value of the key (inspection of C05)."""
import builtins
import os
import threading
import time

import liquer.cache as LCACHE
import liquer.store as LSTORE
from replay import evalmodel as M
from replay import c05

CONTRACT = "interleaved evaluations return their stand-alone outcomes; at quiescence cache.get(key) is None or == Sem(key)"
FIELDS = ("value", "volatile", "vars", "filename", "extension")

PAIRS = [
    ("hello/cat-a/cat-b", "hello/cat-a/cat-c"),
    ("one/add-2/add-3", "one/add-2"),
    ("hello/cat-~X~/hello/cat-a~E", "hello/cat-a/cat-b"),
    ("lst-a/push/push-b", "lst-a/push/poplen"),
    ("hello/cat-a", "hello/cat-a"),
    ("one/fail/add-1", "one/fail"),
    ("one/vol-1/add-2", "one/vol-1"),
    ("hello/let-v-x/cat-~X~state_variable-v~E", "hello/let-v-x/state_variable-v"),
    ("hello/nocache/cat-a", "hello/cat-a"),
    ("hello/cat-a/x.txt", "hello/cat-a/cat-b"),
]
THIRD = {"hello/cat-a/cat-b": "hello/cat-a", "one/add-2/add-3": "one/add-2/add-4"}
NOT_THREADABLE = ("SQL",)


class Interposer:
    """cache wrapper: every operation is announced to self.hook(name, key) first"""

    def __init__(self, cache):
        self.cache = cache
        self.hook = None

    def _pre(self, name, key=None):
        h = self.hook
        if h is not None:
            h(name, key)

    def get(self, key):
        self._pre("get", key)
        return self.cache.get(key)

    def get_metadata(self, key):
        self._pre("get_metadata", key)
        return self.cache.get_metadata(key)

    def store(self, state):
        self._pre("store", state.query)
        return self.cache.store(state)

    def store_metadata(self, metadata):
        self._pre("store_metadata", metadata.get("query"))
        return self.cache.store_metadata(metadata)

    def remove(self, key):
        self._pre("remove", key)
        return self.cache.remove(key)

    def contains(self, key):
        self._pre("contains", key)
        return self.cache.contains(key)

    def keys(self):
        return self.cache.keys()

    def clean(self):
        return self.cache.clean()


class FileHooks:
    """interpose on open()/write() of the cache and store modules (module-level name `open` shadows the builtin)"""

    def __init__(self, interposer):
        self.ip = interposer

    def __enter__(self):
        ip = self.ip

        class Proxy:
            def __init__(self, f, path):
                self._f, self._path = f, path

            def write(self, data):
                ip._pre("file.write", str(self._path))
                return self._f.write(data)

            def __getattr__(self, name):
                return getattr(self._f, name)

            def __enter__(self):
                self._f.__enter__()
                return self

            def __exit__(self, *a):
                return self._f.__exit__(*a)

            def __iter__(self):
                return iter(self._f)

        def hooked_open(path, mode="r", *a, **k):
            ip._pre("file.open(%s)" % mode, str(path))
            return Proxy(builtins.open(path, mode, *a, **k), path)
        LCACHE.open = hooked_open
        LSTORE.open = hooked_open
        # the rename that publishes a completely written temporary file is a scheduling point too
        self._real_replace = real_replace = os.replace

        def hooked_replace(src, dst, *a, **k):
            ip._pre("file.replace", str(dst))
            return real_replace(src, dst, *a, **k)
        os.replace = hooked_replace
        return self

    def __exit__(self, *a):
        os.replace = self._real_replace
        for mod in (LCACHE, LSTORE):
            if "open" in mod.__dict__:
                del mod.__dict__["open"]


def expected_of(q, memo={}):
    if q not in memo:
        memo[q] = M.run(q)
    return memo[q]


def count_ops(factory, q, file_level):
    c, cleanup = M.quiet(factory)
    ip = Interposer(c)
    n = [0]
    names = []

    def hook(name, key):
        n[0] += 1
        names.append(name)
    ip.hook = hook
    LCACHE.set_cache(ip)
    try:
        if file_level:
            with FileHooks(ip):
                M.run(q, keep_global=True)
        else:
            M.run(q, keep_global=True)
    finally:
        LCACHE.set_cache(LCACHE.NoCache())
        M.quiet(cleanup)
    LAST_OPS[:] = names
    return n[0]


LAST_OPS = []


def write_points(limit=60):
    """indices (1-based) of the file.write operations of the last counted evaluation: the windows between open-for-write and write"""
    idx = [i + 1 for i, nm in enumerate(LAST_OPS) if nm == "file.write"]
    if len(idx) > limit:
        step = len(idx) / float(limit)
        idx = [idx[int(i * step)] for i in range(limit)]
    return idx


def judge(col, kind, c, runs, schedule, file_level):
    """runs: list of (query, outcome)"""
    bad = False
    for q, o in runs:
        exp = expected_of(q)
        d = M.outcome_diff(exp, o, FIELDS)
        if d:
            bad = True
            col.add(CONTRACT, "Context.evaluate / %s" % kind, query=q, cache=kind, schedule=schedule, granularity="file open/write" if file_level else "cache operation",
                    problem="an interleaved evaluation returned something else than its stand-alone outcome",
                    differences=[dict(field=a, expected=b, observed=x) for a, b, x in d])
    probs = c05.inspect(c, [q for q, _o in runs])
    for key, problem, got, ref in probs:
        bad = True
        col.add(CONTRACT, "cache.get / %s" % kind, query=key, cache=kind, schedule=schedule, granularity="file open/write" if file_level else "cache operation",
                problem="at quiescence: " + problem, served=got, expected=None if ref is None else ref.brief())
    return bad


def served_empty_prefix(q, outcome, got=None):
    """Is the observed value what the query yields when some text-valued prefix is replaced by the empty string?"""
    val = got if outcome is None else (M._simple(outcome.value) if outcome.ok else None)
    try:
        absolute, actions, filename = M._split_query(M.parse(q))
    except Exception:
        return False
    for i in range(1, len(actions) + 1):
        pre = M.Sem(M.canonical(actions[:i], None, absolute))
        if pre.ok and isinstance(pre.value, str):
            rest = M.canonical(actions[i:], filename, False)
            alt = M.Sem(rest, input_value="", has_input=True) if rest else None
            if rest == "" and val == "":
                return True
            if alt is not None and alt.ok and M.same_value(M._simple(alt.value), val):
                return True
    return False


def inline_scenario(col, kind, factory, qa, qb, k, file_level, qc=None, j=None):
    c, cleanup = M.quiet(factory)
    ip = Interposer(c)
    state = dict(na=0, nb=0, depth=0, outs={})

    def hook(name, key):
        if state["depth"] == 0:
            state["na"] += 1
            if state["na"] == k:
                state["depth"] = 1
                state["outs"]["B"] = M.run(qb, keep_global=True)
                state["depth"] = 0
        elif state["depth"] == 1 and qc is not None:
            state["nb"] += 1
            if state["nb"] == j:
                state["depth"] = 2
                state["outs"]["C"] = M.run(qc, keep_global=True)
                state["depth"] = 1
    ip.hook = hook
    LCACHE.set_cache(ip)
    try:
        if file_level:
            with FileHooks(ip):
                oa = M.run(qa, keep_global=True)
        else:
            oa = M.run(qa, keep_global=True)
        ip.hook = None
        col.evaluations += 1
        runs = [(qa, oa)]
        if "B" in state["outs"]:
            runs.append((qb, state["outs"]["B"]))
        if "C" in state["outs"]:
            runs.append((qc, state["outs"]["C"]))
        sched = "A=%s; at A's operation #%d B=%s runs to completion" % (qa, k, qb)
        if qc is not None:
            sched += "; at B's operation #%d C=%s runs to completion" % (j, qc)
        return judge(col, kind, c, runs, sched, file_level)
    finally:
        LCACHE.set_cache(LCACHE.NoCache())
        M.quiet(cleanup)


class TokenScheduler:
    """A starts; at A's k-th operation the token goes to B; at B's j-th operation back to A; whoever finishes hands over."""

    def __init__(self, k, j, after_a=None):
        self.k, self.j = k, j
        self.after_a = after_a      # runs (unscheduled) when A has finished, while B is still stopped at its operation j
        self.cv = threading.Condition()
        self.turn = "A"
        self.count = {"A": 0, "B": 0}
        self.done = {"A": False, "B": False}
        self.switched = {"A": False, "B": False}
        self.local = threading.local()
        self.failed = None

    def other(self, r):
        return "B" if r == "A" else "A"

    def wait_turn(self, r):
        with self.cv:
            while self.turn != r:
                if not self.cv.wait(timeout=20):
                    self.failed = "scheduler timeout"
                    raise RuntimeError("scheduler timeout")

    def give(self, r):
        with self.cv:
            o = self.other(r)
            if not self.done[o]:
                self.turn = o
                self.cv.notify_all()

    def hook(self, name, key):
        r = getattr(self.local, "role", None)
        if r is None:
            return
        self.count[r] += 1
        limit = self.k if r == "A" else self.j
        if not self.switched[r] and self.count[r] == limit:
            self.switched[r] = True
            self.give(r)
            self.wait_turn(r)

    def body(self, r, fn, out):
        self.local.role = r
        try:
            self.wait_turn(r)
            out[r] = fn()
            if r == "A" and self.after_a is not None and not self.done["B"]:
                self.local.role = None
                out["C"] = self.after_a()
        except BaseException as e:       # noqa
            out[r] = e
        finally:
            with self.cv:
                self.done[r] = True
                self.turn = self.other(r)
                self.cv.notify_all()


def thread_scenario(col, kind, factory, qa, qb, k, j, file_level, qc=None):
    c, cleanup = M.quiet(factory)
    ip = Interposer(c)
    sch = TokenScheduler(k, j, after_a=(lambda: M.run(qc, keep_global=True)) if qc is not None else None)
    ip.hook = sch.hook
    LCACHE.set_cache(ip)
    out = {}
    try:
        def go():
            ta = threading.Thread(target=sch.body, args=("A", lambda: M.run(qa, keep_global=True), out))
            tb = threading.Thread(target=sch.body, args=("B", lambda: M.run(qb, keep_global=True), out))
            ta.start()
            tb.start()
            ta.join(60)
            tb.join(60)
        if file_level:
            with FileHooks(ip):
                go()
        else:
            go()
        ip.hook = None
        col.evaluations += 1
        runs = []
        for r, q in (("A", qa), ("B", qb)):
            o = out.get(r)
            if not isinstance(o, M.Outcome):
                col.add(CONTRACT, "harness", query=q, cache=kind, problem="thread scenario did not complete: %r" % (o,), schedule="k=%d j=%d" % (k, j))
                return True
            runs.append((q, o))
        sched = "A=%s, B=%s in two threads: A runs to its operation #%d, B to its operation #%d, A to completion, B to completion" % (qa, qb, k, j)
        if qc is not None and isinstance(out.get("C"), M.Outcome):
            runs.append((qc, out["C"]))
            sched = sched.replace(", B to completion", ", then C=%s runs to completion, then B to completion" % qc)
        return judge(col, kind, c, runs, sched, file_level)
    finally:
        LCACHE.set_cache(LCACHE.NoCache())
        M.quiet(cleanup)


def points(n, maxpoints):
    """at most maxpoints operation indices out of 1..n, evenly spread, both ends included"""
    if n <= maxpoints:
        return list(range(1, n + 1))
    step = (n - 1) / float(maxpoints - 1)
    return sorted(set(int(round(1 + i * step)) for i in range(maxpoints)))


def bounded(tier, seed):
    t0 = time.time()
    M.setup_vocabulary()
    col = M.Collector()
    F = M.cache_factories()
    standins = []
    quick = tier == "quick"
    pairs = PAIRS[:6] if quick else PAIRS
    main = ["MemoryCache", "FileCache", "SQLCache.from_sqlite", "StoreCache(MemoryStore)"]
    for kind, factory in F.items():
        if kind == "NoCache":
            continue
        file_kind = ("File" in kind)
        n0 = col.evaluations
        # ---- cache-operation granularity, B atomically inside A
        for (qa, qb) in pairs:
            na = count_ops(factory, qa, False)
            for k in points(na, (10000 if kind in main else 6) if quick else (10000 if kind in main else 16)):
                inline_scenario(col, kind, factory, qa, qb, k, False)
                col.nontrivial.add((kind, qa, qb, k, False))
        # ---- file open/write granularity
        if file_kind:
            fpairs = pairs[:4] if kind == "FileCache" else (pairs[:2] if quick else pairs[:3])
            for (qa, qb) in fpairs:
                na = count_ops(factory, qa, True)
                if kind == "FileCache":
                    mp = 10000
                elif "StoreCache" in kind:
                    mp = 20 if quick else 120
                else:
                    mp = 10 if quick else 40
                for k in sorted(set(points(na, mp)) | set(write_points(30 if quick else 80))):
                    inline_scenario(col, kind, factory, qa, qb, k, True)
                    col.nontrivial.add((kind, qa, qb, k, True))
        # ---- three evaluations
        if kind == "MemoryCache" or (not quick and kind in main[:2]):
            for (qa, qb) in pairs:
                qc = THIRD.get(qa)
                if qc is None:
                    continue
                na, nb = count_ops(factory, qa, False), count_ops(factory, qb, False)
                for k in points(na, 8 if quick else 25):
                    for j in points(nb, 5 if quick else 12):
                        inline_scenario(col, kind, factory, qa, qb, k, False, qc=qc, j=j)
        # ---- two threads, one preemption each
        if not any(x in kind for x in NOT_THREADABLE) and (kind in ("MemoryCache", "FileCache") or (not quick and kind in ("StoreCache(MemoryStore)", "MemoryCache+MemoryCache"))):
            for (qa, qb) in (pairs[:2] if quick else pairs[:4]):
                for file_level in ((False, True) if (file_kind and "StoreCache" not in kind) else (False,)):
                    if quick and file_level:
                        continue
                    na, nb = count_ops(factory, qa, file_level), count_ops(factory, qb, file_level)
                    for k in points(na, 8 if quick else 20):
                        for j in points(nb, 6 if quick else 14):
                            thread_scenario(col, kind, factory, qa, qb, k, j, file_level)
        # ---- two writers of the SAME key and a reader: A stopped before a rename, B stopped before a write, A finishes, C reads, B finishes
        if kind in ("FileCache", "StoreCache(FileStore)") or (not quick and file_kind and not any(x in kind for x in NOT_THREADABLE)):
            for qa, qc in (("hello", "hello/cat-a"), ("hello/cat-a", "hello/cat-a/cat-b")):
                qb = qa
                count_ops(factory, qa, True)
                reps = [i + 1 for i, nm in enumerate(LAST_OPS) if nm == "file.replace"]
                wrs = [i + 1 for i, nm in enumerate(LAST_OPS) if nm == "file.write"]
                if quick:
                    reps, wrs = reps[-8:], wrs[-8:]
                wrs = sorted(set(wrs) | set(w + 1 for w in wrs))     # B's own operation count may be shifted by one against the solo run
                for k in reps:
                    for j in wrs:
                        thread_scenario(col, kind, factory, qa, qb, k, j, True, qc=qc)
                        col.nontrivial.add((kind, qa, qb, k, j, "same-key writers"))
        standins.append(M.standin("%s: interleavings of overlapping evaluations" % kind,
                                  "%d query pairs; B atomically at %s cache operation of A%s%s" % (
                                      len(pairs), "every" if (not quick or kind in main) else "6 evenly spread",
                                      " (+ file open/write points)" if file_kind else "",
                                      ("; 3 evaluations; 2-thread (k, j) schedules with one preemption each" if kind in ("MemoryCache", "FileCache") else "")
                                      + ("; two writers of one key stopped at each (rename, write) pair with a reader in between" if kind in ("FileCache", "StoreCache(FileStore)") or (not quick and file_kind) else "")),
                                  col.evaluations - n0, False))
    return dict(evaluations=col.evaluations, distinct_nontrivial=len(col.nontrivial),
                rule="the shared cache is wrapped so that a scheduler runs before every cache operation (for file-backed caches also before every open()/write() "
                     "of liquer.cache / liquer.store and every os.replace): B (and C) run to completion inside A at each operation index k; for thread-usable kinds A and B also run "
                     "in two threads with a token scheduler (A to op k, B to op j, A to end, B to end); results compared with stand-alone NoCache outcomes, "
                     "all keys inspected afterwards; sqlite caches are excluded from thread mode (connections are thread-bound); evaluations = schedules; wall %.0fs"
                     % (time.time() - t0),
                standins=standins, violations=col.violations())


def replay(doc):
    inp = doc.get("inputs") or {}
    qa, qb = inp.get("query"), inp.get("other_query")
    if not isinstance(qa, str):
        return dict(confirmed=False, note="no replay scenario: inputs carry no query text")
    if not isinstance(qb, str):
        qb = qa
    try:
        M.parse(qa)
        M.parse(qb)
    except Exception as e:
        return dict(confirmed=False, note="query does not parse: %s" % e)
    M.setup_vocabulary()
    col = M.Collector()
    F = M.cache_factories()
    kind = inp.get("cache") if inp.get("cache") in F else "MemoryCache"
    fl = "File" in kind
    na = count_ops(F[kind], qa, fl)
    ks = [inp["k"]] if isinstance(inp.get("k"), int) else range(1, na + 1)
    for k in ks:
        inline_scenario(col, kind, F[kind], qa, qb, k, fl)
    v = col.violations()
    return dict(confirmed=bool(v), violations=v)
