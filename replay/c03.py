"""C03: replay + labelled *bounded* stand-in -- any text can be passed as an argument; encoded arguments are URL-path safe.

Run-time contract checked against the real liquer.parser:
  T1  decode_token(encode_token(s)) == s
  T2  encode_token(s) (== StringActionParameter(s).encode()) consists only of RFC 3986 pchar characters other than the
      separators (ALPHA DIGIT . _ ~ ! $ & ' ( ) * + , ; = : @ and %XX) and contains no '/', no '-' and no space
  T3  decode(encode(ql)) == ql for lists of lists of tokens whose first tokens are non-empty
  P1  parse(q.encode()) gives the same argument strings back at the same positions, for q built with
      Query().with_action / ActionRequest.from_arguments (1-3 actions, every argument position), with the string inside
      nested links (depth 1-3) and as a parameter of a transform / resource segment header
over (i) every Unicode scalar value as a one-character string, (ii) every string up to length 3/4 over the structurally
significant alphabet, (iii) seeded random longer strings with protocol prefixes, entity and percent-escape look-alikes."""
import itertools
import random
import re
import time

from liquer.parser import (parse, encode_token, decode_token, encode, decode, Query, TransformQuerySegment, ResourceQuerySegment,
                           SegmentHeader, ActionRequest, StringActionParameter, LinkActionParameter, ResourceName)

ALPHABET = ["~", "%", "/", "-", "+", ":", " ", ".", "_", "h", "t", "p", "s", "f", "i", "l", "e", "H", "P", "I", "E", "X", "0", "1", "A", "é"]
SAFE = re.compile(r"(?:[A-Za-z0-9._~!$&'()*+,;=:@]|%[0-9A-Fa-f]{2})*\Z")
PIECES = ["http://", "https://", "file://", "://", "~X~", "~E", "~H", "~h", "~f", "~P", "~I", "~.", "~_", "~~", "~/", "~5", "~", "%41", "%2F", "%7E",
          "%7e", "%zz", "%", "%2", "%25", "/", "-", "--", " ", "+", ":", ":/", "//", ".", "..", "_", "http:", "https:/", "file:", "R", "-R", "x", "A", "0",
          "1.5", "-1", "é", "€", "\U0001F600", "\u0000", "\n", "\t", "\u007f", "\u0080", "\u00a0", "\u200b", "\ufeff", "\ufffd", "\U0010ffff",
          "?", "#", "&", "=", "\\", "\"", "'", "<", ">", "[", "]", "{", "}", "|", "^", "`", "@", "!", "$", "(", ")", "*", ",", ";", "é", "query"]

LOOKALIKES = ["~X~a~E", "~X~abc~E", "~X~value-1~E", "~X~/a/b~E", "~X~a/b-c~E", "~X~~E", "~X~~X~a~E~E", "x~X~a~E", "~X~a~Ex", "~E~X~", "~X~-R/a~E",
              "~X~a", "a~E", "-R", "-R-meta", "--x", "-", "ns-x", "~H", "~Ha", "~X~a~E-~X~b~E", "%7EX%7Ea%7EE", "~x~a~e"]

K_RECURSION = ("decode_token recurses once per '~' entity: a token with about 1000 or more escaped characters (e.g. ' ' * 1000) makes "
               "decode_token(encode_token(s)) / decode(encode([[s]])) raise RecursionError")
K_RESHEADER_EMPTY = ("resource segment header parameters are separated by Word('-'): an empty-string parameter followed by another one "
                     "(SegmentHeader(resource=True, parameters=['', 'p']) -> '-R--p/x') is dropped by parse, and ['', ''] comes back as ['']")
K_RTQ = ("a leading transform segment without header followed by a segment with a header is re-read by parse() as a resource path when its "
         "canonical text is resource-name safe: 'a-%41/-/c' is two transform segments, its canonical text 'a-A/-/c' is resource 'a-A' + transform")


class Collector:
    """Keeps, per root cause (known label) or else per (function, contract), the two smallest witnesses and the number of instances."""
    def __init__(self):
        self.groups = {}
        self.counts = {}
        self.n = 0

    def add(self, contract, function, known=None, size=0, **witness):
        key = known or (function, contract)
        self.counts[key] = self.counts.get(key, 0) + 1
        self.n += 1
        v = dict(contract=contract, function=function, **witness)
        if known:
            v["known"] = known
        g = self.groups.setdefault(key, [])
        wid = (function, witness.get("s") or witness.get("strings") or witness.get("ql"))
        if any((x[2]["function"], x[2].get("s") or x[2].get("strings") or x[2].get("ql")) == wid for x in g):
            return
        g.append((size, self.n, v))
        g.sort(key=lambda x: (x[0], x[1]))
        del g[2:]

    def result(self, limit=8):
        out = []
        keys = sorted(self.groups, key=lambda k: (isinstance(k, str), str(k)))       # unlabelled first
        for rank in (0, 1):
            for key in keys:
                g = self.groups[key]
                if rank < len(g) and len(out) < limit:
                    out.append(dict(g[rank][2], instances=self.counts[key]))
        return out


def show(s):
    return ascii(s)


# ---------------------------------------------------------------- token level
def token_check(s, col):
    """T1 + T2 for one string; returns True when both hold."""
    ok = True
    try:
        e = encode_token(s)
    except Exception as ex:
        col.add("T1 decode_token(encode_token(s)) == s", "encode_token", size=len(s), s=show(s), observed="raised %s" % type(ex).__name__)
        return False
    if not SAFE.match(e):       # the class contains neither '/', '-' nor ' ' 
        col.add("T2 encoded argument is URL-path safe and has no bare separator", "encode_token", size=len(s), s=show(s), encoded=show(e))
        ok = False
    try:
        d = decode_token(e)
    except RecursionError:
        col.add("T1 decode_token(encode_token(s)) == s", "decode_token", known=K_RECURSION, size=len(s), s=show(s[:20]) + ("... (length %d)" % len(s)),
                observed="RecursionError")
        return False
    except Exception as ex:
        col.add("T1 decode_token(encode_token(s)) == s", "decode_token", size=len(s), s=show(s), encoded=show(e), observed="raised %s" % type(ex).__name__)
        return False
    if d != s:
        col.add("T1 decode_token(encode_token(s)) == s", "decode_token", size=len(s), s=show(s), encoded=show(e), observed=show(d))
        ok = False
    return ok


def lol_check(tokens, col):
    """T3 on a list of lists made of the given tokens (first token of each command forced non-empty)."""
    ql = []
    for i in range(0, len(tokens), 4):
        cmd = list(tokens[i:i + 4])
        if cmd[0] == "":
            cmd[0] = "n"
        ql.append(cmd)
    try:
        good = decode(encode(ql)) == ql
    except RecursionError:
        good = False
    except Exception:
        good = False
    if good:
        return 1
    # minimal witness: single commands, then single tokens
    for cmd in ql:
        for cand in [[cmd[0]]] + [["n", t] for t in cmd[1:]] + [cmd]:
            try:
                got = decode(encode([cand]))
                obs = show(got)
            except RecursionError:
                col.add("T3 decode(encode(ql)) == ql", "decode", known=K_RECURSION, size=sum(map(len, cand)),
                        ql="[[... token of length %d ...]]" % max(map(len, cand)), observed="RecursionError")
                break
            except Exception as ex:
                got, obs = None, "raised %s" % type(ex).__name__
            if got != [cand]:
                col.add("T3 decode(encode(ql)) == ql", "decode", size=sum(map(len, cand)), ql=show([cand]), encoded=show(encode([cand])), observed=obs)
                break
    return 1


# ---------------------------------------------------------------- parse level
def args_of(q):
    """All argument strings of a parsed/constructed query, in order, with their positions (explicit walk)."""
    out = []

    def par(p, path):
        if isinstance(p, LinkActionParameter):
            walk(p.link, path + "~X~")
        elif isinstance(p, StringActionParameter):
            out.append((path, p.string))
        else:
            out.append((path, "<%s>" % type(p).__name__))

    def walk(query, prefix):
        out.append((prefix + "abs", bool(query.absolute)))
        out.append((prefix + "nseg", len(query.segments)))
        for i, seg in enumerate(query.segments):
            sp = "%sseg%d" % (prefix, i)
            out.append((sp + ".type", type(seg).__name__))
            h = seg.header
            if h is None:       # no header == the trivial header of the segment kind (SegmentHeader.is_trivial)
                out.append((sp + ".header", (1, "", isinstance(seg, ResourceQuerySegment), 0)))
            else:
                out.append((sp + ".header", (h.level, h.name, bool(h.resource), len(h.parameters))))
                for j, p in enumerate(h.parameters):
                    par(p, "%s.hp%d" % (sp, j))
            if isinstance(seg, TransformQuerySegment):
                out.append((sp + ".nact", len(seg.query)))
                for k, a in enumerate(seg.query):
                    out.append(("%s.a%d.name" % (sp, k), (a.name, len(a.parameters))))
                    for j, p in enumerate(a.parameters):
                        par(p, "%s.a%d.p%d" % (sp, k, j))
            else:
                out.append((sp + ".path", tuple(x.encode() for x in seg.query)))
    walk(q, "")
    return out


def q_actions(shape, strings, headerless=False):
    """Query with len(shape) actions, action k having shape[k] string arguments taken from `strings` in order."""
    it = iter(strings)
    if headerless:
        acts = [ActionRequest.from_arguments("a%d" % k, *[next(it) for _ in range(n)]) for k, n in enumerate(shape)]
        return Query([TransformQuerySegment(query=acts)])
    q = Query()
    for k, n in enumerate(shape):
        q.with_action("a%d" % k, *[next(it) for _ in range(n)])
    return q


def q_nested(depth, strings):
    """strings[0], strings[1] are arguments of the innermost action of a link nested `depth` deep; strings[2] follows the link."""
    inner = Query().with_action("inner", strings[0], strings[1])
    for d in range(depth - 1):
        inner = Query().with_action("mid%d" % d, LinkActionParameter(inner), "z")
    return Query().with_action("outer", "y", LinkActionParameter(inner), strings[2])


def q_theader(strings, level):
    h = SegmentHeader("ns", level, [StringActionParameter(s) for s in strings])
    return Query([TransformQuerySegment(h, [ActionRequest.from_arguments("a", "b")])])


def q_rheader(strings, level, name):
    h = SegmentHeader(name, level, [StringActionParameter(s) for s in strings], resource=True)
    return Query([ResourceQuerySegment(h, [ResourceName("dir"), ResourceName("f.txt")])])


def q_rtq(strings):
    first = TransformQuerySegment(query=[ActionRequest.from_arguments("a", strings[0], strings[1])])
    second = TransformQuerySegment(SegmentHeader("x"), [ActionRequest.from_arguments("b", "c")])
    return Query([first, second])


def roundtrip(q):
    """None when parse(q.encode()) returns the same argument strings at the same positions, else a description."""
    exp = args_of(q)
    try:
        text = q.encode()
    except Exception as ex:
        return "<encode raised %s>" % type(ex).__name__, "encode raised", None
    try:
        got = args_of(parse(text))
    except RecursionError:
        return text, "parse raised RecursionError", None
    except Exception as ex:
        return text, "parse rejected the encoded query (%s)" % type(ex).__name__, None
    if got == exp:
        return None
    for a, b in zip(exp, got):
        if a != b:
            return text, "at %s expected %s got %s" % (a[0], show(a[1]), show(b[1]) if b[0] == a[0] else show(b)), a
    return text, "expected %d items got %d" % (len(exp), len(got)), None


FORMS = {}


def form(name, arity):
    def deco(f):
        FORMS[name] = (f, arity)
        return f
    return deco


for _shape in [(1,), (2,), (3,), (1, 1), (1, 2), (2, 1), (1, 1, 1), (1, 2, 3), (3, 2, 1)]:
    FORMS["with_action%s" % (_shape,)] = ((lambda ss, sh=_shape: q_actions(sh, ss)), sum(_shape))
    FORMS["from_arguments%s" % (_shape,)] = ((lambda ss, sh=_shape: q_actions(sh, ss, True)), sum(_shape))
for _d in (1, 2, 3):
    FORMS["link depth %d" % _d] = ((lambda ss, d=_d: q_nested(d, ss)), 3)
for _l in (1, 2, 3):
    for _n in (1, 2, 3):
        FORMS["transform header level %d, %d params" % (_l, _n)] = ((lambda ss, l=_l: q_theader(ss, l)), _n)
        FORMS["resource header level %d, %d params" % (_l, _n)] = ((lambda ss, l=_l: q_rheader(ss, l, "" if l == 1 else "nm")), _n)
FORMS["headerless segment + headed segment"] = (q_rtq, 2)
QUICK_FORMS = ["with_action(1,)", "with_action(1, 2)", "with_action(1, 2, 3)", "from_arguments(3,)", "from_arguments(2, 1)", "from_arguments(1, 1, 1)",
               "link depth 1", "link depth 2", "link depth 3", "transform header level 1, 3 params", "transform header level 2, 1 params",
               "resource header level 1, 3 params", "resource header level 3, 2 params", "headerless segment + headed segment"]
FILL = ["f0", "f1", "f2", "f3", "f4", "f5"]


def classify(fname, strings, detail):
    if fname.startswith("resource header") and len(strings) > 1 and any(s == "" for s in strings[:-1]):
        return K_RESHEADER_EMPTY
    if fname.startswith("headerless segment") and "seg0.type" in str(detail):
        return K_RTQ
    return None


def place(strings, forms, col, stats):
    """Place the strings at every argument position of every form: positions are all filled with test strings and rotated,
    so each string visits each position; on a failure each string is retried alone between plain fillers (minimal witness)."""
    for fname in forms:
        build, arity = FORMS[fname]
        for start in range(0, len(strings), arity):
            block = strings[start:start + arity]
            while len(block) < arity:
                block = block + [FILL[len(block)]]
            for r in range(arity):
                ss = block[r:] + block[:r]
                stats["parses"] += 1
                stats["placements"] += arity
                try:
                    built = build(ss)
                except Exception as ex:
                    col.add("P0 a text handed to with_action / from_arguments stays a string argument with that text", "parse/encode: " + fname.split(" level")[0].split("(")[0],
                            size=sum(map(len, ss)) * 10, form=fname, strings=show(ss), observed="the builder raised %s: %s" % (type(ex).__name__, str(ex)[:80]))
                    continue
                # P0: the builders keep every given text as a *string* argument with exactly that text (never re-read as a link / entity)
                kept = [v for (pth, v) in args_of(built) if isinstance(v, str) and (".p" in pth or ".hp" in pth)]
                lost = [x for x in ss if x not in kept]
                if lost:
                    col.add("P0 a text handed to with_action / from_arguments stays a string argument with that text", "parse/encode: " + fname.split(" level")[0].split("(")[0],
                            size=len(lost[0]) * 10, form=fname, s=show(lost[0]), arguments_of_the_built_query=show(kept[:6]))
                    continue
                bad = roundtrip(built)
                if bad is None:
                    continue
                found = False
                for pos in range(arity):           # minimal witness: one test string, plain fillers
                    single = FILL[:arity]
                    single[pos] = ss[pos]
                    stats["parses"] += 1
                    b1 = roundtrip(build(single))
                    if b1 is not None:
                        found = True
                        col.add("P1 parse(q.encode()) returns the same argument strings", "parse/encode: " + fname.split(" level")[0].split("(")[0],
                                known=classify(fname, single, b1[1]), size=len(ss[pos]) * 10 + pos, form=fname, position=pos, s=show(ss[pos]),
                                encoded_query=show(b1[0][:200]), observed=b1[1])
                if not found:
                    col.add("P1 parse(q.encode()) returns the same argument strings", "parse/encode: " + fname.split(" level")[0].split("(")[0],
                            known=classify(fname, ss, bad[1]), size=sum(map(len, ss)) * 10 + 5, form=fname, strings=show(ss),
                            encoded_query=show(bad[0][:200]), observed=bad[1])


def packed_parse(strings, col, stats, pack=96):
    """Every string as an argument of one action through parse (packed `pack` per query; bisected on failure)."""
    def good(ss):
        stats["parses"] += 1
        q = Query().with_action("a", *ss)
        try:
            p = parse(q.encode())
            a = p.segments[0].query[0]
            return (len(p.segments) == 1 and len(p.segments[0].query) == 1 and a.name == "a" and len(a.parameters) == len(ss)
                    and all(isinstance(x, StringActionParameter) and x.string == s for x, s in zip(a.parameters, ss)))
        except Exception:
            return False

    def bisect(ss):
        if good(ss):
            return
        if len(ss) == 1:
            q = Query().with_action("a", ss[0])
            try:
                obs = show([getattr(x, "string", "<link>") for x in parse(q.encode()).segments[0].query[0].parameters])
            except Exception as ex:
                obs = "parse raised %s" % type(ex).__name__
            col.add("P1 parse(q.encode()) returns the same argument strings", "parse/encode: with_action", size=len(ss[0]), form="with_action(1,)",
                    s=show(ss[0]), encoded_query=show(q.encode()[:200]), observed=obs)
            return
        h = len(ss) // 2
        bisect(ss[:h])
        bisect(ss[h:])
    for i in range(0, len(strings), pack):
        bisect(strings[i:i + pack])
        stats["packed"] += len(strings[i:i + pack])


def scalars(lo=0, hi=0x110000, step=1):
    for cp in range(lo, hi, step):
        if 0xD800 <= cp <= 0xDFFF:
            continue
        yield chr(cp)


def random_string(rng, maxpieces=12):
    n = rng.randint(2, maxpieces)
    out = []
    for _ in range(n):
        r = rng.random()
        if r < 0.6:
            out.append(rng.choice(PIECES))
        elif r < 0.8:
            out.append(rng.choice(ALPHABET))
        elif r < 0.9:
            out.append(chr(rng.choice([rng.randint(0, 0x7f), rng.randint(0x80, 0x7ff), rng.randint(0x800, 0xd7ff), rng.randint(0xe000, 0xffff),
                                       rng.randint(0x10000, 0x10ffff)])))
        else:
            out.append("%%%02X" % rng.randint(0, 255))
    return "".join(out)


def bounded(tier, seed):
    quick = tier == "quick"
    t0 = time.time()
    limit = 52 if quick else 540          # safety net only: the sizes below are chosen to finish well inside the tier budget
    rng = random.Random(seed)
    col = Collector()
    stats = dict(parses=0, placements=0, packed=0)
    standins = []
    evaluations = 0

    # ---- token level (T1, T2, T3) -------------------------------------------------------------------------------------
    # (i) every Unicode scalar value
    n = nblock = 0
    block = []
    for s in scalars():
        token_check(s, col)
        block.append(s)
        n += 1
        if len(block) == 64:
            nblock += 1
            if not quick or n <= 0x3000 or nblock % 8 == 0:
                lol_check(block, col)
            block = []
    if block:
        lol_check(block, col)
    evaluations += n
    standins.append(dict(name="(i) T1,T2 for every Unicode scalar value as a one-character token; T3 on lists of lists of them", labelled="bounded",
                         bound="all %d scalar values U+0000..U+10FFFF without surrogates%s" % (
                             n, " (T3: all below U+3000 and every 8th block of 64 above)" if quick else ""), cases=n, exhaustive=True))
    # (ii) all short strings over the structurally significant alphabet
    maxlen_tok = 3 if quick else 4
    n = 0
    block = []
    short = []
    for ln in range(0, maxlen_tok + 1):
        for tup in itertools.product(ALPHABET, repeat=ln):
            s = "".join(tup)
            token_check(s, col)
            n += 1
            block.append(s)
            if len(block) == 64:
                lol_check(block, col)
                block = []
            short.append(s)
    if block:
        lol_check(block, col)
    evaluations += n
    standins.append(dict(name="(ii) T1,T2,T3 for all strings over the %d-character significant alphabet" % len(ALPHABET), labelled="bounded",
                         bound="all strings of length <= %d over %s" % (maxlen_tok, "".join(ALPHABET)), cases=n, exhaustive=True))
    # (iii) random longer strings
    nrand_tok = 20000 if quick else 100000
    longs = []
    block = []
    for i in range(nrand_tok):
        s = random_string(rng, 12 if i % 10 else 60)
        token_check(s, col)
        block.append(s)
        if len(block) == 32:
            lol_check(block, col)
            block = []
        longs.append(s)
    evaluations += nrand_tok
    standins.append(dict(name="(iii) T1,T2,T3 for seeded random longer strings", labelled="bounded",
                         bound="%d random concatenations of 2-60 pieces (protocol prefixes, entity and percent-escape look-alikes, separators, "
                               "random scalars); seed %d" % (nrand_tok, seed), cases=nrand_tok, exhaustive=False))
    # long texts (many escaped characters)
    n = 0
    for unit in (" ", "-", "/", "~", "a b", "\u00e9 "):
        for reps in (100, 400, 1600, 6400):
            s = unit * reps
            n += 1
            if not token_check(s, col):
                lo, hi = 1, reps                      # smallest failing repetition count of this unit
                while lo < hi:
                    mid = (lo + hi) // 2
                    try:
                        bad = decode_token(encode_token(unit * mid)) != unit * mid
                    except Exception:
                        bad = True
                    if bad:
                        hi = mid
                    else:
                        lo = mid + 1
                col.add("T1 decode_token(encode_token(s)) == s", "decode_token", known=K_RECURSION, size=0,
                        s="%s * %d (smallest failing repetition)" % (show(unit), lo), observed="RecursionError")
                lol_check(["n", unit * lo], col)
                break
            lol_check(["n", s], col)
        if not quick or unit in (" ", "-", "~"):
            place([unit * (100 if quick else 300), unit * (500 if quick else 1200)],
                  ["with_action(1, 2)", "link depth 2", "transform header level 1, 3 params"], col, stats)
    evaluations += n
    standins.append(dict(name="long texts: T1,T3 and P1 for repeated separators/escapes", labelled="bounded",
                         bound="' ', '-', '/', '~', 'a b', 'e-acute space' repeated 100..6400 times as one token; %s times as query argument" % (
                             "100 and 500" if quick else "300 and 1200"), cases=n, exhaustive=False))

    # ---- parse level (P1): every argument position --------------------------------------------------------------------
    placed = [s for s in short if len(s) <= (1 if quick else 2)]
    nshort = len(placed)
    ntwo = 0
    if quick:
        twos = [s for s in short if len(s) == 2]
        rng.shuffle(twos)
        ntwo = 100
        placed += twos[:ntwo]
    nlong = 160 if quick else 800
    placed += longs[:nlong]
    # whole-argument look-alikes of the text of a link / entity / header (an argument that *is* such a text must stay a string)
    placed += LOOKALIKES
    forms = QUICK_FORMS if quick else list(FORMS)
    done = 0
    before = stats["placements"]
    for i in range(0, len(placed), 60):
        if time.time() - t0 > limit * 0.6:
            break
        place(placed[i:i + 60], forms, col, stats)
        done += len(placed[i:i + 60])
    # '', 'p' and '-' in every combination in every form (the empty string next to other parameters)
    for fname in forms:
        build, arity = FORMS[fname]
        for tup in itertools.product(["", "p", "-"], repeat=arity):
            stats["parses"] += 1
            stats["placements"] += arity
            bad = roundtrip(build(list(tup)))
            if bad is not None:
                col.add("P1 parse(q.encode()) returns the same argument strings", "parse/encode: " + fname.split(" level")[0].split("(")[0],
                        known=classify(fname, list(tup), bad[1]), size=sum(map(len, tup)) * 10 + arity, form=fname, strings=show(list(tup)),
                        encoded_query=show(bad[0][:200]), observed=bad[1])
    evaluations += stats["placements"] - before
    standins.append(dict(name="P1 strings at every argument position: 1-3 actions (with_action / from_arguments), links nested 1-3 deep, "
                              "transform and resource segment-header parameters", labelled="bounded",
                         bound="%d of %d strings (all %d of length <= %d over the alphabet, %d more of length 2, %d random long) rotated through every position "
                               "of %d query forms; all combinations of '', 'p', '-' in every form" % (
                                   done, len(placed), nshort, 1 if quick else 2, ntwo, nlong, len(forms)),
                         cases=stats["placements"] - before, exhaustive=False))

    # ---- parse level (P1): bulk, as arguments of one action -----------------------------------------------------------
    def bulk(name, strings, bound, exhaustive, pack=96):
        before = stats["packed"]
        complete = True
        for i in range(0, len(strings), 4096):
            if time.time() - t0 > limit:
                complete = False
                break
            packed_parse(strings[i:i + 4096], col, stats, pack)
        standins.append(dict(name=name, labelled="bounded", bound=bound + ("" if complete else " (cut short by the time limit)"),
                             cases=stats["packed"] - before, exhaustive=bool(exhaustive and complete)))
        return stats["packed"] - before

    maxlen_parse = 3 if quick else 4
    evaluations += bulk("(ii) P1 short strings as arguments through with_action and parse", [s for s in short if len(s) <= maxlen_parse],
                        "all strings of length <= %d over the alphabet" % maxlen_parse, True)
    if quick:
        cps = list(scalars(0, 0x1000)) + list(scalars(0x1000, 0x110000, 197))
        bound = "every scalar value below U+1000 and every 197th above, each a one-character argument of with_action, through parse"
    else:
        cps = list(scalars(0, 0x10000)) + list(scalars(0x10000, 0x110000, 5))
        bound = "every scalar value of the basic plane and every 5th above, each a one-character argument of with_action, through parse"
    evaluations += bulk("(i) P1 one-character arguments through Query().with_action(...).encode() and parse", cps, bound, False)
    nl = 1500 if quick else 12000
    evaluations += bulk("(iii) P1 random longer strings as arguments through with_action and parse", longs[:nl],
                        "the first %d of the random strings" % nl, False, pack=32)
    return dict(evaluations=evaluations, distinct_nontrivial=max(2, len(forms) + 4),
                rule="token level: encode_token/decode_token/encode/decode round trip and RFC 3986 path-segment character check on every Unicode scalar "
                     "value, every string of length <= %d over the 26 significant characters and seeded random long strings; parse level: the same kinds "
                     "of strings as arguments of programmatically built queries (rotated through every argument position of 1-3 action queries, nested "
                     "links, segment-header parameters; packed into one action and bisected on failure), comparing every argument string of "
                     "parse(q.encode()) with the one put in; %d parses; distinct = query forms + string families" % (maxlen_tok, stats["parses"]),
                standins=standins, violations=col.result())


def _strings(x, out):
    if isinstance(x, str):
        out.append(x)
    elif isinstance(x, dict):
        for v in x.values():
            _strings(v, out)
    elif isinstance(x, (list, tuple)):
        for v in x:
            _strings(v, out)


def replay(doc):
    """Every string of the counter-model is tried as a token and as an argument at the positions of the bounded forms."""
    strings = []
    _strings(doc.get("inputs") or {}, strings)
    strings = [s for s in dict.fromkeys(strings) if not any(0xD800 <= ord(c) <= 0xDFFF for c in s)]
    if not strings:
        return dict(confirmed=False, note="no string in the counter-model inputs")
    col = Collector()
    stats = dict(parses=0, placements=0, packed=0)
    fn = str(doc.get("obligation", "")).split("#")[0]
    token_level = fn.endswith(("encode_token", "decode_token", "parser.encode", "parser.decode"))
    for s in strings:
        token_check(s, col)
        lol_check(["n", s, s], col)
        if s:
            lol_check([s], col)
    if not token_level:         # obligations about parameters / parse: the strings at every argument position of every form
        place(strings, list(FORMS), col, stats)
    v = col.result()
    return dict(confirmed=bool(v), inputs=dict(strings=[show(s) for s in strings[:6]]), violations=v[:4])
