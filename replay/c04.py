"""C04: labelled *bounded* stand-in - cache transparency.  For every provided cache kind the outcome of evaluating a target
query (value/failure, volatility, final vars, file name, extension) with a cold cache, with a cache warmed by histories
of related evaluations (prefixes, extensions, link sub-queries, other spellings, runs with an injected input value or
extra parameters), and after removals / clean, must equal the outcome with NoCache."""
import time

from replay import evalmodel as M

CONTRACT = "outcome(q | cache, history) == outcome(q | NoCache): value/failure, volatile, vars, filename, extension"
FIELDS = ("value", "volatile", "vars", "filename", "extension")

K_INPUT = ("Context.evaluate(q, input_value=v) called without input_value_specified=True (as tests/test_context.py::test_initial_value does) "
           "stores the input-dependent result in the cache under the plain key q (context.py:1029-1040,1109-1118: the NoCache substitution and "
           "the lookup bypass test different conditions); a later plain evaluate(q) is served the value computed from v")

K_GLOBALMETA = ("Context.evaluate does not forward its cache argument to evaluate_action (context.py:1105 vs 659), which therefore writes the final metadata "
                "(status ready) of an evaluate_on(..., extra_parameters=) run - which must not touch the cache - into the GLOBAL cache; on an existing "
                "finished entry of a conditional MemoryCache (its condition rejects the attribute-less 'expired' marker that otherwise invalidates the "
                "entry) the entry keeps its data but gets the volatile run's metadata: the next plain evaluate(q) is served with volatile=True")

TARGETS = [
    "one/add-2/add-3", "coll-a/push-b", "add-3", "hello-a~Ib/cat", "dct/setkey", "one/vol-1/add-2", "one/nocache/add-1",
    "one/fail/add-1", "one/let-v-x/add-~X~add-1~E/state_variable-v", "lst-a/poplen/add-1", "one/add-2/out.txt", "one/cap/low/add-1",
    "lst-a-b/push/push-q", "hello/cat-~X~/num-3~E", "one/ns-second/add-3", "lst-a-b/appendvar/state_variable-lv", "one/sub",
    # thorough only
    "one/nocache2/add-2", "one/cset-w-cw/state_variable-w", "num-~X~/one/add-2~E/add-1", "vfirst/add-1", "one/low", "one/cap", "one/ns-second/sec/add",
    "gen/coll-z", "hello/st/x.TXT", "one/add-~X~/one/fail~E", "lst-a/push/coll-~X~push-b~E-~X~/lst-c/push~E", "dct/setkey-z-9/setkey", "one/mul-2.5/tog-t",
    "/one/add-2", "one/add-x/add-1", "nosuch/add-1", "one/sub-" + M.encode_token("hello/let-v-sv/st"),
]
QUICK_TARGETS = 8
MAIN_KINDS = ["MemoryCache", "FileCache", "SQLCache.from_sqlite", "StoreCache(MemoryStore)"]


def expected_of(q, memo={}):
    if q not in memo:
        memo[q] = M.run(q)
    return memo[q]


def expected_op(op, memo={}):
    """the outcome of one evaluating operation without any cache"""
    k = repr(op)
    if k not in memo:
        from liquer.cache import NoCache
        memo[k] = M.apply_op(NoCache(), op, "argument")
    return memo[k]


LAST_OPS = []


def play(factory, q, history, mode):
    """fresh cache, play history, evaluate q; returns observed outcome (the outcomes of the evaluating operations of the history
    itself are left in LAST_OPS)"""
    c, cleanup = M.quiet(factory)
    del LAST_OPS[:]
    try:
        for op in history:
            o = M.apply_op(c, op, mode)
            if op[0].startswith("eval"):
                LAST_OPS.append((op, o))
        return M.apply_op(c, ["eval", q], mode)
    finally:
        M.quiet(cleanup)


def classify(q, history, obs, exp):
    if any(op[0] == "eval_input" for op in history):
        sim = M.PollutedSim().play(history)
        _calls, fr = sim.run(q)
        if fr is not None and obs.ok and M.same_value(M._simple(fr.value), M._simple(obs.value)):
            return K_INPUT
    d = M.outcome_diff(exp, obs, FIELDS)
    if [(f, a, b) for f, a, b in d] == [("volatile", False, True)] and any(op[0] in ("eval_on_extra",) for op in history):
        return K_GLOBALMETA
    return None


def check(col, kind, factory, q, history, mode):
    obs = play(factory, q, history, mode)
    exp = expected_of(q)
    col.evaluations += 1
    # every evaluating operation of the history is itself an evaluation "with any cache, any earlier history": same outcome as without
    # (an injected input value is left out: what it is allowed to leave behind is C05's subject and a recorded finding)
    for i, (op, o) in enumerate(list(LAST_OPS)):
        if op[0] in ("eval", "eval_extra") and not any(h[0] in ("eval_on", "eval_input", "eval_on_extra") for h in history[:i + 1]):
            d_op = M.outcome_diff(expected_op(op), o, FIELDS)
            if d_op:
                col.add(CONTRACT, "Context.evaluate / %s" % kind, query=op[-1], cache=kind, cache_configured_as=mode, history=history[:history.index(op)],
                        operation=op, differences=[dict(field=a, expected=b, observed=c) for a, b, c in d_op])
                return False
    d = M.outcome_diff(exp, obs, FIELDS)
    if not d:
        return True
    known = classify(q, history, obs, exp)
    if known and known in col.known and len(history) >= len(col.known[known].get("history", [])):
        col.known[known]["instances"] += 1
        return False

    def still(h):
        o = play(factory, q, h, mode)
        return bool(M.outcome_diff(exp, o, FIELDS))
    h = M.shrink_history(history, still)
    obs = play(factory, q, h, mode)
    d = M.outcome_diff(exp, obs, FIELDS)
    col.add(CONTRACT, "Context.evaluate / %s" % kind, known=classify(q, h, obs, exp), query=q, cache=kind, cache_configured_as=mode, history=h,
            differences=[dict(field=a, expected=b, observed=c) for a, b, c in d])
    return False


def ops_of(q):
    ops = M.related_ops(q)
    canon = M.parse(q).encode()
    return ops


def bounded(tier, seed):
    import random
    t0 = time.time()
    M.setup_vocabulary()
    col = M.Collector()
    rnd = random.Random(seed)
    F = M.cache_factories()
    targets = TARGETS[:QUICK_TARGETS] if tier == "quick" else TARGETS
    standins = []
    for kind, factory in F.items():
        n = 0
        modes = ("global", "argument") if kind in MAIN_KINDS else ("global",)
        for ti, q in enumerate(targets):
            if tier == "quick" and kind not in MAIN_KINDS and ti % 2 == 1 and ti > 2:
                continue
            ops = ops_of(q)
            for mode in modes:
                check(col, kind, factory, q, [], mode)
                n += 1
                for op in ops:
                    check(col, kind, factory, q, [op], mode)
                    n += 1
                    if op[0] in ("eval_on", "eval_input", "eval_extra", "eval_on_extra") and mode == "global":
                        # an input/extra run on top of a finished entry
                        check(col, kind, factory, q, [["eval", q], op], mode)
                        n += 1
                col.nontrivial.add((kind, q, mode))
        depth = 1
        pair_targets = []
        if kind == "MemoryCache":
            pair_targets = targets[:5] if tier == "quick" else targets[:17]
        elif tier != "quick" and kind in MAIN_KINDS + ["MemoryCache.if_attribute_equal(ns,root)"]:
            pair_targets = targets[:5]
        for q in pair_targets:
            ops = ops_of(q)
            depth = 2
            for op1 in ops:
                for op2 in ops:
                    check(col, kind, factory, q, [op1, op2], "global")
                    n += 1
        # seeded random longer histories
        nr = 3 if tier == "quick" else 40
        for _ in range(nr):
            q = rnd.choice(targets)
            ops = ops_of(q)
            h = [rnd.choice(ops) for _i in range(rnd.randint(3, 6))]
            check(col, kind, factory, q, h, rnd.choice(modes))
            n += 1
        standins.append(M.standin("%s: outcome after history == NoCache outcome" % kind,
                                  "%d target queries x all histories of length <= %d over the related-operation alphabet (prefixes, extensions, link "
                                  "sub-queries, spellings, input/extra runs, removals, clean) + %d random histories of length 3-6" % (len(targets), depth, nr),
                                  n, True))
    return dict(evaluations=col.evaluations, distinct_nontrivial=len(col.nontrivial),
                rule="for each of %d cache kinds/combinations (fresh cache per history; configured as the global cache, main kinds also passed as "
                     "evaluate(cache=)): cold evaluation and evaluation after every single related operation (pairs for the main kinds, random longer "
                     "histories) compared field by field with the NoCache outcome; a failing history is shrunk to a minimal one; distinct = "
                     "(kind, target, configuration) triples; wall %.0fs" % (len(F), time.time() - t0),
                standins=standins, violations=col.violations())


def replay(doc):
    inp = doc.get("inputs") or {}
    q = inp.get("query")
    if not isinstance(q, str):
        return dict(confirmed=False, note="no replay scenario: inputs carry no query text")
    try:
        M.parse(q)
    except Exception as e:
        return dict(confirmed=False, note="query does not parse: %s" % e)
    M.setup_vocabulary()
    col = M.Collector()
    F = M.cache_factories()
    kind = inp.get("cache") if inp.get("cache") in F else "MemoryCache"
    hist = inp.get("history")
    hists = [hist] if isinstance(hist, list) else [[]] + [[op] for op in ops_of(q)]
    for h in hists:
        check(col, kind, F[kind], q, h, inp.get("mode", "global"))
    v = col.violations()
    return dict(confirmed=bool(v), violations=v)
