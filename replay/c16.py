"""C16: labelled *bounded* stand-in - a crash at any file-system event of a file-backed write never leaves a corrupt readable entry.

The write operation runs in a forked child in which every file-system *effect* (open for writing = create/truncate, each write call,
unlink/remove, mkdir, rmdir, rename/replace, truncate, os.open/os.write) is an event; the child dies with os._exit at the n-th event
(before the effect takes place) or, for write events, after only a prefix of the data (1 byte, half, all but one) reached the file.
Every write is flushed at once, so the directory is exactly 'the first n effects'.  The parent enumerates all n, re-opens FRESH
cache/store objects on the directory and reads the entry: the result must be nothing (miss / KeyNotFound), the complete previous value
or the complete new value; a second entry stored beforehand must read exactly as before."""
import builtins
import io
import _io
import json
import os
import shutil
import tempfile

from liquer.cache import FileCache, XORFileCache, StoreCache
from liquer.state import State
from liquer.state_types import state_types_registry
from liquer.store import FileStore, KeyNotFoundStoreException

try:
    from cryptography.fernet import Fernet
    from liquer.cache import FernetFileCache
    FERNET_KEY = b"MDEyMzQ1Njc4OWFiY2RlZjAxMjM0NTY3ODlhYmNkZWY="      # urlsafe base64 of 32 fixed bytes
    Fernet(FERNET_KEY)
except Exception:       # pragma: no cover - cryptography missing
    FernetFileCache = None

ABSENT = ("<absent>",)


# =============================================================================================== child side: crash injection
class _C:
    n = None            # index of the event at which to die (None: count only)
    partial = None      # None | "1" | "half" | "allbut1"   (write events only)
    idx = 0
    log = []
    fd = None
    real = {}


def _report(obj):
    data = json.dumps(obj, default=str).encode("utf-8")
    w = _C.real["os.write"]
    while data:
        k = w(_C.fd, data)
        data = data[k:]


def _die(i, written=None):
    _report(dict(crashed=i, written=written, log=_C.log))
    os._exit(0)


def _event(kind, path, length=None):
    i = _C.idx
    _C.idx += 1
    _C.log.append([kind, str(path), length])
    return _C.n is not None and i == _C.n


def prefix_length(partial, length):
    if partial is None or length <= 1:
        return 0
    k = {"1": 1, "half": length // 2, "allbut1": length - 1}[partial]
    return max(0, min(k, length - 1))


class CrashFile:
    """A writable file whose every write() is a file-system event that reaches the file at once."""

    def __init__(self, f, path):
        self._f = f
        self._path = path

    def write(self, data):
        length = len(data)
        i = _C.idx
        if _event("write", self._path, length):
            k = prefix_length(_C.partial, length)
            if k:
                self._f.write(data[:k])
                self._f.flush()
            _die(i, written=k)
        r = self._f.write(data)
        self._f.flush()
        return r

    def writelines(self, lines):
        for x in lines:
            self.write(x)

    def truncate(self, *a):
        i = _C.idx
        if _event("truncate", self._path):
            _die(i)
        return self._f.truncate(*a)

    def __enter__(self):
        return self

    def __exit__(self, *a):
        self._f.close()
        return False

    def __iter__(self):
        return iter(self._f)

    def __getattr__(self, name):
        return getattr(self._f, name)


def _install(n, partial, fd):
    _C.n, _C.partial, _C.idx, _C.log, _C.fd = n, partial, 0, [], fd
    real_open = _io.open
    R = _C.real
    for name in ("write", "remove", "unlink", "rmdir", "mkdir", "rename", "replace", "truncate", "open", "link", "symlink"):
        R["os." + name] = getattr(os, name)

    def p_open(file, mode="r", *a, **kw):
        if not any(c in mode for c in "wax+"):
            return real_open(file, mode, *a, **kw)
        if not isinstance(file, int):
            i = _C.idx
            exists = os.path.exists(file)
            if ("w" in mode or not exists) and _event("open(%s)%s" % (mode, "" if exists else " create"), os.fspath(file)):
                _die(i)
            return CrashFile(real_open(file, mode, *a, **kw), os.fspath(file))
        return CrashFile(real_open(file, mode, *a, **kw), _FD_PATHS.get(file, "<fd %d>" % file))
    builtins.open = p_open
    io.open = p_open
    _io.open = p_open
    _FD_PATHS = {}

    def simple(name, kind, effective):
        real = R["os." + name]

        def f(path, *a, **kw):
            if effective(path, *a):
                i = _C.idx
                if _event(kind, os.fspath(path) if not isinstance(path, int) else "<fd>"):
                    _die(i)
            return real(path, *a, **kw)
        setattr(os, name, f)
    simple("remove", "unlink", lambda p, *a: os.path.lexists(p))
    simple("unlink", "unlink", lambda p, *a: os.path.lexists(p))
    simple("rmdir", "rmdir", lambda p, *a: os.path.isdir(p))
    simple("mkdir", "mkdir", lambda p, *a: not os.path.exists(p))
    simple("truncate", "truncate", lambda p, *a: True)

    def two(name):
        real = R["os." + name]

        def f(src, dst, *a, **kw):
            i = _C.idx
            if _event(name, "%s -> %s" % (os.fspath(src), os.fspath(dst))):
                _die(i)
            return real(src, dst, *a, **kw)
        setattr(os, name, f)
    for name in ("rename", "replace", "link", "symlink"):
        two(name)

    def p_os_open(path, flags, *a, **kw):
        if flags & (os.O_WRONLY | os.O_RDWR | os.O_CREAT | os.O_TRUNC):
            exists = os.path.exists(path)
            if (flags & os.O_TRUNC) or not exists:
                i = _C.idx
                if _event("os.open%s" % ("" if exists else " create"), os.fspath(path)):
                    _die(i)
            fd_ = R["os.open"](path, flags, *a, **kw)
            _FD_PATHS[fd_] = os.fspath(path)
            return fd_
        return R["os.open"](path, flags, *a, **kw)
    os.open = p_os_open

    def p_os_write(fd_, data):
        if fd_ == _C.fd or fd_ not in _FD_PATHS:
            return R["os.write"](fd_, data)
        i = _C.idx
        if _event("write", _FD_PATHS[fd_], len(data)):
            k = prefix_length(_C.partial, len(data))
            if k:
                R["os.write"](fd_, bytes(data[:k]))
            _die(i, written=k)
        return R["os.write"](fd_, data)
    os.write = p_os_write


def run_in_child(opfn, n=None, partial=None):
    """Run opfn() in a forked child that dies at event n; returns the child's report (event log, crash point)."""
    r, w = os.pipe()
    pid = os.fork()
    if pid == 0:
        try:
            os.close(r)
            _install(n, partial, w)
            try:
                opfn()
                _report(dict(done=True, log=_C.log))
            except BaseException as e:      # the operation itself failed: the parent treats this as a harness error
                _report(dict(error="%s: %s" % (type(e).__name__, e), log=_C.log))
        finally:
            os._exit(0)
    os.close(w)
    chunks = []
    while True:
        c = os.read(r, 1 << 16)
        if not c:
            break
        chunks.append(c)
    os.close(r)
    os.waitpid(pid, 0)
    data = b"".join(chunks)
    return json.loads(data) if data else {}


# ============================================================================================================== targets
def mkstate(key, value, marker="m0"):
    s = State().with_data(value)
    s.query = key
    s.metadata["status"] = "ready"
    s.metadata["attributes"] = {"marker": marker}
    return s


def same_value(a, b):
    try:
        return type(a) is type(b) and a == b
    except Exception:
        return False


class CacheTarget:
    kind = "cache"
    key, other = "a/b-c", "a/b-d"

    def __init__(self, name, family, make):
        self.name, self.family, self.make = name, family, make

    # --- operations (run on an object created before the crash window)
    def op_store(self, obj, value, marker):
        st = mkstate(self.key, value, marker)
        return lambda: obj.store(st)

    def op_store_metadata(self, obj, md):
        return lambda: obj.store_metadata(md)

    def op_remove(self, obj):
        return lambda: obj.remove(self.key)

    def setup_store(self, obj, key, value, marker):
        assert obj.store(mkstate(key, value, marker))

    def new_metadata(self, obj, old_value, marker, status):
        md = obj.get_metadata(self.key) if old_value is not ABSENT else None
        md = dict(md) if md else dict(query=self.key, type_identifier=None, attributes={})
        md["query"] = self.key
        md["status"] = status
        md["attributes"] = {"marker": marker}
        return md

    # --- reads through a fresh object
    def read(self, d, key):
        """-> ("nothing", why) | ("value", data, status)"""
        obj = self.make(d)
        try:
            st = obj.get(key)
        except KeyNotFoundStoreException:
            return ("nothing", "KeyNotFound")
        except Exception as e:
            return ("error", "%s: %s" % (type(e).__name__, str(e)[:80]))
        if st is None:
            return ("nothing", "miss")
        return ("value", st.data, st.metadata.get("status"))

    def read_metadata(self, d, key):
        obj = self.make(d)
        try:
            md = obj.get_metadata(key)
        except KeyNotFoundStoreException:
            return ("nothing", "KeyNotFound")
        except Exception as e:
            return ("error", "%s: %s" % (type(e).__name__, str(e)[:80]))
        if md is None:
            return ("nothing", "miss")
        return ("value", project(md), md.get("status"))


class StoreTarget:
    kind = "store"
    key, other = "d/x.bin", "d/y.bin"
    name = family = "FileStore"

    def make(self, d):
        return FileStore(d)

    def op_store(self, obj, value, marker):
        b, md = encode(value, marker)
        return lambda: obj.store(self.key, b, md)

    def op_store_metadata(self, obj, md):
        return lambda: obj.store_metadata(self.key, md)

    def op_remove(self, obj):
        return lambda: obj.remove(self.key)

    def setup_store(self, obj, key, value, marker):
        b, md = encode(value, marker)
        obj.store(key, b, md)

    def new_metadata(self, obj, old_value, marker, status):
        md = dict(obj.get_metadata(self.key)) if old_value is not ABSENT else {}
        md["status"] = status
        md["attributes"] = {"marker": marker}
        return md

    def read(self, d, key):
        obj = self.make(d)
        try:
            b = obj.get_bytes(key)
        except KeyNotFoundStoreException:
            return ("nothing", "KeyNotFound")
        except Exception as e:
            return ("error", "%s: %s" % (type(e).__name__, str(e)[:80]))
        try:
            status = obj.get_metadata(key).get("status")
        except Exception:
            status = "<no metadata>"
        return ("value", b, status)

    def read_metadata(self, d, key):
        obj = self.make(d)
        try:
            md = obj.get_metadata(key)
        except KeyNotFoundStoreException:
            return ("nothing", "KeyNotFound")
        except Exception as e:
            return ("error", "%s: %s" % (type(e).__name__, str(e)[:80]))
        return ("value", project(md), md.get("status"))


def encode(value, marker):
    t = state_types_registry().get(type(value))
    b, mime = t.as_bytes(value)
    return b, dict(status="ready", type_identifier=t.identifier(), mimetype=mime, attributes={"marker": marker})


def project(md):
    """The caller-controlled part of a metadata record (time stamps / file info are filled in by the back-end)."""
    return dict(status=md.get("status"), type_identifier=md.get("type_identifier"), marker=(md.get("attributes") or {}).get("marker"))


def targets():
    out = [CacheTarget("FileCache", "FileCache", lambda d: FileCache(os.path.join(d, "fc"))),
           CacheTarget("XORFileCache", "XORFileCache", lambda d: XORFileCache(os.path.join(d, "fc"), b"**code**"))]
    if FernetFileCache is not None:
        out.append(CacheTarget("FernetFileCache", "FernetFileCache", lambda d: FernetFileCache(os.path.join(d, "fc"), FERNET_KEY)))
    out.append(StoreTarget())
    out.append(CacheTarget("StoreCache(FileStore, flat)", "StoreCache(FileStore)", lambda d: StoreCache(FileStore(os.path.join(d, "fs")), "cache", flat=True)))
    out.append(CacheTarget("StoreCache(FileStore, nested)", "StoreCache(FileStore)", lambda d: StoreCache(FileStore(os.path.join(d, "fs")), "cache", flat=False)))
    return out


# ============================================================================================================ scenarios
V_BYTES, V_BYTES2 = b"BYTES \x00\xff first value, the longer one", b"B2"
V_TEXT, V_TEXT2 = "text é first value, the longer one", "t2"
V_INT, V_INT2 = 1234567, 89
V_FLOAT = 3.25
V_DICT, V_DICT2 = {"k": [1, 2], "s": "x"}, {"z": 1}
V_PICKLE, V_PICKLE2 = [1, "two", (3,)], ("p", 2)
V_NUMTEXT = "89 "          # text whose bytes also parse as JSON
V_EMPTY_TEXT, V_EMPTY_BYTES = "", b""
BUILTIN = [V_BYTES, V_TEXT, V_INT, V_DICT, V_PICKLE]
ALL_VALUES = [V_BYTES, V_BYTES2, V_TEXT, V_TEXT2, V_INT, V_INT2, V_FLOAT, V_DICT, V_DICT2, V_PICKLE, V_PICKLE2, V_NUMTEXT, None, V_EMPTY_TEXT, V_EMPTY_BYTES]


CORE_PAIRS = [(V_BYTES, V_BYTES2), (V_BYTES2, V_BYTES), (V_TEXT, V_TEXT2), (V_TEXT2, V_TEXT), (V_INT, V_INT2), (V_INT2, V_INT), (V_DICT, V_DICT2),
              (V_PICKLE, V_PICKLE2), (V_TEXT, V_DICT), (V_DICT, V_TEXT), (V_INT, V_NUMTEXT), (V_BYTES, V_PICKLE), (V_PICKLE, V_BYTES), (V_TEXT, V_TEXT)]
PRODUCT_VALUES = [V_BYTES, V_BYTES2, V_TEXT, V_TEXT2, V_INT, V_FLOAT, V_DICT, V_PICKLE, V_NUMTEXT, None, V_EMPTY_TEXT]


def core_scenarios(reduced=False):
    """(op, old, new) - old is ABSENT for a fresh key; for store_metadata 'new' is the status written."""
    out = [("store", ABSENT, v) for v in BUILTIN + [V_FLOAT]]
    out += [("store", a, b) for a, b in (CORE_PAIRS[:1] + CORE_PAIRS[2:3] + CORE_PAIRS[4:5] + CORE_PAIRS[8:11] if reduced else CORE_PAIRS)]
    for v in [V_TEXT] if reduced else [V_TEXT, V_DICT]:
        out.append(("store_metadata", v, "ready"))
        out.append(("remove", v, None))
    out.append(("store_metadata", V_BYTES, "evaluation"))
    out.append(("store_metadata", ABSENT, "evaluation"))
    if not reduced:
        out.append(("store_metadata", ABSENT, "ready"))
        out.append(("remove", V_BYTES, None))
    return out


def scenarios(tier, target):
    """-> [(scenario, enumerate_every_event)].  quick: core scenarios, token streams sampled (reduced list for the variants that share the
    code of FileCache / the flat store cache).  thorough: core scenarios with every event and every partial length, plus all ordered pairs
    (previous value, new value) over PRODUCT_VALUES, all fresh values and metadata / removal for every built-in type with sampled streams."""
    variant = target.name in ("XORFileCache", "FernetFileCache", "StoreCache(FileStore, nested)")
    if tier == "quick":
        return [(s, False) for s in core_scenarios(reduced=variant)]
    out = [(s, not (variant and target.kind == "cache" and target.family.startswith("StoreCache"))) for s in core_scenarios()]
    if not variant:
        seen = set(repr(s) for s, _ in out)
        extra = [("store", ABSENT, v) for v in ALL_VALUES] + [("store", a, b) for a in PRODUCT_VALUES for b in PRODUCT_VALUES]
        for v in BUILTIN:
            extra += [("store_metadata", v, "ready"), ("store_metadata", v, "error"), ("remove", v, None)]
        for s in extra:
            if repr(s) not in seen:
                seen.add(repr(s))
                out.append((s, False))
    return out


def role_of(path, d):
    p = path.split(" -> ")[-1]
    rel = os.path.relpath(p, d) if p.startswith(d) else p
    base = os.path.basename(rel)
    if "__metadata__" in rel.split(os.sep)[:-1] or base.startswith("state_"):
        return "metadata file"
    if base == "__metadata__":
        return "metadata directory"
    if base.startswith("data_") or base in ("x.bin", "y.bin") or base.endswith(".data"):
        return "data file"
    return "other (%s)" % base


def label_of(ev, d):
    kind = ev[0].split("(")[0].split(" ")[0]
    kind = {"os.open": "open"}.get(kind, kind)
    return "%s of the %s" % (kind, role_of(ev[1], d))


def select_points(log, every):
    """All crash points (n, partial).  n == len(log) is the completed operation.  Quick tier: long runs of small consecutive writes to one
    file (json.dump emits one write per token) are sampled: first 3, last 3, every k-th in between, partial length 'half' only;
    otherwise every event with every partial length."""
    keep = set(range(len(log) + 1))
    token = set()
    if not every:
        i = 0
        while i < len(log):
            j = i
            while j < len(log) and log[j][0] == "write" and log[j][1] == log[i][1] and log[i][0] == "write":
                j += 1
            if j - i > 12:
                run = list(range(i, j))
                inner = run[3:-3]
                step = max(1, len(inner) // 4)
                for x in inner:
                    if (x - i) % step:
                        keep.discard(x)
                token.update(run)
            i = max(j, i + 1)
    pts = []
    for n in sorted(keep):
        pts.append((n, None))
        if n < len(log) and log[n][0] == "write" and log[n][2]:
            seen = {0}
            for p in (("half",) if n in token else ("1", "half", "allbut1")):
                k = prefix_length(p, log[n][2])
                if k not in seen:
                    seen.add(k)
                    pts.append((n, p))
    return pts


def short(v, n=70):
    r = repr(v)
    return r if len(r) <= n else r[:n] + "..."


# ======================================================================================================= known root causes
def known_for(family, op, fresh, label, problem_kind):
    """One line per root cause (back-end + operation), only for the crash windows in which the unchanged code is known to fail."""
    if family in ("FileCache", "XORFileCache") and op == "store" and label == "write of the data file" and problem_kind in ("truncated", "mixed"):
        return ("%s.store: the metadata file (status ready) is complete before the data file is opened with 'wb' and written in place; a crash "
                "after the open / inside the write leaves ready metadata + an empty or truncated data file and get() serves it (text, bytes and "
                "numbers whose prefix still parses)" % family)
    if problem_kind not in ("truncated", "mixed"):
        return None
    if family == "FileStore" and op == "store" and label == "write of the data file":
        return ("FileStore.store: Path.write_bytes truncates and rewrites the data file in place before the metadata is rewritten; a crash after the "
                "open / inside the write leaves an empty or truncated file that get_bytes() returns (with the previous metadata when the key existed)")
    if family == "StoreCache(FileStore)" and op == "store" and not fresh and label in ("write of the data file", "open of the metadata file"):
        return ("StoreCache on FileStore, store over an existing key: FileStore.store rewrites the data file in place while the previous metadata "
                "(status ready, previous type) is still on disk; a crash inside the data write or before the metadata rewrite makes get() serve the "
                "truncated / differently typed bytes as a ready value")
    return None


# ================================================================================================================ driver
class Run:
    def __init__(self):
        self.violations = []
        self.evaluations = 0
        self.read_errors = {}
        self.outcomes = {}
        self.distinct = set()

    def violate(self, sig, d):
        known = d.get("known")
        if known:
            if sum(1 for v in self.violations if v.get("_sig") == sig) >= 1 or sum(1 for v in self.violations if v.get("known") == known) >= 2:
                return
        else:
            if sum(1 for v in self.violations if v.get("_sig") == sig) >= 2 or sum(1 for v in self.violations if "known" not in v) >= 10:
                return
        d["_sig"] = sig
        self.violations.append(d)


def classify(value, old, new):
    if new is not ABSENT and same_value(value, new):
        return "new"
    if old is not ABSENT and same_value(value, old):
        return "old"
    return None


def explore(run, target, scn, every):
    op, old, new = scn
    fresh = old is ABSENT
    other_value = "OTHER entry é" if target.kind == "cache" else b"OTHER entry"
    base = tempfile.mkdtemp(prefix="liquer_crash_")
    counter = [0]

    def prepare():
        counter[0] += 1
        d = os.path.join(base, "w%d" % counter[0])
        os.makedirs(d)
        obj = target.make(d)
        target.setup_store(obj, target.other, other_value, "other")
        if not fresh:
            target.setup_store(obj, target.key, old, "m-old")
        if op == "store":
            fn = target.op_store(obj, new, "m-new")
        elif op == "store_metadata":
            md = target.new_metadata(obj, old, "m-new", new)
            fn = target.op_store_metadata(obj, md)
        else:
            fn = target.op_remove(obj)
        return d, fn
    try:
        d, fn = prepare()
        other_before = (target.read(d, target.other), target.read_metadata(d, target.other))
        old_md = target.read_metadata(d, target.key) if not fresh else None
        rep = run_in_child(fn)
        if "error" in rep or not rep.get("done"):
            raise RuntimeError("harness: %s %s did not complete without a crash: %r" % (target.name, op, rep.get("error")))
        log = rep["log"]
        labels = [label_of(ev, d) for ev in log]
        full_value = target.read(d, target.key)
        new_md = target.read_metadata(d, target.key)
        shutil.rmtree(d, ignore_errors=True)
        # what a complete run must give (sanity of the harness itself)
        if op == "store" and not (full_value[0] == "value" and same_value(full_value[1], encode(new, "")[0] if target.kind == "store" else new)):
            raise RuntimeError("harness: completed %s.store does not serve the new value: %r" % (target.name, full_value))
        old_v = old if (target.kind == "cache" or old is ABSENT) else encode(old, "")[0]
        new_v = ABSENT
        if op == "store":
            new_v = new if target.kind == "cache" else encode(new, "")[0]
        for n, partial in select_points(log, every):
            d, fn = prepare()
            rep = run_in_child(fn, n, partial)
            if "error" in rep:
                raise RuntimeError("harness: operation failed in the child: %s" % rep["error"])
            run.evaluations += 1
            crashed = n < len(log)
            label = labels[n] if crashed else "no crash"
            run.distinct.add((target.name, op, fresh, label, partial))
            where = dict(backend=target.name, operation=op, key_state="fresh key" if fresh else "existing key",
                         previous_value=None if fresh else short(old), new_value=short(new) if op != "remove" else None,
                         crash_event_index=n, events_total=len(log), crash_event=label if crashed else None,
                         partial_bytes_written=rep.get("written") if partial else 0,
                         partial_of=log[n][2] if crashed and log[n][0] == "write" else None,
                         events_completed=["%s %s" % (e[0], os.path.relpath(e[1].split(" -> ")[-1], d) if e[1].startswith(base) else e[1]) for e in log[:n]][-6:])
            problems = []
            got = target.read(d, target.key)
            if got[0] == "error":
                run.read_errors[got[1]] = run.read_errors.get(got[1], 0) + 1
            if got[0] == "value":
                c = classify(got[1], old_v, new_v)
                run.outcomes[c or "corrupt"] = run.outcomes.get(c or "corrupt", 0) + 1
                if c is None:
                    kind = "mixed"          # e.g. the complete new bytes decoded under the previous type
                    try:
                        gb = got[1] if isinstance(got[1], bytes) else (got[1].encode("utf-8") if isinstance(got[1], str) else encode(got[1], "")[0])
                        for ref in (new_v, old_v):
                            if ref is not ABSENT:
                                rb = ref if target.kind == "store" else encode(ref, "")[0]
                                if len(gb) < len(rb) and rb.startswith(gb):
                                    kind = "truncated"
                    except Exception:
                        pass
                    problems.append((kind, "read of the entry serves %s (status %s): neither nothing, the previous value %s nor the new value %s"
                                     % (short(got[1]), got[2], "-" if old_v is ABSENT else short(old_v), "-" if new_v is ABSENT else short(new_v)), short(got[1])))
            else:
                run.outcomes["nothing"] = run.outcomes.get("nothing", 0) + 1
            if op == "store_metadata":
                gm = target.read_metadata(d, target.key)
                if gm[0] == "value":
                    allowed = [x[1] for x in (old_md, new_md) if x and x[0] == "value"]
                    if gm[1] not in allowed:
                        problems.append(("metadata", "metadata read gives %r: neither nothing, the previous %r nor the new record %r"
                                         % (gm[1], old_md and old_md[1], new_md and new_md[1]), short(gm[1])))
            ob = (target.read(d, target.other), target.read_metadata(d, target.other))
            if ob != other_before:
                problems.append(("other entry", "the unrelated entry %r reads %r after the crash, %r before" % (target.other, ob, other_before), short(ob[0])))
            for kind, text, served in problems:
                known = known_for(target.family, op, fresh, label, kind)
                v = dict(contract="after a crash a read yields nothing, the complete previous or the complete new value; other entries unaffected",
                         function="%s.%s" % (target.name, op), problem=text, served=served, **where)
                if known:
                    v["known"] = known
                run.violate((target.family, op, fresh, label, kind), v)
            shutil.rmtree(d, ignore_errors=True)
        return len(log)
    finally:
        shutil.rmtree(base, ignore_errors=True)


def bounded(tier, seed):
    run = Run()          # the enumeration is exhaustive over its scenario list: the seed is not needed
    standins = []
    for target in targets():
        before = run.evaluations
        scns = scenarios(tier, target)
        events = 0
        for scn, every in scns:
            events = max(events, explore(run, target, scn, every))
        standins.append(dict(name="%s: crash at every file-system event" % target.name, labelled="bounded",
                             bound="%d scenarios (fresh / overwritten keys, values of every built-in type, metadata-only writes, removals); every event index "
                                   "(up to %d events per operation%s) x partial write lengths {0, 1, half, all but one}"
                                   % (len(scns), events, "; long token streams of json.dump sampled" if not all(e for _, e in scns) else ""),
                             cases=run.evaluations - before, exhaustive=False))
    for v in run.violations:
        v.pop("_sig", None)
    return dict(evaluations=run.evaluations, distinct_nontrivial=len(run.distinct),
                rule="forked child dies (os._exit) at the n-th file-system effect of store / store_metadata / remove, or inside a write after a prefix; "
                     "fresh objects then read the entry and an unrelated entry; allowed: nothing, complete previous, complete new value. "
                     "outcomes=%s; reads that raised something else than key-not-found (counted as nothing)=%s" % (run.outcomes, run.read_errors),
                standins=standins, violations=run.violations)


def replay(doc):
    """A counter-model names a back-end method and a trace prefix; rebuild the nearest concrete scenario and enumerate its crash points."""
    ob = doc.get("obligation", "")
    inp = doc.get("inputs") or {}
    tg = None
    for t in targets():
        if t.family.split("(")[0] in ob or t.name in ob:
            tg = t
            break
    if tg is None:
        return dict(confirmed=False, note="no file-backed back-end named in the obligation; see bounded stand-in witnesses")
    op = "store_metadata" if "store_metadata" in ob else ("remove" if "remove" in ob else "store")
    old = ABSENT if inp.get("fresh") else V_TEXT
    run = Run()
    explore(run, tg, (op, old, V_TEXT2 if op == "store" else ("ready" if op == "store_metadata" else None)), True)
    for v in run.violations:
        v.pop("_sig", None)
    return dict(confirmed=bool(run.violations), violations=run.violations[:2], crash_points=run.evaluations)
