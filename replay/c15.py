"""C15: replay of counterexamples and labelled *bounded* stand-in for OverlayStore (incl. the recursive removedir
that the deductive part does not cover)."""
import shutil
import tempfile

from liquer.store import MemoryStore, FileStore, OverlayStore, KeyNotFoundStoreException
from replay.storemodel import Explorer, RefStore, apply_op, observe, expected, diff, anc

UNIVERSE = ["a", "d", "d/x", "d/y", "d/e", "d/e/z"]
FALLBACKS = [
    [],
    [("store", "a", b"fa", {"custom": "f"}), ("store", "d/x", b"fx", {"custom": "f"})],
    [("store", "d/x", b"fx", {"custom": "f"}), ("store", "d/e/z", b"fz", {"custom": "f"}), ("makedir", "d/y")],
]


def make_factory(kind_o, kind_f, prepopulate):
    def f():
        dirs = []

        def mk(kind):
            if kind == "mem":
                return MemoryStore()
            d = tempfile.mkdtemp(prefix="liquer_bounded_")
            dirs.append(d)
            return FileStore(d)
        fb = mk(kind_f)
        for op in prepopulate:
            apply_op(fb, op)
        before = observe(fb, UNIVERSE)
        ov = OverlayStore(mk(kind_o), fb)

        def extra(store):
            after = observe(fb, UNIVERSE)
            if after != before:
                return "the fall-back store was modified through the overlay"
            return None
        return ov, (lambda: [shutil.rmtree(d, ignore_errors=True) for d in dirs]), extra
    return f


def bounded(tier, seed):
    standins, violations = [], []
    total_eval, total_states = 0, 0
    plans = [("mem", "mem", 3 if tier == "quick" else 4), ("file", "mem", 2 if tier == "quick" else 3),
             ("mem", "file", 2 if tier == "quick" else 3)]
    if tier != "quick":
        plans.append(("file", "file", 2))
    for ko, kf, depth in plans:
        for i, pre in enumerate(FALLBACKS):
            ex = Explorer(make_factory(ko, kf, pre), UNIVERSE, depth, prepopulate=pre, payloads=(b"one",),
                          limit=4000 if tier == "quick" else 60000).explore()
            total_eval += ex.evaluations
            total_states += len(ex.distinct_states)
            standins.append(dict(name="OverlayStore(%s over %s, fall-back #%d) vs reference model" % (ko, kf, i), labelled="bounded",
                                 bound="all well-formed histories of depth <= %d over %d keys" % (depth, len(UNIVERSE)),
                                 cases=ex.histories, exhaustive=not (ex.limit and ex.histories >= ex.limit)))
            for v in ex.violations:
                if len(violations) < 5:
                    violations.append(dict(contract="overlay view == reference model; fall-back untouched", function="OverlayStore",
                                           roles="%s over %s" % (ko, kf), fallback=[repr(o) for o in pre], **v))
    # removal, then a metadata-only write to the removed key (re-creation without bytes): the removed bytes must stay masked
    n = 0
    for ko, kf in (("mem", "mem"), ("file", "mem"), ("mem", "file"), ("file", "file")):
        for pre in FALLBACKS[1:]:
            for key in [op[1] for op in pre if op[0] == "store"]:
                for how in ("remove", "removedir-parent"):
                    if how == "removedir-parent" and "/" not in key:
                        continue
                    ov, cleanup, extra = make_factory(ko, kf, pre)()
                    try:
                        old = ov.get_bytes(key)
                        if how == "remove":
                            ov.remove(key)
                        else:
                            ov.removedir(key.rsplit("/", 1)[0], recursive=True)
                        ov.store_metadata(key, {"custom": "again"})
                        n += 1
                        try:
                            got = ov.get_bytes(key)
                        except Exception:
                            got = None
                        problem = None
                        if got is not None and got == old:
                            problem = "get_bytes returns the removed fall-back bytes again"
                        elif (key in list(ov.keys())) != bool(ov.contains(key)):
                            problem = "keys() and contains() disagree about the key"
                        elif extra(ov):
                            problem = extra(ov)
                        if problem and len(violations) < 5:
                            violations.append(dict(contract="overlay view == reference model; fall-back untouched", function="OverlayStore.store_metadata",
                                                   roles="%s over %s" % (ko, kf), fallback=[repr(o) for o in pre],
                                                   history=["%s %s" % (how, key), "store_metadata %s" % key], problem=problem))
                    finally:
                        cleanup()
    total_eval += n
    standins.append(dict(name="a metadata-only write to a removed key keeps the removed bytes masked", labelled="bounded",
                         bound="every stored key of 2 fall-backs x remove / recursive removedir of its parent x 4 role assignments", cases=n, exhaustive=True))
    return dict(evaluations=total_eval, distinct_nontrivial=total_states,
                rule="depth-first enumeration of every well-formed history (store, metadata update, remove, makedir, removedir empty/recursive) "
                     "through the overlay over a 6-key universe with 3 pre-populated fall-backs, memory/directory stores in either role; after every "
                     "history all reads are compared with the reference model and the fall-back with its snapshot; distinct = distinct model states reached",
                standins=standins, violations=violations)


def replay(doc):
    """Build concrete stores from the abstract views of the counter-model and compare the real operation with the model."""
    inp = doc.get("inputs") or {}
    ob = doc["obligation"]
    me = inp.get("self") or {}

    def build(view):
        s = MemoryStore()
        r = RefStore()
        view = view or {}
        for k, b in (view.get("data") or {}).items():
            if k:
                s.data[k] = str(b).encode("latin-1", "replace")
                r.data[k] = s.data[k]
                s.metadata[k] = {}
                r.meta[k] = {}
        for k in view.get("dirs") or []:
            if k and k not in s.data:
                s.directories.add(k)
                r.dirs.add(k)
        return s, r
    o, ro = build(me.get("overlay"))
    f, rf = build(me.get("fallback"))
    removed = set(k for k in (me.get("removed") or []) if k)
    ov = OverlayStore(o, f)
    ov.removed = set(removed)
    ref = RefStore()
    for src in (rf, ro):
        for k in src.dirs:
            if k not in removed:
                ref.dirs.add(k)
        for k, b in src.data.items():
            if k not in removed:
                ref.data[k] = b
                ref.meta[k] = {}
    key = inp.get("key")
    meth = ob.split("#")[0].split(".")[-1]
    universe = sorted(set(list(ref.keys()) + list(removed) + ([key] if key else [])))
    try:
        if meth == "get_bytes":
            try:
                got = ov.get_bytes(key)
            except KeyNotFoundStoreException:
                got = "KeyNotFound"
            exp = ref.data.get(key, "KeyNotFound")
            return dict(confirmed=got != exp, observed=repr(got), expected=repr(exp), inputs=dict(key=key, removed=sorted(removed)))
        op = {"store": ("store", key, b"new", {}), "store_metadata": ("store_metadata", key, {}), "remove": ("remove", key),
              "makedir": ("makedir", key), "removedir": ("removedir", key, bool(inp.get("recursive")))}.get(meth)
        if op is not None:
            apply_op(ov, op)
            apply_op(ref, op)
        d = diff(observe(ov, universe, caller_fields=()), expected(ref, universe, caller_fields=()))
        d = [x for x in d if not x[1].startswith("meta")]
        return dict(confirmed=bool(d), differences=[dict(key=a, read=b, observed=repr(c), expected=repr(e)) for a, b, c, e in d[:4]],
                    inputs=dict(op=repr(op), removed=sorted(removed), overlay=o.keys(), fallback=f.keys()))
    except Exception as e:
        return dict(confirmed=True, observed="raised %s: %s" % (type(e).__name__, e), inputs=dict(key=key, removed=sorted(removed)))
