"""Reference model of a store (DESIGN.md appendix D.1) and the bounded history explorer used by the
labelled *bounded stand-ins* of C07 / C14 / C15 / C17.  Runs the real liquer.store classes.

The reference model is the executable form of the interface contracts in contracts/stores.py:
  dirs, data, meta; present(k); anc(k); whole-view effects of every operation.
A history is well-formed (W1-W4) by construction: operations are only generated when the model says
their precondition holds.
"""
import hashlib
import itertools
import os
import shutil
import tempfile

from liquer.store import (MemoryStore, FileStore, ProxyStore, IndexerStore, OverlayStore, MountPointStore, ReadOnlyStore,
                          KeyNotFoundStoreException, key_name, parent_key)


def anc(k):
    out = set()
    while k not in ("", None):
        out.add(k)
        k = parent_key(k)
    return out


class RefStore:
    def __init__(self):
        self.dirs = set()
        self.data = {}
        self.meta = {}

    def clone(self):
        r = RefStore()
        r.dirs = set(self.dirs)
        r.data = dict(self.data)
        r.meta = {k: dict(v) for k, v in self.meta.items()}
        return r

    def present(self, k):
        return k == "" or k in self.dirs or k in self.data or k in self.meta

    def is_dir(self, k):
        return k == "" or k in self.dirs

    def keys(self):
        return sorted(set(self.dirs) | set(self.data) | set(self.meta))

    def listdir(self, k):
        pre = "" if k == "" else k + "/"
        return sorted(set(x[len(pre):] for x in self.keys() if x.startswith(pre) and "/" not in x[len(pre):] and x != k))

    def below(self, k):
        return [x for x in self.keys() if x == k or x.startswith(k + "/")]

    # effects
    def store(self, k, b, m):
        self.data[k] = b
        self.meta[k] = dict(m)
        self.dirs |= anc(parent_key(k))

    def store_metadata(self, k, m):
        self.meta[k] = dict(m)

    def remove(self, k):
        self.data.pop(k, None)
        self.meta.pop(k, None)

    def makedir(self, k):
        self.dirs |= anc(k)

    def removedir(self, k, recursive):
        if recursive:
            for x in self.below(k):
                self.dirs.discard(x)
                self.data.pop(x, None)
                self.meta.pop(x, None)
        else:
            self.dirs.discard(k)
            self.meta.pop(k, None)


def applicable_ops(ref, universe, payloads=(b"one", b""), with_meta_update=True, with_recursive=True):
    """Well-formed operations in the current model state."""
    ops = []
    for k in universe:
        is_dir = ref.is_dir(k)
        anc_has_data = any(a in ref.data for a in anc(parent_key(k)))
        has_children = any(x.startswith(k + "/") for x in ref.keys())
        if not is_dir and not anc_has_data and not has_children:
            for i, b in enumerate(payloads):
                ops.append(("store", k, b, {"custom": "c%d" % i, "title": "t-" + k}))
        if with_meta_update and k in ref.data:
            ops.append(("store_metadata", k, dict(ref.meta.get(k, {}), custom="upd")))
            # overwrite with new bytes, handing back the metadata just read from the store (read-modify-write of an entry)
            ops.append(("restore", k, b"rewritten:" + k.encode()))
        if k in ref.data or (k in ref.meta and not is_dir):
            ops.append(("remove", k))
        if not ref.present(k) and not anc_has_data and k not in ref.data:
            ops.append(("makedir", k))
        if is_dir and k != "":
            if not ref.listdir(k):
                ops.append(("removedir", k, False))
            elif with_recursive:
                ops.append(("removedir", k, True))
    return ops


def apply_op(store, op):
    name = op[0]
    if name == "store":
        m = dict(op[3])
        store.store(op[1], op[2], m)
        if not isinstance(store, RefStore):
            # the caller keeps (and may change) its own dictionary: the stored entry must not follow
            m["custom"] = "changed-by-the-caller-after-store"
            if isinstance(m.get("fileinfo"), dict):
                m["fileinfo"]["size"] = -1
    elif name == "restore":
        m = store.get_metadata(op[1]) if not isinstance(store, RefStore) else dict(store.meta.get(op[1], {}))
        store.store(op[1], op[2], dict(m))
    elif name == "store_metadata":
        # "metadata update of an existing key": read, change the caller's fields, write back
        m = store.get_metadata(op[1]) if not isinstance(store, RefStore) else dict(store.meta.get(op[1], {}))
        m = dict(m)
        m.update(op[2])
        store.store_metadata(op[1], m)
    elif name == "remove":
        store.remove(op[1])
    elif name == "makedir":
        store.makedir(op[1])
    elif name == "removedir":
        store.removedir(op[1], recursive=op[2])


def observe(store, universe, caller_fields=("custom", "title")):
    """Every read the property talks about, as plain data."""
    obs = {}
    try:
        ks = list(store.keys())
        obs["keys"] = sorted(ks)
        obs["keys_each_once"] = len(ks) == len(set(ks))
    except Exception as e:
        obs["keys"] = "raises:" + type(e).__name__
        obs["keys_each_once"] = None
    for k in list(universe) + [""]:
        try:
            c = store.contains(k)
        except Exception as e:
            c = "raises:" + type(e).__name__
        try:
            d = store.is_dir(k)
        except Exception as e:
            d = "raises:" + type(e).__name__
        ent = {"contains": c, "is_dir": d, "is_dir_is_bool": isinstance(d, bool)}
        if k != "":
            try:
                b = store.get_bytes(k)
                ent["bytes"] = b
            except KeyNotFoundStoreException:
                ent["bytes"] = "KeyNotFound"
            except Exception as e:
                ent["bytes"] = "raises:" + type(e).__name__
            try:
                m = store.get_metadata(k)
                fi = (m or {}).get("fileinfo", {}) if isinstance(m, dict) else {}
                ent["meta"] = None if m is None else {
                    "key": m.get("key"), "name": fi.get("name"), "is_dir": fi.get("is_dir"), "size": fi.get("size"),
                    "md5": fi.get("md5"), **{f: m.get(f) for f in caller_fields}}
            except KeyNotFoundStoreException:
                ent["meta"] = "KeyNotFound"
            except Exception as e:
                ent["meta"] = "raises:" + type(e).__name__
        if d is True or (d and not isinstance(d, str)):
            try:
                ld = store.listdir(k)
                ld = list(ld) if ld is not None else None
                ent["listdir"] = None if ld is None else sorted(ld)
                ent["listdir_each_once"] = ld is None or len(ld) == len(set(ld))
            except Exception as e:
                ent["listdir"] = "raises:" + type(e).__name__
        obs[k] = ent
    return obs


def expected(ref, universe, caller_fields=("custom", "title")):
    obs = {"keys": ref.keys(), "keys_each_once": True}
    for k in list(universe) + [""]:
        c = ref.present(k)
        d = ref.is_dir(k)
        ent = {"contains": c, "is_dir": d, "is_dir_is_bool": True}
        if k != "":
            ent["bytes"] = ref.data[k] if k in ref.data else "KeyNotFound"
            if k in ref.data:
                b = ref.data[k]
                ent["meta"] = {"key": k, "name": key_name(k), "is_dir": False, "size": len(b), "md5": hashlib.md5(b).hexdigest(),
                               **{f: ref.meta.get(k, {}).get(f) for f in caller_fields}}
            elif k in ref.meta:
                ent["meta"] = "stored-metadata-only"
            elif d:
                ent["meta"] = {"key": k, "name": key_name(k), "is_dir": True, "size": None, "md5": None,
                               **{f: None for f in caller_fields}}
            else:
                ent["meta"] = "KeyNotFound"
        if d:
            ent["listdir"] = ref.listdir(k)
            ent["listdir_each_once"] = True
        obs[k] = ent
    return obs


def diff(obs, exp):
    out = []
    for k in exp:
        if isinstance(exp[k], dict):
            for f in exp[k]:
                if exp[k][f] == "stored-metadata-only":
                    continue
                if f == "meta" and isinstance(exp[k][f], dict) and isinstance(obs[k].get(f), dict):
                    for g, v in exp[k][f].items():
                        if g in ("size", "md5") and v is None:
                            continue
                        if obs[k][f].get(g) != v:
                            out.append((k, "meta." + g, obs[k][f].get(g), v))
                    continue
                if f == "bytes" and exp[k].get("is_dir") and str(obs[k].get(f)).startswith("raises:"):
                    continue      # reading the bytes of a directory must fail; which exception is not specified
                if obs[k].get(f) != exp[k][f]:
                    out.append((k, f, obs[k].get(f), exp[k][f]))
        elif obs.get(k) != exp[k]:
            out.append(("", k, obs.get(k), exp[k]))
    return out


class Explorer:
    """Depth-first exploration of all well-formed histories up to a depth, comparing every read after every
    operation with the reference model.  `factory()` returns (store, cleanup, extra_check)."""

    def __init__(self, factory, universe, depth, prepopulate=(), limit=None, **opkw):
        self.factory = factory
        self.universe = list(universe)
        self.depth = depth
        self.prepopulate = list(prepopulate)
        self.limit = limit
        self.opkw = opkw
        self.histories = 0
        self.evaluations = 0
        self.violations = []
        self.distinct_states = set()

    def run_history(self, hist):
        store, cleanup, extra = self.factory()
        ref = RefStore()
        try:
            for op in self.prepopulate:
                apply_op(ref, op)
            for i, op in enumerate(hist):
                try:
                    apply_op(store, op)
                except Exception as e:
                    return ref, dict(history=[repr(o) for o in hist[:i + 1]], what="operation raised %s: %s" % (type(e).__name__, e))
                apply_op(ref, op)
            o1 = observe(store, self.universe)
            o2 = observe(store, self.universe)
            self.evaluations += 1
            if o1 != o2:
                return ref, dict(history=[repr(o) for o in hist], what="reads changed the store", first=str(o1)[:300], second=str(o2)[:300])
            d = diff(o1, expected(ref, self.universe))
            if d:
                return ref, dict(history=[repr(o) for o in hist], what="read differs from the reference model",
                                 differences=[dict(key=a, read=b, observed=repr(c), expected=repr(e)) for a, b, c, e in d[:4]])
            if extra is not None:
                msg = extra(store)
                if msg:
                    return ref, dict(history=[repr(o) for o in hist], what=msg)
            return ref, None
        finally:
            cleanup()

    def explore(self):
        stack = [[]]
        while stack:
            hist = stack.pop()
            if self.limit and self.histories >= self.limit:
                break
            self.histories += 1
            ref, v = self.run_history(hist)
            self.distinct_states.add((tuple(sorted(ref.dirs)), tuple(sorted(ref.data.items())), tuple(sorted((k, tuple(sorted(m.items()))) for k, m in ref.meta.items()))))
            if v is not None:
                if len(self.violations) < 5:
                    self.violations.append(v)
                continue
            if len(hist) < self.depth:
                for op in applicable_ops(ref, self.universe, **self.opkw):
                    stack.append(hist + [op])
        return self


# ---------------------------------------------------------------------------------------- factories
def mem_factory():
    return MemoryStore(), (lambda: None), None


def file_factory():
    d = tempfile.mkdtemp(prefix="liquer_bounded_")
    return FileStore(d), (lambda: shutil.rmtree(d, ignore_errors=True)), None


def wrap(factory, wrapper):
    def f():
        s, c, e = factory()
        return wrapper(s), c, e
    return f


def snapshot(store, universe):
    return observe(store, universe)


class Prefixed:
    """Adapter: the sub-tree of `store` below `prefix`, seen as a store of its own (for mounted compositions)."""

    def __init__(self, store, prefix):
        self.inner = store
        self.prefix = prefix

    def k(self, key):
        return self.prefix if key == "" else self.prefix + "/" + key

    def keys(self):
        out = []
        for x in self.inner.keys():
            if x.startswith(self.prefix + "/"):
                out.append(x[len(self.prefix) + 1:])
        return out

    def contains(self, key):
        return self.inner.contains(self.k(key))

    def is_dir(self, key):
        return self.inner.is_dir(self.k(key))

    def get_bytes(self, key):
        return self.inner.get_bytes(self.k(key))

    def get_metadata(self, key):
        m = self.inner.get_metadata(self.k(key))
        if isinstance(m, dict):
            m = dict(m)
            if m.get("key") == self.k(key):
                m["key"] = key
        return m

    def listdir(self, key):
        return self.inner.listdir(self.k(key))

    def store(self, key, data, metadata):
        return self.inner.store(self.k(key), data, metadata)


def _pref_op(p, op):
    def f(self, key, *a, **kw):
        return getattr(self.inner, op)(self.k(key), *a, **kw)
    return f


for _op in ("store_metadata", "remove", "removedir", "makedir"):
    setattr(Prefixed, _op, _pref_op(Prefixed, _op))
