"""C01: labelled *bounded* stand-in - the real evaluator (no cache) against the direct reference interpreter Sem over the
bounded-exhaustive query set of replay/evalmodel.py, with and without an injected input value and extra parameters."""
import time

from replay import evalmodel as M

CONTRACT = "evaluate(q) == Sem(q): value, final vars, commands[-1], filename/extension (failure iff failure)"

K_CMID = ("a command whose `context=None` parameter is not its last parameter (cmid(x, context=None, k: int = 0)) rejects one textual "
          "argument ('cmid-4') with 'Too many arguments': CommandExecutable.parse_argv pads defaults by index, counting the context slot")
K_ARGV = ("a non-string extra positional parameter (extra_parameters=[5]) reaching a variadic (*args) parameter fails with 'Unsupported "
          "action parameter object 5 in ListArgumentParser' although the typed/untyped parsers accept arbitrary objects")
K_RELIN = ("under an injected input value (evaluate_on / input_value=) a relative link argument is evaluated on the prefix WITHOUT the input "
           "(Context.apply -> evaluate(prefix+link) does not forward input_value): evaluate_on(100, 'add-1/add-~X~add-10~E') fails/gives a "
           "value computed from None instead of 212")

INPUTS = [10, 2.5, "in", [1, 2], 0, "", [], False, {"a": 1}, 0.0, {}]
EXTRAS = [[5], ["e", "f"], {"y": 7}, {"s": "S", "t": "TT"}, {"zzz": 1}, ["3", "4.5", "t"]]


def classify(q, ref, obs, input_value=None, extra=None):
    f = str(obs.failure or "")
    if ref.ok and not obs.ok and "Too many arguments for 'cmid'" in f:
        return K_CMID
    if ref.ok and not obs.ok and "in ListArgumentParser" in f and isinstance(extra, list) and any(not isinstance(x, str) for x in extra):
        return K_ARGV
    if input_value is not None and "~X~" in q:
        alt = M.SemVariant({"rel_link_without_input"}, q, input_value=input_value, extra=extra)
        if not M.outcome_diff(alt, obs) and M.outcome_diff(ref, obs):
            return K_RELIN
    return None


def check(col, q, input_value=None, extra=None):
    ref = M.Sem(q, input_value=input_value, extra=extra)
    obs = M.run(q, input_value=input_value, extra=extra)
    col.evaluations += 1
    if ref.ok:
        col.nontrivial.add(repr(M._simple(ref.value)))
    fields = ("value", "vars", "last_command", "filename", "extension")
    if "cmut" in q:
        # 'cmut' changes a variable VALUE in place through context.vars (it exists for C10).  Whether such a change is visible at the
        # end / to the right is not pinned down by C01 (the library carries it in volatile pipelines only): the final vars are not
        # compared, and the value only when nothing right of cmut can read the mutated variable 'lv'
        tail = q[q.index("cmut"):]
        fields = tuple(f for f in fields if f != "vars" and not (f == "value" and ("lv" in tail or "appendvar" in tail)))
    d = M.outcome_diff(ref, obs, fields)
    if d:
        w = dict(query=q, differences=[dict(field=a, expected=b, observed=c) for a, b, c in d])
        if input_value is not None:
            w["input_value"] = input_value
        if extra is not None:
            w["extra_parameters"] = extra
        col.add(CONTRACT, "Context.evaluate", known=classify(q, ref, obs, input_value, extra), **w)
    return ref, obs


def input_queries(tier):
    """Queries that start with data-/state-taking commands, so that the injected value matters."""
    links = M.link_texts(2 if tier == "quick" else 3)
    datas = M.action_texts(M.DATA_ACTIONS, links)
    out = list(datas)
    mids = M.CORE_MID[:22] if tier == "quick" else M.CORE_MID
    heads = ["add-1", "ident", "let-v-x", "coll-a", "st"]
    for h in heads:
        for m in mids:
            out.append(h + "/" + m)
    for h in heads[:3]:
        for m in ["add-~X~add-10~E", "coll-~X~ident~E-~X~/one~E", "cat-~X~state_variable-v~E", "add-~X~add-~X~add-1~E~E", "gen-~X~st~E"]:
            for t in ["", "/add-1", "/out.txt"]:
                out.append(h + "/" + m + t)
    out += ["one/add-1", "hello", "lst-a/push", "x.txt", "add-1/x.txt", "/add-1/add-~X~add-10~E"]
    seen = set()
    return [q for q in out if not (q in seen or seen.add(q))]


def bounded(tier, seed):
    t0 = time.time()
    M.setup_vocabulary()
    col = M.Collector()
    standins = []
    qs = list(M.all_queries(tier))
    bad = M.selfcheck_memo(qs[:: max(1, len(qs) // 25)])
    for q in bad:
        col.add("harness self-check: memoised parser is transparent", "evalmodel.fast_parse", query=q)
    for q in qs:
        check(col, q)
    standins.append(M.standin("Context.evaluate(q) under NoCache vs Sem(q), plain", "all_queries(%s): 1-%d actions, every argument shape, links to depth %d, "
                              "file names" % (tier, 3 if tier == "quick" else 4, 2 if tier == "quick" else 3), len(qs), True))
    iq = input_queries(tier)
    n = 0
    for inp in (INPUTS if tier != "quick" else INPUTS[:8]):
        for q in (iq if (tier != "quick" or inp == 10) else iq[::3]):
            check(col, q, input_value=inp)
            n += 1
    standins.append(M.standin("evaluate_on(v, q) vs Sem(q, v)", "%d data-first queries x inputs %r" % (len(iq), INPUTS), n, True))
    n = 0
    # (what extra parameters mean for a query ending in a file name is not specified: such queries are left out)
    eq = [q for q in qs if q.count("/") <= 1 and M.parse(q).filename() is None]
    if tier == "quick":
        eq = eq[::4]
    for ex in EXTRAS:
        for q in eq:
            check(col, q, extra=ex)
            n += 1
        for q in iq[::6]:
            if M.parse(q).filename() is None:
                check(col, q, input_value=10, extra=ex)
                n += 1
    standins.append(M.standin("evaluate(q, extra_parameters=e) vs Sem(q, extra=e), also with input", "1-2 action queries x extras %r" % (EXTRAS,), n, True))
    n = typing_contract(col)
    standins.append(M.standin("command_metadata_from_callable / argument_parser_from_command_metadata: the declared type of a parameter is its "
                              "annotation, else the type of its default; texts are converted accordingly",
                              "every (annotation in none/int/float/str/bool/list) x (default in none/None/1/1.5/'s'/True/[1]) x 4 argument texts", n, True))
    nr = 300 if tier == "quick" else 6000
    for q in M.random_queries(seed, nr):
        check(col, q)
    standins.append(M.standin("random queries vs Sem", "random_queries(seed=%d), 1-5 actions, links to depth 3" % seed, nr, False))
    return dict(evaluations=col.evaluations, distinct_nontrivial=len(col.nontrivial),
                rule="every query of the bounded-exhaustive generator (fixed %d-command vocabulary; plain/escaped/empty/missing/surplus arguments, "
                     "absolute and relative links, file names) evaluated by a fresh Context under NoCache and by the reference interpreter Sem "
                     "(direct composition of the plain functions); value (type-exact), final vars, commands[-1], filename/extension compared, "
                     "failure iff failure; repeated with injected inputs and extra positional/keyword parameters; distinct = distinct successful "
                     "result values; wall %.0fs" % (len(M.VOCAB), time.time() - t0),
                standins=standins, violations=col.violations())


TYPING = "arg['type'] is the annotation's name, else the type name of a non-None default, else None; parse converts the text accordingly"


def typing_contract(col):
    """Run-time contract of liquer.commands.command_metadata_from_callable + argument parsers (bounded stand-in for the 'according to the
    function's annotations and defaults' clause of C01)."""
    from liquer.commands import command_metadata_from_callable, argument_parser_from_command_metadata
    anns = [None, "int", "float", "str", "bool", "list"]
    defaults = ["<none>", None, 1, 1.5, "s", True, [1]]
    conv = dict(int=int, float=float, str=str, bool=lambda t: t.lower() in ("y", "yes", "t", "true"), list=lambda t: [t])
    n = 0
    for a in anns:
        for d in defaults:
            src = "def f(state, p%s%s):\n    return p\n" % ("" if a is None else ": " + a, "" if d == "<none>" else " = %r" % (d,))
            ns = {}
            exec(src, ns)
            try:
                md = command_metadata_from_callable(ns["f"])
                arg = md.arguments[0]
            except Exception as e:
                col.add(TYPING, "liquer.commands.command_metadata_from_callable", source=src, error=repr(e))
                continue
            expected = a if a is not None else (type(d).__name__ if d not in ("<none>", None) or d is False else None)
            if d is None or (isinstance(d, str) and d == "<none>"):
                expected = a
            col.evaluations += 1
            n += 1
            if arg.get("type") != expected:
                col.add(TYPING, "liquer.commands.command_metadata_from_callable", source=src, expected_type=expected, observed_type=arg.get("type"))
                continue
            if expected in ("int", "float", "str", "bool"):
                ap = argument_parser_from_command_metadata(md)
                for text in ["2", "1.5", "true", "x"]:
                    try:
                        want = ("ok", conv[expected](text))
                    except Exception:
                        want = ("error", None)
                    try:
                        got_v, rest = ap.parse_meta(md.arguments, [text])[0], None
                        got = ("ok", got_v[0])
                    except Exception:
                        got = ("error", None)
                    col.evaluations += 1
                    n += 1
                    if want[0] != got[0] or (want[0] == "ok" and (want[1] != got[1] or type(want[1]) is not type(got[1]))):
                        col.add(TYPING, "liquer.commands.argument_parser_from_command_metadata", source=src, text=text, expected=repr(want), observed=repr(got))
    return n


def replay(doc):
    inp = doc.get("inputs") or {}
    q = inp.get("query")
    if not isinstance(q, str):
        return dict(confirmed=False, note="no replay scenario: inputs carry no query text")
    try:
        M.parse(q)
    except Exception as e:
        return dict(confirmed=False, note="query does not parse: %s" % e)
    M.setup_vocabulary()
    col = M.Collector()
    ref, obs = check(col, q, input_value=inp.get("input_value"), extra=inp.get("extra_parameters"))
    v = col.violations()
    return dict(confirmed=bool(v), expected=ref.brief(), observed=obs.brief(), violations=v)
