"""C10: labelled *bounded* stand-in - evaluation isolation.  Variables set in one evaluation are invisible to the next;
in-place mutation by commands, or by the caller of returned values / metadata / vars, never changes what an in-process
cache subsequently serves, what earlier returned states contain, or the configured variable defaults."""
import copy
import time

import liquer.state as LSTATE
from replay import evalmodel as M

CONTRACT = "isolation: next evaluation == Sem; cache.get == Sem after in-place mutation; earlier states and defaults unchanged"

K_MDALIAS = ("MemoryCache.store_metadata keeps the very dictionary it is handed (cache.py MemoryCache.store_metadata: state.metadata = metadata, no copy): "
             "an entry that holds only metadata - a FAILED evaluation (evaluate('one/fail')), or the 'expired' entry left for a volatile / caching-off "
             "result when remove() reports failure (NoCache+MemoryCache) - shares the dictionary, or the nested variable values, with the returned "
             "state, so a caller changing state.metadata / state.vars changes what cache.get_metadata(query) serves")

IN_PROCESS = ["NoCache", "MemoryCache", "CacheProxy(MemoryCache)", "MemoryCache+MemoryCache", "NoCache+MemoryCache", "MemoryCache.if_not_contains(abc)",
              "MemoryCache.if_contains(ABC)+MemoryCache", "MemoryCache.if_attribute_equal(ns,root)", "StoreCache(MemoryStore)", "StoreCache(MemoryStore,flat)",
              "MemoryCache.if_contains(ABC)", "MemoryCache.if_attribute_not_equal(ns,second)"]

SETTERS = ["cmut", "cmut-lv-q/state_variable-lv", "one/let-v-x", "one/let-w-y/state_variable-w", "lst-a/appendvar/state_variable-lv", "one/cset-w-cw", "one/cset-v-cv/st", "one/ns-second/add-3",
           "one/let-v-x/add-~X~state_variable-w~E", "one/cmut/state_variable-lv", "one/appendvar-lv-k/appendvar", "one/let-lv-s", "one/fail",
           "one/let-v-x/fail", "one/sub-" + M.encode_token("one/let-v-sub"), "one/let-active_namespaces-zzz"]
READERS = ["one/cget", "one/cget-w", "one/cget-lv", "one/state_variable-v", "one/state_variable-w", "one/state_variable-lv", "one/st", "one/add-3", "hello/cat-~X~state_variable-v~E",
           "one/appendvar/state_variable-lv", "one/sub-" + M.encode_token("one/state_variable-v"), "state_variable-w", "one/let-v-z/state_variable-v"]

MUTATING = ["lst-a-b/push/push-q", "lst-a/poplen/add-1", "dct/setkey/setkey-z-9", "lst-a/push/coll-~X~push-b~E-~X~poplen~E", "lst-a/appendvar/appendvar-lv-k/state_variable-lv",
            "dct/setkey/gen-~X~setkey-y-2~E", "lst-a-b/cmut/push/state_variable-lv", "lst-a/ident/push/ident/push", "lst-a/push/sub-" + M.encode_token("lst-a/push/push"),
            "lst/push/poplen", "dct-k-2/setkey-k-3", "lst-a/let-lv-x/push"]

RETURNED = ["lst-a-b/push", "dct/setkey", "one/add-2", "hello/cat", "lst-a/appendvar/state_variable-lv", "one/let-v-x/add-1", "lst-a/push/x.txt", "one/fail", "lst-a/vol",
            "lst-a/nocache/push", "one/coll-a-b", "lst-a/poplen", "lst-a/cap/push", "lst-a/low", "lst-a/ns-second/push"]


def defaults_problem():
    now = LSTATE.get_vars()
    if not M.same_value(now, M.DEFAULT_VARS):
        return dict(problem="the configured variable defaults changed", defaults_now=M._simple(now), configured=M._simple(M.DEFAULT_VARS))
    return None


def reset_defaults():
    LSTATE._vars = None
    for k, val in M.DEFAULT_VARS.items():
        LSTATE.set_var(k, copy.deepcopy(val))


def snapshot(state):
    return copy.deepcopy((state.data, state.metadata))


def mutate_state(state):
    """what a careless caller may do with a returned state"""
    d = state.data
    if isinstance(d, list):
        d.append("caller")
        if d:
            d[0] = "caller0"
    elif isinstance(d, dict):
        d["caller"] = 1
        for k in list(d):
            d[k] = "overwritten"
    md = state.metadata
    md["vars"]["v"] = "hacked"
    if isinstance(md["vars"].get("lv"), list):
        md["vars"]["lv"].append("hack")
    md["vars"]["extra_var"] = ["x"]
    md.setdefault("commands", []).append(["hack"])
    md.setdefault("attributes", {})["ABC"] = "hacked"
    md["filename"] = "hacked.bin"
    md["extension"] = "bin"
    for e in md.get("log") or []:
        e["message"] = "hacked"
    md["message"] = "hacked"
    md["caching"] = False


def diff_to_ref(obs, ref, fields=("value", "vars", "filename", "extension")):
    return M.outcome_diff(ref, obs, fields)


def baseline_agrees(q, memo={}):
    """Does a stand-alone evaluation (NoCache, nothing before it) agree with the reference at all?  If not, the disagreement is
    C01's business and says nothing about isolation."""
    if q not in memo:
        memo[q] = not diff_to_ref(M.run(q), M.Sem(q))
    return memo[q]


def check_sequence(col, kind, factory, q1, q2, reuse_context):
    """S1: q2 after q1 must be what q2 is on its own"""
    import liquer.context as LCTX
    c, cleanup = M.quiet(factory)
    try:
        ctx = LCTX.Context() if reuse_context else None
        M.run(q1, cache=c, context=ctx)
        o2 = M.run(q2, cache=c, context=ctx)
        col.evaluations += 2
        ref = M.Sem(q2)
        d = diff_to_ref(o2, ref) if baseline_agrees(q2) else []
        if d:
            col.add(CONTRACT, "Context.evaluate / %s" % kind, query=q2, history=[["eval", q1]], same_context_object=reuse_context, cache=kind,
                    problem="an evaluation observed the variables/values of the previous one",
                    differences=[dict(field=a, expected=b, observed=x) for a, b, x in d])
        dp = defaults_problem()
        if dp:
            col.add(CONTRACT, "liquer.state defaults / %s" % kind, query=q2, history=[["eval", q1]], cache=kind, **dp)
            reset_defaults()
    finally:
        M.quiet(cleanup)


def check_mutating(col, kind, factory, q):
    """S2: commands mutating their input in place"""
    c, cleanup = M.quiet(factory)
    try:
        pres = M.prefixes(q)
        held = []
        for p in pres[:-1]:
            o = M.run(p, cache=c)
            col.evaluations += 1
            if o.ok:
                held.append((p, o.state, snapshot(o.state)))
        for rnd_ in range(2):
            o = M.run(q, cache=c)
            col.evaluations += 1
            ref = M.Sem(q)
            # (what an in-place change made through context.vars - command cmut - means for the result itself is not specified: only
            #  its isolation from caches, held states and defaults is checked for such queries)
            d = diff_to_ref(o, ref) if ("cmut" not in q and baseline_agrees(q)) else []
            if d:
                col.add(CONTRACT, "Context.evaluate / %s" % kind, query=q, cache=kind, history=[["eval", p] for p in pres[:-1]] + [["eval", q]] * rnd_,
                        problem="in-place mutation by a command leaked into a later evaluation", differences=[dict(field=a, expected=b, observed=x) for a, b, x in d])
        for p, st, snap in held:
            if not M.same_value(snapshot(st)[0], snap[0]) or not M.same_value(st.metadata.get("vars"), snap[1].get("vars")):
                col.add(CONTRACT, "Context.evaluate / %s" % kind, query=q, cache=kind, history=[["eval", p]], problem="a previously returned state was changed by a later evaluation",
                        key=p, before=M._simple(snap[0]), after=M._simple(st.data), vars_before=M._simple(snap[1].get("vars")), vars_after=M._simple(st.metadata.get("vars")))
        for k in pres + M.link_subqueries(q):
            g = M.quiet(c.get, k)
            if g is None or "cmut" in k:
                continue
            ref = M.Sem(k)
            if not ref.ok or not M.same_value(g.data, ref.value) or not M.same_value(dict(g.metadata.get("vars") or {}), ref.vars):
                col.add(CONTRACT, "cache.get / %s" % kind, query=q, cache=kind, key=k, problem="the cache serves a value/vars changed by an in-place mutation",
                        served=M._simple(g.data), served_vars=M._simple(g.metadata.get("vars")), expected=ref.brief())
        dp = defaults_problem()
        if dp:
            col.add(CONTRACT, "liquer.state defaults / %s" % kind, query=q, cache=kind, **dp)
            reset_defaults()
    finally:
        M.quiet(cleanup)


def check_returned(col, kind, factory, q):
    """S3: the caller mutates returned states (and states obtained from cache.get)"""
    c, cleanup = M.quiet(factory)
    try:
        ref = M.Sem(q)
        canon = M.parse(q).encode()
        o1 = M.run(q, cache=c)
        col.evaluations += 1
        if o1.ok != ref.ok or o1.state is None:
            return      # (evaluate raised: there is no returned state to tamper with)
        served_md = copy.deepcopy(M.quiet(c.get_metadata, canon))
        mutate_state(o1.state)
        snap1 = snapshot(o1.state)
        hist = [["eval", q], ["caller mutates the returned state"]]

        def verify(tag, history):
            g = M.quiet(c.get, canon)
            if g is not None and (not ref.ok or not M.same_value(g.data, ref.value) or not M.same_value(dict(g.metadata.get("vars") or {}), ref.vars)):
                col.add(CONTRACT, "cache.get / %s" % kind, query=q, cache=kind, history=history, problem="cache.get serves what the caller wrote into a returned state (%s)" % tag,
                        served=M._simple(g.data), served_vars=M._simple(g.metadata.get("vars")), expected=ref.brief())
            md = M.quiet(c.get_metadata, canon)
            if served_md is not None and md is not None:
                for f in ("vars", "commands", "filename", "extension", "message", "caching", "is_error"):
                    if md.get(f) != served_md.get(f):
                        known = K_MDALIAS if ("MemoryCache" in kind and M.quiet(c.get, canon) is None) else None
                        col.add(CONTRACT, "cache.get_metadata / %s" % kind, known=known, query=q, cache=kind, history=history, field=f,
                                problem="cache.get_metadata serves what the caller wrote into the metadata of a returned state (%s)" % tag,
                                served=M._simple(md.get(f)), before=M._simple(served_md.get(f)))
                        break
            return g
        g = verify("after mutating the state returned by evaluate", hist)
        o2 = M.run(q, cache=c)
        col.evaluations += 1
        d = M.outcome_diff(ref, o2, ("value", "vars", "filename", "extension", "last_command"))
        if d:
            col.add(CONTRACT, "Context.evaluate / %s" % kind, query=q, cache=kind, history=hist, problem="re-evaluation returns what the caller wrote into the earlier returned state",
                    differences=[dict(field=a, expected=b, observed=x) for a, b, x in d])
        if o2.ok:
            mutate_state(o2.state)
            now1 = snapshot(o1.state)
            if not M.same_value(now1[0], snap1[0]) or not M.same_value(now1[1].get("vars"), snap1[1].get("vars")):
                col.add(CONTRACT, "Context.evaluate / %s" % kind, query=q, cache=kind, history=hist + [["eval", q], ["caller mutates the 2nd returned state"]],
                        problem="two returned states share mutable data", first_state_before=M._simple(snap1[0]), first_state_after=M._simple(now1[0]))
            verify("after mutating the 2nd returned state", hist + [["eval", q], ["caller mutates the 2nd returned state"]])
        if g is not None:
            mutate_state(g)
            verify("after mutating a state obtained from cache.get", [["eval", q], ["caller mutates cache.get(q)"]])
        if ref.ok and M.parse(q).filename() is None:
            e = canon + "/ident"
            o3 = M.run(e, cache=c)
            col.evaluations += 1
            r3 = M.Sem(e)
            d = M.outcome_diff(r3, o3, ("value", "vars"))
            if d:
                col.add(CONTRACT, "Context.evaluate / %s" % kind, query=e, cache=kind, history=hist, problem="an extension computed from what the caller wrote into a returned state",
                        differences=[dict(field=a, expected=b, observed=x) for a, b, x in d])
        dp = defaults_problem()
        if dp:
            col.add(CONTRACT, "liquer.state defaults / %s" % kind, query=q, cache=kind, history=hist, **dp)
            reset_defaults()
        col.nontrivial.add((kind, q))
    finally:
        M.quiet(cleanup)


def bounded(tier, seed):
    t0 = time.time()
    M.setup_vocabulary()
    col = M.Collector()
    F = M.cache_factories()
    kinds = IN_PROCESS
    standins = []
    extra_q = []
    extra_q = [q for q in M.all_queries("quick") if any(w in q for w in ("push", "setkey", "poplen", "appendvar", "cmut", "let-", "cset", "ns-"))]
    extra_q = extra_q[::40] if tier == "quick" else extra_q[::3]
    for kind in kinds:
        factory = F[kind]
        n0 = col.evaluations
        setters = SETTERS
        for q1 in setters:
            for q2 in READERS + [q1 + "/state_variable-v", q1]:
                for reuse in (False, True):
                    check_sequence(col, kind, factory, q1, q2, reuse)
        for q in MUTATING + extra_q:
            check_mutating(col, kind, factory, q)
        for q in RETURNED + extra_q[::2]:
            check_returned(col, kind, factory, q)
        standins.append(M.standin("%s: isolation of evaluations and of returned/cached objects" % kind,
                                  "%d setter x %d reader query pairs (fresh and re-used Context), %d queries with in-place mutators, %d queries whose returned "
                                  "states are mutated by the caller" % (len(setters), len(READERS) + 2, len(MUTATING + extra_q), len(RETURNED + extra_q[::2])),
                                  col.evaluations - n0, True))
    return dict(evaluations=col.evaluations, distinct_nontrivial=len(col.nontrivial),
                rule="per in-process cache kind (fresh cache per scenario): (1) q2 evaluated after q1 equals Sem(q2) for all setter/reader pairs, with a fresh and with "
                     "the same Context object; (2) queries with in-place mutators of lists/dicts/variable values evaluated twice on top of separately evaluated "
                     "prefixes: results == Sem, held prefix states unchanged, cache.get(prefix) == Sem(prefix); (3) caller overwrites data/vars/metadata of returned "
                     "states and of cache.get results: cache.get/get_metadata, re-evaluation, extensions, other returned states and liquer.state.get_vars() must be "
                     "unaffected; data frames are not covered; wall %.0fs" % (time.time() - t0),
                standins=standins, violations=col.violations())


def replay(doc):
    inp = doc.get("inputs") or {}
    q = inp.get("query")
    if not isinstance(q, str):
        return dict(confirmed=False, note="no replay scenario: inputs carry no query text")
    try:
        M.parse(q)
    except Exception as e:
        return dict(confirmed=False, note="query does not parse: %s" % e)
    M.setup_vocabulary()
    col = M.Collector()
    F = M.cache_factories()
    kind = inp.get("cache") if inp.get("cache") in F else "MemoryCache"
    check_mutating(col, kind, F[kind], q)
    check_returned(col, kind, F[kind], q)
    if isinstance(inp.get("previous_query"), str):
        check_sequence(col, kind, F[kind], inp["previous_query"], q, False)
    v = col.violations()
    return dict(confirmed=bool(v), violations=v)
