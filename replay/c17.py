"""C17: replay + labelled *bounded* stand-ins: read-only views over every store kind; a directory store beside sentinel
files driven with hostile keys directly, through a mount and through resource queries; CPython cross-check of the
assumed pathlib facts (pyvc/pathmodel.py)."""
import itertools
import os
import random
import shutil
import tempfile
from pathlib import Path

from liquer.store import (MemoryStore, FileStore, OverlayStore, MountPointStore, ReadOnlyStore, ReadOnlyStoreException,
                          KeyNotSupportedStoreException, set_store)
from replay.storemodel import apply_op, observe

UNIVERSE = ["a", "d", "d/x", "d/y"]


def populated(kind, tmpdirs):
    def mk(k):
        if k == "mem":
            return MemoryStore()
        d = tempfile.mkdtemp(prefix="liquer_bounded_")
        tmpdirs.append(d)
        return FileStore(d)
    if kind in ("mem", "file"):
        s = mk(kind)
    elif kind == "overlay":
        s = OverlayStore(mk("mem"), mk("mem"))
    else:
        s = MountPointStore(mk("mem"))
        s.mount("d", mk("mem"))
    s.store("a", b"A", {"custom": "1"})
    s.store("d/x", b"X", {"custom": "2"})
    return s


def readonly_standin(violations):
    n = 0
    for kind in ("mem", "file", "overlay", "mount", "proxy-of-mem"):
        tmp = []
        try:
            base = populated("mem" if kind == "proxy-of-mem" else kind, tmp)
            if kind == "proxy-of-mem":
                base = base.with_indexer()
            ro = base.read_only()
            ops = [("store", "a", b"new", {}), ("store", "n", b"new", {}), ("store_metadata", "a", {"custom": "z"}), ("remove", "a"),
                   ("remove", "d/x"), ("makedir", "e"), ("removedir", "d", True), ("removedir", "d", False), ("openbin-w", "a"),
                   ("openbin-wb", "zz")]
            for op in ops:
                n += 1
                before = observe(base, UNIVERSE)
                refused = False
                try:
                    if op[0].startswith("openbin"):
                        h = ro.openbin(op[1], op[0].split("-")[1])
                        try:
                            h.write(b"!!")
                            h.close()
                        except Exception:
                            pass
                    else:
                        apply_op(ro, op) if op[0] != "store_metadata" else ro.store_metadata(op[1], dict(op[2]))
                except ReadOnlyStoreException:
                    refused = True
                except Exception as e:
                    refused = "other:" + type(e).__name__
                after = observe(base, UNIVERSE)
                if refused is not True or before != after:
                    if len(violations) < 5:
                        violations.append(dict(contract="read-only view refuses every mutator with ReadOnlyStoreException and leaves the store unchanged",
                                               function="ReadOnlyStore", store=kind, op=repr(op), refused=refused, changed=before != after))
                if observe(ro, UNIVERSE) != observe(base, UNIVERSE):
                    if len(violations) < 5:
                        violations.append(dict(contract="reads through the read-only view equal reads of the store", function="ReadOnlyStore",
                                               store=kind, op=repr(op)))
            if not isinstance(ro, ReadOnlyStore):
                violations.append(dict(contract="read_only() returns a ReadOnlyStore", function="StoreMixin.read_only", store=kind))
        finally:
            for d in tmp:
                shutil.rmtree(d, ignore_errors=True)
    return n


def tree_snapshot(base, skip):
    out = {}
    for dp, dn, fn in os.walk(base):
        if os.path.abspath(dp).startswith(os.path.abspath(skip)):
            continue
        for f in fn:
            p = os.path.join(dp, f)
            out[p] = open(p, "rb").read()
        for d in dn:
            p = os.path.join(dp, d)
            if not os.path.abspath(p).startswith(os.path.abspath(skip)):
                out[p + "/"] = None
    return out


def confinement_standin(tier, violations):
    comps = ["a", "..", ".", "", "__metadata__", "secret.txt"]
    maxlen = 3 if tier == "quick" else 4
    keys = set()
    for n in range(1, maxlen + 1):
        for c in itertools.product(comps, repeat=n):
            keys.add("/".join(c))
            if n <= 2:
                keys.add("/" + "/".join(c))
    keys = sorted(keys)
    n = 0
    nontrivial = 0
    for route in ("direct", "mount", "resource"):
        base = tempfile.mkdtemp(prefix="liquer_bounded_")
        try:
            root = os.path.join(base, "sub", "root")
            os.makedirs(root)
            open(os.path.join(base, "secret.txt"), "wb").write(b"TOP-SECRET")
            open(os.path.join(base, "sub", "secret.txt"), "wb").write(b"SUB-SECRET")
            os.makedirs(os.path.join(base, "sub", "__metadata__"))
            open(os.path.join(base, "sub", "__metadata__", "secret.txt.json"), "w").write('{"status": "ready"}')
            fs = FileStore(root)
            fs.store("a/ok.txt", b"inside", {})
            if route == "direct":
                store, pre = fs, ""
            else:
                store = MountPointStore(MemoryStore())
                store.mount("m", fs)
                pre = "m/"
            outside0 = tree_snapshot(base, root)
            for k in keys:
                key = pre + k
                if route == "resource":
                    n += 1
                    if ".." in k.split("/") or k.startswith("/"):
                        nontrivial += 1
                    from liquer.context import Context
                    set_store(store)
                    try:
                        st = Context().evaluate("-R/" + key) if key and not key.startswith("/") and "//" not in key and not key.endswith("/") else None
                        leaked = st is not None and not st.is_error and st.data in (b"TOP-SECRET", b"SUB-SECRET")
                    except Exception:
                        leaked = False
                    if leaked and len(violations) < 5:
                        violations.append(dict(contract="a resource query never reads outside the directory store's root", function="FileStore",
                                               route=route, key=key))
                    continue
                for op in ("contains", "is_dir", "get_bytes", "get_metadata", "listdir", "store", "store_metadata", "makedir", "remove", "removedir"):
                    n += 1
                    if ".." in k.split("/") or k.startswith("/") or k in ("", ".", "./."):
                        nontrivial += 1
                    try:
                        if op == "store":
                            r = store.store(key, b"EVIL", {})
                        elif op == "store_metadata":
                            r = store.store_metadata(key, {"evil": True})
                        else:
                            r = getattr(store, op)(key)
                    except Exception:
                        r = None
                    leaked = r in (b"TOP-SECRET", b"SUB-SECRET")
                    if op == "listdir" and r:
                        # a listing leaks when it names something that is not in the directory the key denotes *inside* the root
                        target = os.path.normpath(os.path.join(root, k)) if not k.startswith("/") else None
                        inside = target is not None and (target == root or target.startswith(root + os.sep))
                        legit = set(os.listdir(target)) if inside and os.path.isdir(target) else set()
                        leaked = leaked or any(name not in legit for name in list(r))
                    outside1 = tree_snapshot(base, root)
                    if (leaked or outside1 != outside0) and len(violations) < 5:
                        changed = sorted(set(outside1.items()) ^ set(outside0.items()), key=str)[:3]
                        violations.append(dict(contract="a directory store never reads, writes, lists or deletes outside its root", function="FileStore",
                                               route=route, key=key, op=op, leaked=bool(leaked), outside_changed=[str(c)[:120] for c in changed]))
                        outside0 = outside1
        finally:
            shutil.rmtree(base, ignore_errors=True)
    return n, nontrivial, len(keys)


def pathlib_crosscheck(seed, count, violations):
    rnd = random.Random(seed)
    comps = ["a", "b.c", "..", ".", "", "__metadata__"]
    n = 0
    root = Path("/r/oot")
    for _ in range(count):
        key = "/".join(rnd.choice(comps) for _i in range(rnd.randint(1, 4)))
        if rnd.random() < 0.15:
            key = "/" + key
        n += 1
        conf = not key.startswith("/") and ".." not in key.split("/")
        p = root / key
        norm = os.path.normpath(str(p))
        inside = norm == str(root) or norm.startswith(str(root) + "/")
        if conf and not inside:
            violations.append(dict(contract="assumed pathlib fact J1", key=key, path=str(p)))
        if "/" in p.name:
            violations.append(dict(contract="assumed pathlib fact J6", key=key))
        if inside and p != root and not (os.path.normpath(str(p.parent)) + "/").startswith(str(root)):
            if os.path.normpath(str(p)) != str(root):
                violations.append(dict(contract="assumed pathlib fact J3", key=key))
        last = key.split("/")[-1]
        if last not in ("", ".", "..") and p.name != last:
            violations.append(dict(contract="assumed pathlib fact J5", key=key, name=p.name))
    return n


def bounded(tier, seed):
    violations = []
    n1 = readonly_standin(violations)
    n2, nontrivial, nkeys = confinement_standin(tier, violations)
    n3 = pathlib_crosscheck(seed, 2000 if tier == "quick" else 50000, violations)
    return dict(evaluations=n1 + n2 + n3, distinct_nontrivial=nontrivial + n1,
                rule="read-only: every mutator (incl. openbin write modes) through read_only() of memory/directory/overlay/mount/indexer stores; "
                     "confinement: every store operation with every key of up to %d components over ['a','..','.','','__metadata__','secret.txt'] (+ leading '/'), "
                     "directly, through a mount and as resource query, beside sentinel files whose tree is snapshotted after every call; non-trivial = key with '..', "
                     "leading '/' or normalising to the root; plus seeded random cross-check of the assumed pathlib facts" % (3 if tier == "quick" else 4),
                standins=[dict(name="ReadOnlyStore refuses all mutators over 5 store kinds", labelled="bounded", bound="10 mutating calls x 5 store kinds", cases=n1, exhaustive=True),
                          dict(name="FileStore beside sentinel files, hostile keys, 3 routes", labelled="bounded", bound="%d keys x 10 operations x direct/mount + resource route" % nkeys, cases=n2, exhaustive=True),
                          dict(name="CPython cross-check of assumed pathlib facts J1,J3,J5,J6", labelled="bounded", bound="%d seeded random keys" % n3, cases=n3, exhaustive=False)],
                violations=violations)


def replay(doc):
    inp = doc.get("inputs") or {}
    ob = doc["obligation"]
    key = inp.get("key")
    if "FileStore" in ob and key is not None:
        base = tempfile.mkdtemp(prefix="liquer_replay_")
        try:
            root = os.path.join(base, "root")
            os.makedirs(root)
            fs = FileStore(root)
            try:
                p = fs.metadata_path_for_key(key) if "metadata_path" in ob else fs.path_for_key(key)
            except (KeyNotSupportedStoreException, AssertionError) as e:
                return dict(confirmed=False, observed="refused: " + type(e).__name__, inputs=dict(key=key))
            norm = os.path.normpath(str(p))
            inside = norm == root or norm.startswith(root + "/")
            bad = (not inside) or ("metadata_path" in ob and norm == root)
            return dict(confirmed=bad, observed=str(p), expected="a path inside " + root, inputs=dict(key=key))
        finally:
            shutil.rmtree(base, ignore_errors=True)
    if "ReadOnlyStore" in ob:
        v = []
        readonly_standin(v)
        return dict(confirmed=bool(v), witnesses=v[:2])
    return dict(confirmed=False, note="no replay scenario for this obligation")
