"""C13: labelled *bounded* stand-in — every cache back-end and combinator as a map from query text to state,
against the reference model of DESIGN.md appendix D.2; plus 'no plain bytes on disk' for the obfuscating caches."""
import glob
import itertools
import os
import random
import shutil
import tempfile

from liquer.cache import (NoCache, MemoryCache, FileCache, XORFileCache, StoreCache, SQLCache, SQLStringCache, CacheProxy)
from liquer.state import State
from liquer.store import MemoryStore, FileStore

KEYS = ["a", "a/b", "a-b", "a/b-c", "ab", "a~_b", "x-~X~a/b~E", "-R/a/b", "-R/a/b/-/dr", "A/b"]
VALUES = [b"bytes", "text é", 7, {"k": [1, 2]}, None, [1, "two"], ""]


def mkstate(key, value, status="ready", attributes=None):
    s = State().with_data(value)
    s.query = key
    s.metadata["status"] = status
    s.metadata["attributes"] = dict(attributes or {})
    return s


def factories():
    out = {}

    def tmp():
        return tempfile.mkdtemp(prefix="liquer_bounded_")
    out["MemoryCache"] = lambda: (MemoryCache(), [], None)

    def fc():
        d = tmp()
        return FileCache(d), [d], d
    out["FileCache"] = fc

    def xc():
        d = tmp()
        return XORFileCache(d, b"**code**"), [d], d
    out["XORFileCache"] = xc
    try:
        from cryptography.fernet import Fernet
        from liquer.cache import FernetFileCache
        key = Fernet.generate_key()

        def fe():
            d = tmp()
            return FernetFileCache(d, key), [d], d
        out["FernetFileCache"] = fe
    except Exception:
        pass
    out["SQLCache.from_sqlite"] = lambda: (SQLCache.from_sqlite(), [], None)
    out["SQLStringCache.from_sqlite"] = lambda: (SQLStringCache.from_sqlite(), [], None)
    out["StoreCache(memory, nested)"] = lambda: (StoreCache(MemoryStore(), "cache"), [], None)
    out["StoreCache(memory, flat)"] = lambda: (StoreCache(MemoryStore(), "cache", flat=True), [], None)

    def sf():
        d = tmp()
        return StoreCache(FileStore(d), "cache", flat=True), [d], None
    out["StoreCache(directory store, flat)"] = sf
    out["CacheProxy(MemoryCache)"] = lambda: (CacheProxy(MemoryCache()), [], None)
    out["MemoryCache + MemoryCache"] = lambda: (MemoryCache() + MemoryCache(), [], None)
    out["NoCache + MemoryCache"] = lambda: (NoCache() + MemoryCache(), [], None)
    out["MemoryCache.if_not_contains('skip') + MemoryCache"] = lambda: (MemoryCache().if_not_contains("skip") + MemoryCache(), [], None)
    out["MemoryCache.if_attribute_equal('kind','x')"] = lambda: (MemoryCache().if_attribute_equal("kind", "x"), [], None)
    return out


class RefCache:
    def __init__(self):
        self.meta = {}
        self.data = {}
        self.maybe_dropped = set()     # keys whose stored value was hidden by a non-ready metadata write (kept or dropped: back-end's choice)

    def after_refusal(self, cache, k):
        """a refused store may drop the old entry (a miss is always allowed) or leave it as it was; while the entry is hidden by a
        non-ready status the choice cannot be observed"""
        if k not in self.data:
            return
        if self.meta.get(k, {}).get("status") == "ready":
            if cache.get(k) is None:
                self.data.pop(k, None)
                self.meta.pop(k, None)
        else:
            self.maybe_dropped.add(k)

    def get(self, k):
        if k in self.data and self.meta.get(k, {}).get("status") == "ready":
            return self.data[k]
        return KeyError


def same_value(a, b):
    try:
        return a == b and type(a) == type(b)
    except Exception:
        return False


def check_cache(name, make, ops, violations, stats):
    cache, tmpdirs, diskdir = make()
    ref = RefCache()
    hist = []
    try:
        for op in ops:
            hist.append(repr(op)[:80])
            kind = op[0]
            accepted = None
            if kind == "store":
                _, k, v, attrs = op
                r = cache.store(mkstate(k, v, attributes=attrs))
                accepted = bool(r)
                ref.maybe_dropped.discard(k)
                if accepted:
                    ref.data[k] = v
                    ref.meta[k] = {"status": "ready", "query": k}
                else:
                    # refused: either the old entry is unchanged or nothing is retrievable (D.2); follow what the cache did
                    ref.after_refusal(cache, k)
            elif kind == "store_error":
                _, k = op
                s = mkstate(k, None, status="error")
                s.is_error = True
                r = cache.store(s)
                if r:
                    violations.append(dict(contract="store() refuses error states", function=name, history=list(hist)))
                ref.after_refusal(cache, k)
            elif kind == "store_metadata":
                _, k, status = op
                md0 = cache.get_metadata(k)
                md0 = dict(md0) if isinstance(md0, dict) and md0.get("query") == k else dict(query=k, type_identifier=None, attributes={})
                md0["status"] = status
                r = cache.store_metadata(md0)
                if r:
                    had = k in ref.data
                    ref.meta[k] = {"status": status, "query": k}
                    if not had:
                        ref.data.pop(k, None)
                    elif status == "ready":
                        if cache.get(k) is None:
                            ref.data.pop(k, None)      # a back-end may drop the old data on a metadata update (a miss is always allowed)
                    else:
                        # a non-ready status hides the value; whether the back-end kept or dropped the bytes cannot be observed now:
                        # a later ready metadata may re-expose the complete previously stored value, or the key may stay a miss
                        ref.maybe_dropped.add(k)
            elif kind == "remove":
                _, k = op
                cache.remove(k)
                ref.meta.pop(k, None)
                ref.data.pop(k, None)
            elif kind == "clean":
                cache.clean()
                ref.meta.clear()
                ref.data.clear()
            stats["evaluations"] += 1
            # observe every key
            listed = list(cache.keys())
            for k in KEYS:
                got = cache.get(k)
                exp = ref.get(k)
                md = cache.get_metadata(k)
                present = cache.contains(k)
                problem = None
                if exp is KeyError:
                    # nothing retrievable as data: metadata-only / removed / never stored / not ready
                    if got is not None and not (k in ref.data and same_value(got.get() if not got.is_error else None, ref.data[k])):
                        problem = "data retrievable for a key that holds no finished value (got %r)" % (getattr(got, "data", None),)
                    if k not in ref.meta and kind in ("remove", "clean") and (present or k in listed) and op[-1] in (k, "clean"):
                        problem = "key still reported present after %s" % kind
                else:
                    if got is None and k in ref.maybe_dropped:
                        ref.maybe_dropped.discard(k)      # the back-end dropped the hidden value: a miss, and it stays one
                        ref.data.pop(k, None)
                        continue
                    ref.maybe_dropped.discard(k)
                    if got is None:
                        problem = "stored value is not served"
                    elif not same_value(got.data, exp):
                        problem = "served value %r differs from the stored value %r" % (got.data, exp)
                    elif got.metadata.get("status") != "ready" or got.metadata.get("query") != k:
                        problem = "served metadata not ready / wrong query: %r" % ({x: got.metadata.get(x) for x in ("status", "query")},)
                    elif not present or k not in listed:
                        problem = "stored key not reported present (contains=%r, listed=%r)" % (present, k in listed)
                    elif md is None or md.get("query") != k:
                        problem = "get_metadata does not describe the key"
                if problem:
                    if sum(1 for v in violations if v.get("function") == name) < 2 and len(violations) < 16:
                        violations.append(dict(contract="cache == map from query text to state (reference model D.2)", function=name, key=k, problem=problem,
                                               history=list(hist)))
                    return
            if diskdir is not None and name in ("XORFileCache", "FernetFileCache"):
                blob = b"".join(open(f, "rb").read() for f in glob.glob(os.path.join(diskdir, "*")))
                for marker in (b"PLAINTEXT-MARKER", b'"status"', b'"query"'):
                    if marker in blob and len(violations) < 6:
                        violations.append(dict(contract="obfuscating cache never leaves plain bytes on disk", function=name, marker=repr(marker), history=list(hist)))
                        return
    finally:
        for d in tmpdirs:
            shutil.rmtree(d, ignore_errors=True)
        try:
            cache.connection.close()
        except Exception:
            pass


def bounded(tier, seed):
    rnd = random.Random(seed)
    violations, standins = [], []
    stats = dict(evaluations=0)
    distinct = set()
    n_hist = 40 if tier == "quick" else 400
    depth = 6 if tier == "quick" else 10
    for name, make in factories().items():
        cases = 0
        # systematic pairs of confusable keys, then seeded random histories
        hists = []
        for k1, k2 in itertools.combinations(KEYS[:6] if tier == "quick" else KEYS, 2):
            hists.append([("store", k1, "v1", {}), ("store", k2, b"PLAINTEXT-MARKER v2", {}), ("store_metadata", k1, "evaluation"), ("remove", k2), ("store", k1, 3, {})])
        hists.append([("store_metadata", "a", "ready")])
        hists.append([("store", "a", "v", {}), ("store_metadata", "a", "ready"), ("store", "a", "w", {})])
        # a metadata-only write over a stored value of every built-in type: the old value, or a miss - never something else
        for v in VALUES:
            hists.append([("store", "a/b-c", v, {"kind": "x"}), ("store_metadata", "a/b-c", "ready")])
            hists.append([("store", "ab", v, {}), ("store_metadata", "ab", "evaluation"), ("store_error", "ab"), ("store_metadata", "ab", "ready")])
        hists.append([("store", "a", "v", {"skip": True}), ("store", "a", "w", {})])
        hists.append([("store", "a", "v", {}), ("store", "a", "w", {"skip": True, "kind": "y"})])
        hists.append([("store", "a", "v", {"kind": "x"}), ("clean",), ("store", "a/b", 1, {"kind": "x"})])
        for _ in range(n_hist):
            h = []
            for _i in range(rnd.randint(1, depth)):
                c = rnd.random()
                k = rnd.choice(KEYS)
                if c < 0.45:
                    h.append(("store", k, rnd.choice(VALUES), rnd.choice([{}, {}, {"skip": True}, {"kind": "x"}])))
                elif c < 0.6:
                    h.append(("store_metadata", k, rnd.choice(["ready", "evaluation", "error"])))
                elif c < 0.8:
                    h.append(("remove", k))
                elif c < 0.9:
                    h.append(("store_error", k))
                else:
                    h.append(("clean",))
            hists.append(h)
        for h in hists:
            cases += 1
            distinct.add((name, repr(h)))
            check_cache(name, make, h, violations, stats)
        standins.append(dict(name="%s vs reference map" % name, labelled="bounded", bound="%d histories (confusable key pairs + seeded random, length <= %d) over %d keys x %d values" % (len(hists), depth, len(KEYS), len(VALUES)),
                             cases=cases, exhaustive=False))
    return dict(evaluations=stats["evaluations"], distinct_nontrivial=len(distinct),
                rule="store / store-metadata / remove / clean / refused error stores over 10 confusable keys and 7 values of the built-in types, for every "
                     "back-end and combinator; after every operation get / get_metadata / contains / keys are compared for every key with the reference map "
                     "(a conditional cache that refuses a store is modelled as not storing); obfuscating caches: directory scanned for plain markers",
                standins=standins, violations=violations)


def replay(doc):
    return dict(confirmed=False, note="see bounded stand-in witnesses")
