"""C14: labelled *bounded* stand-in for mount tables (routing, union listings, mount points as directories, root keys)."""
import shutil
import tempfile

from liquer.store import MemoryStore, FileStore, MountPointStore, KeyNotFoundStoreException
from replay.storemodel import Explorer, RefStore, apply_op, observe, expected, diff, anc

TABLES = {
    "default + one mount": (True, ["m"], ["m", "m/f", "m/d", "m/d/g", "o", "o/f"]),
    "default + nested mounts (outer first)": (True, ["m", "m/n"], ["m", "m/f", "m/n", "m/n/f", "m/n/d/g", "o"]),
    "default + two-component mount": (True, ["x/y"], ["x", "x/y", "x/y/f", "x/z", "o"]),
    "no default, two mounts": (False, ["m", "k"], ["m", "m/f", "m/d/g", "k", "k/f"]),
    "default + confusable sibling mounts": (True, ["a", "ab"], ["a", "a/f", "ab", "ab/f", "abc", "a/b/f"]),
    # the default store already holds entries below the mount points: they are shadowed and must not show in any read
    "default with shadowed content + one mount": ("shadowed", ["m"], ["m", "m/f", "m/d", "m/d/g", "o", "o/f"]),
    "default with shadowed content + two-component mount": ("shadowed", ["x/y"], ["x", "x/y", "x/y/f", "x/z", "o"]),
}


def make_factory(kind, with_default, mounts):
    def f():
        dirs = []

        def mk():
            if kind == "mem":
                return MemoryStore()
            d = tempfile.mkdtemp(prefix="liquer_bounded_")
            dirs.append(d)
            return FileStore(d)
        default = mk() if with_default else None
        if with_default == "shadowed":
            for p in mounts:
                default.store(p + "/hidden.txt", b"shadowed", {})
                default.store(p + "/d/hidden2.txt", b"shadowed", {})
        root = MountPointStore(default)
        subs = []
        for p in mounts:
            s = mk()
            root.mount(p, s)
            subs.append((p, s))

        def extra(store):
            # a sub-store key translated to a root key reaches the same entry through the root store
            for p, s in subs:
                for k in list(s.keys()):
                    if s.is_dir(k):
                        continue
                    rk = s.to_root_key(k)
                    try:
                        if s.root_store().get_bytes(rk) != s.get_bytes(k):
                            return "to_root_key(%r) of the store mounted at %r reaches a different entry (%r)" % (k, p, rk)
                    except KeyNotFoundStoreException:
                        return "to_root_key(%r) of the store mounted at %r is not found through the root store (%r)" % (k, p, rk)
            return None
        return root, (lambda: [shutil.rmtree(d, ignore_errors=True) for d in dirs]), extra
    return f


class MountExplorer(Explorer):
    """Mount points and their ancestors exist as directories from the start and are never targets of writes."""

    def __init__(self, *a, mounts=(), with_default=True, **kw):
        super().__init__(*a, **kw)
        self.mounts = list(mounts)
        self.with_default = with_default
        self.protected = set()
        for m in mounts:
            self.protected |= anc(m)
        self.prepopulate = [("makedir", m) for m in mounts]

    def explore(self):
        import replay.storemodel as sm
        orig = sm.applicable_ops
        prot = self.protected
        mounts = self.mounts
        with_default = self.with_default

        def ops(ref, universe, **kw):
            out = []
            for op in orig(ref, universe, **kw):
                k = op[1]
                if k in prot:
                    continue
                routed = any(k == m or k.startswith(m + "/") for m in mounts)
                if not with_default and not routed:
                    continue          # no store serves this key
                if op[0] == "removedir" and op[2] and any(m.startswith(k + "/") for m in mounts):
                    continue          # recursive removal across a mount point is refused by design
                out.append(op)
            return out
        sm.applicable_ops = ops
        try:
            # Explorer.explore looks the function up in its own module globals
            return super().explore()
        finally:
            sm.applicable_ops = orig


def bounded(tier, seed):
    standins, violations = [], []
    total_eval, total_states = 0, 0
    for kind in ("mem", "file"):
        for tname, (with_default, mounts, universe) in TABLES.items():
            depth = (3 if kind == "mem" else 2) if tier == "quick" else (4 if kind == "mem" else 3)
            ex = MountExplorer(make_factory(kind, with_default, mounts), universe, depth, mounts=mounts, with_default=with_default,
                               payloads=(b"one",), limit=2500 if tier == "quick" else 40000).explore()
            total_eval += ex.evaluations
            total_states += len(ex.distinct_states)
            standins.append(dict(name="%s stores, %s, vs reference model" % (kind, tname), labelled="bounded",
                                 bound="all well-formed histories of depth <= %d over %d keys" % (depth, len(universe)), cases=ex.histories,
                                 exhaustive=not (ex.limit and ex.histories >= ex.limit)))
            for v in ex.violations:
                if len(violations) < 8:
                    violations.append(dict(contract="composite == one reference file system with mount points as directories; root keys reach the same entry",
                                           function="MountPointStore", table=tname, stores=kind, mounts=mounts, default=with_default, **v))
    return dict(evaluations=total_eval, distinct_nontrivial=total_states,
                rule="5 mount tables (one/nested/two-component/no-default/confusable sibling prefixes) x memory and directory stores; every well-formed history "
                     "on keys inside, outside and at mount points; all reads compared with one reference file system in which mount points (and their ancestors) "
                     "are directories; to_root_key of every sub-store key checked through root_store(); distinct = model states reached",
                standins=standins, violations=violations)


def replay(doc):
    inp = doc.get("inputs") or {}
    ob = doc["obligation"]
    me = inp.get("self") or {}
    if "translate_key" in ob:
        from liquer.store import PrefixStore, KeyNotSupportedStoreException
        from contracts.c14_mounts import strip, unstrip, at_or_below
        ps = PrefixStore(MemoryStore(), prefix=me.get("prefix") or "")
        key, inv = inp.get("key"), bool(inp.get("inverse"))
        try:
            got = ps.translate_key(key, inverse=inv)
        except KeyNotSupportedStoreException:
            got = "KeyNotSupported"
        except Exception as e:
            got = "raises:" + type(e).__name__
        p = ps.prefix
        k = "" if key is None else key
        if inv:
            exp = p if k == "" else p + "/" + k
        else:
            exp = ("" if k == p else k[len(p) + 1:]) if (k == p or k.startswith(p + "/")) else "KeyNotSupported"
        return dict(confirmed=got != exp and not str(got).startswith("raises"), observed=got, expected=exp, inputs=dict(prefix=p, key=key, inverse=inv))
    return dict(confirmed=False, note="no replay scenario for this obligation")
