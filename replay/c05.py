"""C05: labelled *bounded* stand-in - cache admission.  After every operation of a history of evaluations (plain, other
spellings, with injected input, with extra parameters, removals, clean) every key the cache lists and the canonical and
as-typed spelling of every (sub)query evaluated so far is looked up: cache.get(key) must be None, or a non-error state
whose data equals Sem(key) where Sem(key) succeeds, is not volatile and is not at/downstream of a caching-off command."""
import time

from replay import evalmodel as M

CONTRACT = "cache.get(key) is None or (data == Sem(key).value and Sem(key) succeeds, non-volatile, caching on)"

K_INPUT = ("Context.evaluate(q, input_value=v) without input_value_specified=True files the input-dependent results of q and of every prefix "
           "of q in the cache under their plain keys: cache.get(key).data is the value computed from v, not the value of a fresh evaluation of key")

TARGETS = [
    "one/add-2/add-3", "coll-a/push-b", "add-3", "hello-a~Ib/cat", "one/vol-1/add-2", "one/nocache/add-1", "one/fail/add-1",
    "one/let-v-x/add-~X~add-1~E/state_variable-v", "lst-a/poplen/add-1", "one/add-2/out.txt", "one/cap/low/add-1", "vfirst/add-~X~/vfirst~E",
    "dct/setkey", "lst-a-b/push/push-q", "hello/cat-~X~/num-3~E", "one/ns-second/add-3", "lst-a-b/appendvar/state_variable-lv", "one/sub",
    "one/nocache2/add-2/r.txt", "one/add-~X~/one/nocache~E", "one/add-~X~vol~E/add-1", "num-~5/add-~3", "one/add-x/add-1", "nosuch/add-1",
    "one/sub-" + M.encode_token("one/vol"), "gen/coll-z", "/one/add-2", "one/cset-w-cw/state_variable-w",
]
QUICK_TARGETS = 12


def inspect(cache, evaluated):
    """list of (key, problem text, got data, Sem outcome) for all keys worth inspecting"""
    out = []
    for k in M.all_keys_of_history(cache, evaluated):
        try:
            g = M.quiet(cache.get, k)
        except Exception as e:
            out.append((k, "cache.get raised %s: %s" % (type(e).__name__, e), None, None))
            continue
        if g is None:
            continue
        ref = M.Sem(k)
        if g.metadata.get("is_error"):
            out.append((k, "an error state is served", M._simple(g.data), ref))
        elif not ref.ok:
            out.append((k, "data served for a key whose evaluation fails (%s)" % ref.failure_kind, M._simple(g.data), ref))
        elif ref.volatile:
            out.append((k, "data served for a volatile key", M._simple(g.data), ref))
        elif not ref.caching_on:
            out.append((k, "data served for a key at/downstream of a caching-off command", M._simple(g.data), ref))
        elif not M.same_value(g.data, ref.value):
            out.append((k, "served data differs from the value of the key", M._simple(g.data), ref))
    return out


def queries_of(history):
    return [op[-1] for op in history if op[0].startswith("eval")]


def play(factory, history, mode):
    """fresh cache; returns list of problems found after the LAST operation"""
    c, cleanup = M.quiet(factory)
    try:
        for op in history:
            M.apply_op(c, op, mode)
        return inspect(c, queries_of(history))
    finally:
        M.quiet(cleanup)


def classify(history, key, got):
    """Is the served value what the model of the known defect (evalmodel.PollutedSim) predicts for this history?"""
    if not any(op[0] == "eval_input" for op in history):
        return None
    sim = M.PollutedSim().play(history)
    fr = sim.cached.get(key)
    if fr is not None and M.same_value(M._simple(fr.value), got):
        return K_INPUT
    return None


def run_history(col, kind, factory, history, mode):
    """plays the history on a fresh cache, inspecting after every operation"""
    c, cleanup = M.quiet(factory)
    reported = set()
    try:
        for i, op in enumerate(history):
            M.apply_op(c, op, mode)
            col.evaluations += 1
            probs = inspect(c, queries_of(history[:i + 1]))
            for key, problem, got, ref in probs:
                if (key, problem) in reported:
                    continue
                reported.add((key, problem))
                pre = history[:i + 1]
                known = classify(pre, key, got)
                if known and known in col.known:
                    col.known[known]["instances"] += 1
                    continue

                def still(h):
                    return any(k2 == key and p2 == problem for k2, p2, _g, _r in play(factory, h, mode))
                h = M.shrink_history(pre, still)
                col.add(CONTRACT, "Context.evaluate / %s" % kind, known=classify(h, key, got), key=key, problem=problem, served=got,
                        expected=None if ref is None else ref.brief(), cache=kind, cache_configured_as=mode, history=h, query=key)
    finally:
        M.quiet(cleanup)


def bounded(tier, seed):
    import random
    t0 = time.time()
    M.setup_vocabulary()
    col = M.Collector()
    rnd = random.Random(seed)
    F = M.cache_factories()
    targets = TARGETS[:QUICK_TARGETS] if tier == "quick" else TARGETS
    standins = []
    for kind, factory in F.items():
        n = 0
        modes = ("global", "argument") if tier != "quick" else (("global", "argument") if kind == "MemoryCache" else ("global",))
        for q in targets:
            ops = M.related_ops(q)
            for mode in modes:
                rounds = (2 if kind in ("MemoryCache", "FileCache", "SQLCache.from_sqlite", "StoreCache(MemoryStore)") else 1) if tier == "quick" else 4
                for r in range(rounds):
                    h = list(ops)
                    rnd.shuffle(h)
                    if r == 0:
                        # the target itself first, then everything related
                        h = [["eval", q]] + h
                    run_history(col, kind, factory, h, mode)
                    n += len(h)
                col.nontrivial.add((kind, q, mode))
        # hand-picked histories: (1) a file-name step and a state-reading command after the parent was cached (the evaluator writes
        # query / file name / media type into the state it got from the cache); (2) an action with one empty argument and the same
        # action without arguments, in both orders (two different queries, two different keys)
        for h in ([["eval", "one"], ["eval", "one/x.txt"], ["eval", "one/st"], ["eval", "one/add-1"]],
                  [["eval", "hello"], ["eval", "hello/out.json"], ["eval", "hello/st"]],
                  [["eval", "hello-/cat"], ["eval", "hello/cat"]], [["eval", "hello/cat"], ["eval", "hello-/cat"]],
                  [["eval", "one/cat-"], ["eval", "one/cat"], ["eval", "one/cat-/cat"], ["eval", "one/cat/cat"]]):
            for mode in modes:
                run_history(col, kind, factory, h, mode)
                n += len(h)
        # cross-target histories: evaluations of different targets share keys ("one", "one/add-2", ...)
        for r in range(2 if tier == "quick" else 12):
            h = [rnd.choice(M.related_ops(rnd.choice(targets))) for _ in range(12)]
            run_history(col, kind, factory, h, rnd.choice(modes))
            n += len(h)
        standins.append(M.standin("%s: every key inspected after every operation" % kind,
                                  "%d target queries, histories = seeded permutations of the whole related-operation alphabet of the target "
                                  "(15-25 operations) + mixed-target histories of 12 operations; inspection after each operation" % len(targets),
                                  n, False))
    return dict(evaluations=col.evaluations, distinct_nontrivial=len(col.nontrivial),
                rule="for each of %d cache kinds/combinations: histories over the related-operation alphabet (evaluation of prefixes, extensions, link "
                     "sub-queries, non-canonical spellings, evaluate_on / input_value= / extra_parameters= runs, remove, clean); after EVERY operation "
                     "cache.get(k) for every listed key and every canonical/as-typed (sub)query text is compared with the reference interpreter; "
                     "evaluations = operations played (each followed by a full inspection); failing histories are shrunk; wall %.0fs" % (len(F), time.time() - t0),
                standins=standins, violations=col.violations())


def replay(doc):
    inp = doc.get("inputs") or {}
    q = inp.get("query")
    if not isinstance(q, str):
        return dict(confirmed=False, note="no replay scenario: inputs carry no query text")
    try:
        M.parse(q)
    except Exception as e:
        return dict(confirmed=False, note="query does not parse: %s" % e)
    M.setup_vocabulary()
    col = M.Collector()
    F = M.cache_factories()
    kind = inp.get("cache") if inp.get("cache") in F else "MemoryCache"
    hist = inp.get("history")
    h = hist if isinstance(hist, list) else [["eval", q]] + M.related_ops(q)
    run_history(col, kind, F[kind], h, inp.get("mode", "global"))
    v = col.violations()
    return dict(confirmed=bool(v), violations=v)
