"""C09: labelled *bounded* stand-in - cache reuse.  For every cache kind that accepts results: after evaluate(q) the cache
contains the canonical text of q and serves its value; re-evaluating q executes no command; evaluating an extension of a
prefix of q executes only commands a minimal-work caching evaluator (evalmodel.CacheSim, which re-uses every cacheable
result the cache kind admits) would execute."""
import json
import time
from collections import Counter

from replay import evalmodel as M

CONTRACT = "after evaluate(q): contains/get(canonical q); re-evaluation runs no command; an extension runs only commands right of the longest cached prefix"

EXTENSIONS = ["ident", "coll-~X~ident~E", "gen-~X~/one~E", "x.txt", "coll-z/ident"]


def _attr(fr, name):
    return fr.attributes.get(name)


ADMIT = {
    "MemoryCache.if_not_contains(abc)": lambda fr: not _attr(fr, "abc"),
    "MemoryCache.if_contains(ABC)": lambda fr: bool(_attr(fr, "ABC")),
    "MemoryCache.if_attribute_equal(ns,root)": lambda fr: _attr(fr, "ns") == "root",
    "MemoryCache.if_attribute_not_equal(ns,second)": lambda fr: _attr(fr, "ns") != "second",
    "MemoryCache.if_contains(ABC)+MemoryCache": lambda fr: True,
    "MemoryCache.if_contains(ABC)+FileCache": lambda fr: True,
    "NoCache+MemoryCache": lambda fr: True,
    "FileCache.if_not_contains(abc)+SQLCache": lambda fr: True,
}

SPECIAL = ["one/cap/add-1", "one/cap/low/add-1", "one/low", "one/low/add-1", "one/ns-second/sec", "one/ns-second/sec/add-1", "one/ns-second/add-1/cap2",
           "one/cap/ns-second/sec", "hello/cap/cat-~X~/one/low~E", "one/add-%32/add-1", "hello-a~/b/cat", "/one/add-2/add-~X~add-1~E",
           "num-~5/add-~3", "ident/coll-a", "one/mul-2.5", "lst-a-b/push/push-q", "dct/setkey/setkey-z-9", "one/sub/coll-a", "hello/st/x.TXT",
           "one/let-v-x/add-~X~add-1~E/state_variable-v", "one/add-~X~/vfirst~E/add-1", "lst-a/appendvar/state_variable-lv",
           # empty values are values: cached and reused like any other
           "blank", "blank/ident", "blankb", "blankb/ident", "blank/cat"]


def multiset(calls):
    return Counter(json.dumps(c, sort_keys=True, default=str) for c in calls)


def surplus(real, expected):
    d = multiset(real) - multiset(expected)
    return [json.loads(k) for k in d.elements()]


def check_query(col, kind, factory, admit, q):
    ref = M.Sem(q)
    if not (ref.ok and not ref.volatile and ref.caching_on):
        return
    canon = M.parse(q).encode()
    c, cleanup = M.quiet(factory)
    sim = M.CacheSim(admit)
    try:
        def bad(problem, **w):
            col.add(CONTRACT, "Context.evaluate / %s" % kind, known=None, query=q, cache=kind, problem=problem, **w)
        o1 = M.run(q, cache=c)
        _c, fr = sim.run(q)
        col.evaluations += 1
        admitted = canon in sim.cached
        if not o1.ok or not M.same_value(o1.value, ref.value):
            # not a *successful* query on this tree: whether the evaluator computes the right thing is C01's business (reported there)
            return
        if admitted:
            if not M.quiet(c.contains, canon):
                bad("cache.contains(canonical query) is False after a cacheable evaluation", key=canon)
            g = M.quiet(c.get, canon)
            if g is None or g.metadata.get("is_error") or not M.same_value(g.data, ref.value):
                bad("cache.get(canonical query) does not serve the value", key=canon, served=None if g is None else M._simple(g.data), expected=M._simple(ref.value))
        o2 = M.run(q, cache=c)
        exp2, _f = sim.run(q)
        col.evaluations += 1
        if surplus(o2.calls, exp2):
            bad("re-evaluation executed commands", executed=o2.calls, allowed=exp2)
        if not o2.ok or not M.same_value(o2.value, ref.value):
            bad("re-evaluation differs from the reference", observed=o2.brief(), expected=ref.brief())
        pres = M.prefixes(q)
        if M.parse(q).filename() is not None:
            pres = pres[:-1]
        for p in pres[-2:]:
            for ext in EXTENSIONS[: 3 if len(pres) > 1 and p != pres[-1] else 5]:
                e = p + "/" + ext
                o3 = M.run(e, cache=c)
                exp3, fr3 = sim.run(e)
                col.evaluations += 1
                s = surplus(o3.calls, exp3)
                if s:
                    bad("an extension executed commands left of / inside the cached prefix", extension=e, executed=o3.calls, allowed=exp3, surplus=s)
                r3 = M.Sem(e)
                if r3.ok != o3.ok or (r3.ok and not M.same_value(o3.value, r3.value)):
                    bad("extension result differs from the reference", extension=e, observed=o3.brief(), expected=r3.brief())
        col.nontrivial.add((kind, canon))
    finally:
        M.quiet(cleanup)


def check_empty_extras(col, kind, factory, admit, q):
    """An empty collection of extra parameters is no extra parameter: the result is as cacheable as without (and is reused)."""
    ref = M.Sem(q)
    if not (ref.ok and not ref.volatile and ref.caching_on) or M.parse(q).filename() is not None:
        return
    canon = M.parse(q).encode()
    for empty in ([], {}):
        c, cleanup = M.quiet(factory)
        sim = M.CacheSim(admit)
        try:
            o1 = M.run(q, cache=c, extra=empty)
            sim.run(q)
            col.evaluations += 1
            if not o1.ok or not M.same_value(o1.value, ref.value) or canon not in sim.cached:
                continue
            o2 = M.run(q, cache=c)
            exp2, _f = sim.run(q)
            col.evaluations += 1
            if surplus(o2.calls, exp2):
                col.add(CONTRACT, "Context.evaluate / %s" % kind, known=None, query=q, cache=kind, extra_parameters=repr(empty),
                        problem="re-evaluation executed commands after an evaluation with an EMPTY collection of extra parameters",
                        executed=o2.calls, allowed=exp2)
        finally:
            M.quiet(cleanup)


def bounded(tier, seed):
    import random
    t0 = time.time()
    M.setup_vocabulary()
    col = M.Collector()
    rnd = random.Random(seed)
    F = M.cache_factories()
    allq = [q for q in M.all_queries(tier) if M.sem_cacheable(M.Sem(q))]
    standins = []
    for kind, factory in F.items():
        if kind == "NoCache":
            continue
        admit = ADMIT.get(kind, lambda fr: True)
        if kind == "MemoryCache":
            qs = allq[:: (13 if tier == "quick" else 2)]
        else:
            k = 11 if tier == "quick" else 200
            qs = rnd.sample(allq, min(k, len(allq)))
        qs = SPECIAL + qs
        n0 = col.evaluations
        for q in qs:
            check_query(col, kind, factory, admit, q)
        for q in SPECIAL[:8]:
            check_empty_extras(col, kind, factory, admit, q)
        standins.append(M.standin("%s: reuse of cached results" % kind,
                                  "%d successful non-volatile queries (27 hand-picked incl. attribute/namespace/spelling cases + %s of all_queries(%s)), "
                                  "each: cold, repeat, up to 8 extensions of its two longest prefixes" % (len(qs), "a stride" if kind == "MemoryCache" else "a seeded sample", tier),
                                  col.evaluations - n0, False))
    return dict(evaluations=col.evaluations, distinct_nontrivial=len(col.nontrivial),
                rule="per cache kind (fresh cache per query, configured as the global cache): evaluate q, check contains/get of the canonical key "
                     "when the kind's condition admits the result, evaluate q again (no command may run), evaluate extensions of its prefixes; the "
                     "multiset of executed commands (instrumented CALLS) must be included in what the minimal-work reference evaluator CacheSim "
                     "executes; distinct = (kind, query) pairs; wall %.0fs" % (time.time() - t0),
                standins=standins, violations=col.violations())


def replay(doc):
    inp = doc.get("inputs") or {}
    q = inp.get("query")
    if not isinstance(q, str):
        return dict(confirmed=False, note="no replay scenario: inputs carry no query text")
    try:
        M.parse(q)
    except Exception as e:
        return dict(confirmed=False, note="query does not parse: %s" % e)
    M.setup_vocabulary()
    col = M.Collector()
    F = M.cache_factories()
    kind = inp.get("cache") if inp.get("cache") in F else "MemoryCache"
    check_query(col, kind, F[kind], ADMIT.get(kind, lambda fr: True), q)
    v = col.violations()
    return dict(confirmed=bool(v), violations=v)
