"""Evaluator reference model for the bounded stand-ins of C01 C04 C05 C06 C09 C10 C12 C18.

* a FIXED command vocabulary (plain, deterministic Python functions that log every invocation in CALLS),
  registered into the real liquer command registry by setup_vocabulary();
* Sem(query, input_value, extra): a DIRECT reference interpretation of the parsed query - left-to-right
  composition of the plain functions; it never calls Context.evaluate;
* all_queries(tier) / random_queries(seed, n): bounded-exhaustive / random generators of transformation queries;
* cache_factories(): every provided cache kind / combination;
* run(query, cache, input_value, extra): the real evaluation (fresh liquer.context.Context) observed in the same
  Outcome shape as Sem produces.

Runs under /venv/bin/python with PYTHONPATH=/verif:/repo.  Nothing in /repo is modified.  The only change to the
running library is *transparent*: liquer.context.parse is replaced by a memoised wrapper of the very same function
(Context.metadata() re-parses the raw query ~25 times per action, 1.5 ms each); selfcheck_memo() re-runs a sample of
queries with the original function and compares the outcomes.
"""
import copy
import inspect
import itertools
import random
import shutil
import tempfile

import liquer.cache as LCACHE
import liquer.commands as LCMD
import liquer.context as LCTX
import liquer.parser as LP
import liquer.state as LSTATE
import liquer.store as LSTORE
from liquer.parser import (parse as _real_parse, encode_token, StringActionParameter, LinkActionParameter, TransformQuerySegment,
                           ActionRequest)

# ---------------------------------------------------------------------------------------------------------------------
# transparent memoisation of the parser for the evaluator (see module doc)
# ---------------------------------------------------------------------------------------------------------------------
_PARSE_MEMO = {}


def _memo_parse(q):
    r = _PARSE_MEMO.get(q)
    if r is None:
        r = _real_parse(q)
        if len(_PARSE_MEMO) > 200000:
            _PARSE_MEMO.clear()
        _PARSE_MEMO[q] = r
    return r


def fast_parse(on=True):
    LCTX.parse = _memo_parse if on else _real_parse


def parse(q):
    """Parser used by the harness itself (memoised, results are treated as immutable)."""
    return _memo_parse(q)


# ---------------------------------------------------------------------------------------------------------------------
# the vocabulary: plain functions
# ---------------------------------------------------------------------------------------------------------------------
CALLS = []


def _simple(a):
    if a is None or isinstance(a, (int, float, str, bool)):
        return a
    if isinstance(a, (list, tuple)):
        return [_simple(x) for x in a]
    if isinstance(a, dict):
        return {str(k): _simple(v) for k, v in a.items()}
    return "<%s>" % type(a).__name__


def _rec(name, *args):
    CALLS.append([name] + [_simple(a) for a in args])


# --- first commands
def one():
    _rec("one")
    return 1


def hello(name="world"):
    _rec("hello", name)
    return "hello " + str(name)


def blank():
    """an empty text: a legitimate, cacheable value"""
    _rec("blank")
    return ""


def blankb():
    _rec("blankb")
    return b""


def num(n: int = 7):
    _rec("num", n)
    return n


def lst(*items):
    _rec("lst", *items)
    return list(items)


def dct(k="a", v: int = 1):
    _rec("dct", k, v)
    return {str(k): v}


def failfirst():
    _rec("failfirst")
    raise Exception("failfirst always fails")


def vfirst():
    _rec("vfirst")
    return 5


# --- data-taking commands with typed parameters
def add(x, y: int = 1):
    _rec("add", x, y)
    return x + y


def mul(x, f: float = 2.0):
    _rec("mul", x, f)
    return x * f


def tog(x, b: bool = False, c: bool = True):
    _rec("tog", x, b, c)
    return [x, b, c]


def cat(x, s="d", t: str = "T"):
    _rec("cat", x, s, t)
    return "%s%s%s" % (x, s, t)


def gen(x, g=None):
    _rec("gen", x, g)
    return [x, g]


def req(x, n: int, s):
    _rec("req", x, n, s)
    return [x, n, s]


def coll(x, *args):
    _rec("coll", x, *args)
    return [x] + list(args)


def mix(x, n: int, f: float = 0.5, *rest):
    _rec("mix", x, n, f, *rest)
    return [x, n, f] + list(rest)


def ctx(x, k: int = 0, context=None):
    _rec("ctx", x, k)
    return [x, k, context is not None]


def cmid(x, context=None, k: int = 0):
    _rec("cmid", x, k)
    return [x, k, context is not None]


def ident(x):
    _rec("ident", x)
    return x


# --- commands whose first parameter is the State
def st(state, suffix=""):
    _rec("st", suffix)
    return "%s|%s|%s" % (state.get(), state.vars.get("v"), suffix)


def let(state, name, value):
    _rec("let", name, value)
    state.vars[name] = value
    return state


def state_variable(state, name):
    _rec("state_variable", name)
    return state.with_data(state.vars.get(name))


def appendvar(state, name="lv", item="i"):
    """in-place mutation of a (mutable) variable value"""
    _rec("appendvar", name, item)
    state.vars[name].append(item)
    return state


def cset(x, name, value, context=None):
    """set a variable through context.vars (attribute style, as documented by liquer.context.Vars)"""
    _rec("cset", x, name, value)
    setattr(context.vars, name, value)
    return x


def cget(x, name="v", context=None):
    """read a variable through context.vars"""
    _rec("cget", x, name)
    return [x, context.vars.get(name)]


def cmut(x, name="lv", item="c", context=None):
    """in-place mutation of a (mutable) variable value reached through context.vars"""
    _rec("cmut", x, name, item)
    context.vars[name].append(item)
    return x


def ns(state, *namespaces):
    _rec("ns", *namespaces)
    namespaces = list(namespaces)
    if "root" not in namespaces:
        namespaces.append("root")
    state.vars["active_namespaces"] = namespaces
    return state


# --- second namespace
def sec(x, y: int = 5):
    _rec("sec", x, y)
    return x * 10 + y


def add_second(x, y: int = 1):
    """registered as 'add' in namespace 'second' (shadows root add when 'second' is active)"""
    _rec("second.add", x, y)
    return x - y


# --- failing / volatile / caching-off
def fail(x, msg="boom"):
    _rec("fail", x, msg)
    raise Exception("fail: %s" % msg)


def vol(x, y: int = 0):
    _rec("vol", x, y)
    return x + y + 100


def nocache(x, context=None):
    _rec("nocache", x)
    context.disable_cache()
    return x


def nocache2(state):
    _rec("nocache2")
    state.metadata["caching"] = False
    return state


# --- in-place mutators
def push(x, item="p"):
    _rec("push", x, item)
    x.append(item)
    return x


def setkey(x, k="k", v: int = 1):
    _rec("setkey", x, k, v)
    x[k] = v
    return x


def poplen(x):
    """mutates its input in place and returns something else"""
    _rec("poplen", x)
    x.append("m")
    return len(x)


# --- attributes
def cap(x):
    _rec("cap", x)
    return x


def low(x):
    _rec("low", x)
    return x


def cap2(x):
    _rec("cap2", x)
    return x


# --- sub-evaluation from inside a command
def sub(x, q="one", context=None):
    _rec("sub", x, q)
    return [x, context.evaluate(q).get()]


class V:
    def __init__(self, name, func, kind, ns="root", **attrs):
        self.name, self.func, self.kind, self.ns, self.attrs = name, func, kind, ns, attrs
        self.sig = inspect.signature(func)


def _vocab():
    return [
        V("one", one, "first"), V("hello", hello, "first"), V("num", num, "first"), V("lst", lst, "first"), V("dct", dct, "first"),
        V("failfirst", failfirst, "first"), V("vfirst", vfirst, "first", volatile=True), V("blank", blank, "first"), V("blankb", blankb, "first"),
        V("add", add, "data"), V("mul", mul, "data"), V("tog", tog, "data"), V("cat", cat, "data"), V("gen", gen, "data"),
        V("req", req, "data"), V("coll", coll, "data"), V("mix", mix, "data"), V("ctx", ctx, "data"), V("cmid", cmid, "data"),
        V("ident", ident, "data"),
        V("st", st, "state"), V("let", let, "state"), V("state_variable", state_variable, "state"), V("appendvar", appendvar, "state"),
        V("cset", cset, "data"), V("cmut", cmut, "data"), V("cget", cget, "data"), V("ns", ns, "state"),
        V("sec", sec, "data", ns="second"), V("add", add_second, "data", ns="second"),
        V("fail", fail, "data"), V("vol", vol, "data", volatile=True), V("nocache", nocache, "data"), V("nocache2", nocache2, "state"),
        V("push", push, "data"), V("setkey", setkey, "data"), V("poplen", poplen, "data"),
        V("cap", cap, "data", ABC=1), V("low", low, "data", abc=1), V("cap2", cap2, "data", Xyz="z"),
        V("sub", sub, "data"),
    ]


VOCAB = _vocab()
DEFAULT_VARS = {"v": "dv", "lv": ["l0"]}


def vocab_lookup(active_namespaces, name):
    """command resolution: the first active namespace that has the name"""
    for nsname in active_namespaces:
        for v in VOCAB:
            if v.ns == nsname and v.name == name:
                return v
    return None


def setup_vocabulary(cache=None):
    """Reset registry, variable defaults, store and cache; register the vocabulary in the real registry."""
    fast_parse(True)
    LCMD.reset_command_registry()
    LSTATE._vars = None
    for k, val in DEFAULT_VARS.items():
        LSTATE.set_var(k, copy.deepcopy(val))
    LSTORE.set_store(LSTORE.MemoryStore())
    LCACHE.set_cache(cache if cache is not None else LCACHE.NoCache())
    LCTX.set_context_creator(None)
    for v in VOCAB:
        f = v.func
        if f.__name__ != v.name:
            # the registry names a command after f.__name__: give the shadowing function a renamed twin
            g = _renamed(f, v.name)
        else:
            g = f
        attrs = dict(v.attrs)
        attrs["ns"] = v.ns
        if v.kind == "first":
            LCMD.first_command(g, **attrs)
        else:
            LCMD.command(g, **attrs)
    del CALLS[:]


def _renamed(f, name):
    import functools
    import types
    g = types.FunctionType(f.__code__, f.__globals__, name, f.__defaults__, f.__closure__)
    g.__annotations__ = dict(f.__annotations__)
    g.__doc__ = f.__doc__
    return g


# ---------------------------------------------------------------------------------------------------------------------
# outcomes
# ---------------------------------------------------------------------------------------------------------------------
class Outcome:
    FIELDS = ("ok", "value", "volatile", "vars", "filename", "extension", "last_command", "caching_on")

    def __init__(self, **kw):
        self.ok = True                 # False: failure
        self.value = None
        self.failure = None            # text describing the failure
        self.failure_kind = None       # unknown | convert | toofew | toomany | raise | link | (observed:) error-state | exception
        self.volatile = False
        self.vars = {}
        self.filename = None
        self.extension = None
        self.last_command = None
        self.failing_position = None   # offset (in the top-level raw query) of the failing action / failing link argument
        self.failing_action_span = None  # (start, end) of the failing top-level action in the raw query
        self.fail_path = []            # outermost..innermost: dict(query=canonical text of the evaluated (sub)query, action_offset, arg_offset, kind, name)
        self.caching_on = True
        self.calls = []                # commands invoked
        self.query = None              # canonical text
        self.state = None              # observed only: the returned State
        self.exception = None          # observed only: exception raised by evaluate()
        self.reported_position = None  # observed only
        self.reported_query = None     # observed only
        self.__dict__.update(kw)

    def brief(self):
        if self.ok:
            return dict(value=_simple(self.value), vars=_simple(self.vars), last_command=self.last_command, filename=self.filename,
                        extension=self.extension, volatile=self.volatile, caching_on=self.caching_on)
        return dict(failure=str(self.failure)[:160], kind=self.failure_kind, position=self.failing_position)

    def __repr__(self):
        return "Outcome(%r)" % (self.brief(),)


def same_value(a, b):
    """Equality that distinguishes bool from int and int from float (1 == True == 1.0 in Python)."""
    if type(a) is not type(b):
        return False
    if isinstance(a, (list, tuple)):
        return len(a) == len(b) and all(same_value(x, y) for x, y in zip(a, b))
    if isinstance(a, dict):
        return set(a.keys()) == set(b.keys()) and all(same_value(a[k], b[k]) for k in a)
    return a == b


def outcome_diff(ref, obs, fields=("value", "vars", "last_command", "filename", "extension")):
    """List of (field, expected, observed) where the observed outcome differs from the reference."""
    out = []
    if ref.ok != obs.ok:
        return [("ok", ref.brief(), obs.brief())]
    if not ref.ok:
        return out
    for f in fields:
        a, b = getattr(ref, f), getattr(obs, f)
        if f == "extension":
            a, b = (a or "").lower() or None, (b or "").lower() or None
        if f in ("value", "vars"):
            eq = same_value(a, b)
        else:
            eq = a == b
        if not eq:
            out.append((f, _simple(a), _simple(b)))
    return out


# ---------------------------------------------------------------------------------------------------------------------
# Sem: the reference interpreter
# ---------------------------------------------------------------------------------------------------------------------
class SemFailure(Exception):
    def __init__(self, kind, message, path):
        super().__init__(message)
        self.kind = kind
        self.path = path


class RefVars(dict):
    def __init__(self, *a, **k):
        dict.__init__(self, *a, **k)
        dict.__setattr__(self, "_modified", set())

    def __getattr__(self, name):
        try:
            return self[name]
        except KeyError:
            raise AttributeError(name)

    def __setattr__(self, name, value):
        self._modified.add(name)
        self[name] = value


class RefState:
    """What a command with a first parameter named 'state' receives in the reference interpretation."""

    def __init__(self, data, vars_, caching):
        self.data = data
        self.vars = vars_
        self.metadata = {"caching": caching, "vars": vars_}

    def get(self):
        return self.data

    def with_data(self, data):
        self.data = data
        return self


class RefResult:
    def __init__(self, outcome):
        self.outcome = outcome
        self.is_error = not outcome.ok

    def get(self):
        if not self.outcome.ok:
            raise SemFailure("link", "sub-query failed: %s" % self.outcome.failure, self.outcome.fail_path)
        return self.outcome.value


class RefContext:
    def __init__(self, vars_, interp=None):
        self.vars = RefVars(vars_)
        self.caching = True
        self.interp = interp
        self.sub_queries = []

    def disable_cache(self):
        self.caching = False
        return self

    def enable_cache(self, enable=True):
        self.caching = enable
        return self

    def evaluate(self, q, **kw):
        self.sub_queries.append(q)
        out = Outcome()
        try:
            fr = self.interp.text(q)
            out.value = fr.value
        except SemFailure as e:
            out.ok = False
            out.failure = str(e)
            out.fail_path = e.path
        return RefResult(out)


_BOOL = dict(y=True, yes=True, n=False, no=False, t=True, true=True, f=False, false=False)


def _kind_of(p):
    ann = p.annotation
    if isinstance(ann, type):
        k = ann.__name__
    elif p.default is not inspect.Parameter.empty and p.default is not None:
        k = type(p.default).__name__
    else:
        k = None
    return k if k in ("int", "float", "bool", "str") else None


def _convert(kind, raw):
    if kind == "int":
        return int(raw)
    if kind == "float":
        return float(raw)
    if kind == "bool":
        return _BOOL.get(str(raw).lower(), False)
    return raw


class _Frame:
    """interpretation state between two actions"""

    def __init__(self, value, vars_):
        self.value = value
        self.vars = vars_
        self.volatile = False
        self.caching = True
        self.last_command = None
        self.attributes = {}
        self.commands = []
        self.ns_chain = []            # namespace of every executed action
        self.vocab_chain = []         # vocabulary entry of every executed action
        self.filename = None
        self.link_queries = []        # canonical texts of the link queries of the LAST action (as evaluated)

    def copy(self):
        f = _Frame(copy.deepcopy(self.value), copy.deepcopy(self.vars))
        f.volatile, f.caching, f.last_command = self.volatile, self.caching, self.last_command
        f.attributes = dict(self.attributes)
        f.commands = list(self.commands)
        f.ns_chain = list(self.ns_chain)
        f.vocab_chain = list(self.vocab_chain)
        f.filename = self.filename
        f.link_queries = list(self.link_queries)
        return f


def _link_text(link_query):
    return "~X~" + link_query.encode() + "~E"


def _action_list(a):
    out = [a.name]
    for p in a.parameters:
        out.append(p.string if isinstance(p, StringActionParameter) else _link_text(p.link))
    return out


def _split_query(q):
    """Parsed query -> (absolute, actions, filename); only pure transformation queries without header are interpreted."""
    if q.is_empty():
        return q.absolute, [], None
    if not q.is_transform_query():
        raise SemFailure("unsupported", "only pure transformation queries are interpreted", [])
    seg = q.segments[0]
    if seg.header is not None:
        raise SemFailure("unsupported", "segment headers are not interpreted", [])
    return q.absolute, list(seg.query), seg.filename


def canonical(actions, filename=None, absolute=False):
    return LP.Query([TransformQuerySegment(query=list(actions), filename=filename)] if (actions or filename) else [], absolute=absolute).encode()


class Interp:
    """The reference interpretation.  query() is plain left-to-right composition; sub-classes may override query() (the cache
    simulation of C09 does) - step() always goes through self.query()/self.text() for link arguments and sub-evaluations."""

    def __init__(self, variant=()):
        self.variant = set(variant)

    # -- whole (sub)query
    def query(self, actions, filename, absolute, input_value, has_input, extra):
        fr = _Frame(copy.deepcopy(input_value) if has_input else None, copy.deepcopy(DEFAULT_VARS))
        fr.volatile = bool(has_input)     # everything computed from an injected value is volatile (C05)
        n = len(actions)
        for i in range(n):
            fr = self.step(fr, actions, i, absolute, input_value, has_input, extra if i == n - 1 else None)
        if filename is not None:
            fr = fr.copy()
            fr.filename = str(filename)
        return fr

    def text(self, q, **kw):
        """sub-evaluation requested by a command through context.evaluate(text)"""
        pq = parse(q)
        absolute, actions, filename = _split_query(pq)
        return self.query(actions, filename, absolute, None, False, None)

    # -- one action
    def step(self, fr, actions, i, absolute, input_value, has_input, extra):
        a = actions[i]
        here = dict(query=canonical(actions[:i + 1], None, absolute), action_offset=a.position.offset, arg_offset=None, name=a.name,
                    action_text=a.encode(), arg_text=None, full_query=canonical(actions, None, absolute), index=i)
        v = vocab_lookup(fr.vars.get("active_namespaces", ["root"]), a.name)
        if v is None:
            raise SemFailure("unknown", "unknown command %r" % a.name, [dict(here, kind="unknown")])
        # ---- argument values: plain text, or the value of the link's query
        values = []
        link_queries = []
        for p in a.parameters:
            if isinstance(p, StringActionParameter):
                values.append(("text", p.string, p))
            else:
                if any(not isinstance(sg, TransformQuerySegment) for sg in p.link.segments):
                    # a link into the store: setup_vocabulary() installs an EMPTY store, so every referenced resource is missing
                    raise SemFailure("link", "link argument refers to a missing resource",
                                     [dict(here, kind="link", arg_offset=p.position.offset, arg_text=p.encode())])
                l_abs, l_actions, l_fn = _split_query(p.link)
                try:
                    if l_abs:
                        link_queries.append(canonical(l_actions, l_fn, True))
                        sub = self.query(l_actions, l_fn, True, None, False, None)
                    else:
                        # relative link: its query appended to everything left of the current action (incl. the input)
                        link_queries.append(canonical(list(actions[:i]) + l_actions, l_fn, absolute))
                        if "rel_link_without_input" in self.variant:
                            sub = self.query(list(actions[:i]) + l_actions, l_fn, absolute, None, False, None)
                        else:
                            sub = self.query(list(actions[:i]) + l_actions, l_fn, absolute, input_value, has_input, None)
                except SemFailure as e:
                    raise SemFailure("link", "link argument failed: %s" % e, [dict(here, kind="link", arg_offset=p.position.offset, arg_text=p.encode())] + e.path)
                values.append(("link", sub.value, p))
        extra_kw = {}
        extra_used = False
        if extra:
            extra_used = True
            if isinstance(extra, dict):
                extra_kw = extra
            else:
                values.extend(("extra", x, None) for x in extra)
        # ---- bind to the signature
        params = list(v.sig.parameters.values())
        if v.kind != "first":
            params = params[1:]
        bound = []
        ctxobj = RefContext(fr.vars, self)
        pos = 0
        for p in params:
            if p.name == "context":
                bound.append(ctxobj)
                continue
            if p.kind is inspect.Parameter.VAR_POSITIONAL:
                bound.extend(x[1] for x in values[pos:])
                pos = len(values)
                break
            kind = _kind_of(p)
            if pos < len(values):
                src, raw, par = values[pos]
                pos += 1
                try:
                    bound.append(_convert(kind, raw))
                except Exception:
                    raise SemFailure("convert", "argument %r of %s not convertible from %r" % (p.name, a.name, raw),
                                     [dict(here, kind="convert", arg_offset=None if par is None else par.position.offset,
                                           arg_text=None if par is None else par.encode())])
            else:
                if p.name in extra_kw:
                    raw = extra_kw[p.name]
                elif p.default is not inspect.Parameter.empty:
                    raw = p.default
                else:
                    raise SemFailure("toofew", "too few arguments for %s (no %r)" % (a.name, p.name), [dict(here, kind="toofew")])
                try:
                    bound.append(_convert(kind, raw))
                except Exception:
                    raise SemFailure("convert", "argument %r of %s not convertible from %r" % (p.name, a.name, raw), [dict(here, kind="convert")])
        if pos < len(values):
            par = values[pos][2]
            raise SemFailure("toomany", "too many arguments for %s" % a.name,
                             [dict(here, kind="toomany", arg_offset=None if par is None else par.position.offset,
                                   arg_text=None if par is None else par.encode())])
        # ---- call
        state_vars = copy.deepcopy(fr.vars)
        data_in = copy.deepcopy(fr.value)
        refstate = RefState(data_in, state_vars, fr.caching)
        try:
            if v.kind == "first":
                result = v.func(*bound)
            elif v.kind == "state":
                result = v.func(refstate, *bound)
            else:
                result = v.func(data_in, *bound)
        except SemFailure as e:
            raise SemFailure("link", "sub-evaluation failed in %s: %s" % (a.name, e), [dict(here, kind="raise")] + e.path)
        except Exception as e:
            raise SemFailure("raise", "%s raised %s: %s" % (a.name, type(e).__name__, e), [dict(here, kind="raise")])
        new = fr.copy()
        new.value = result.data if isinstance(result, RefState) else result
        new_vars = dict(ctxobj.vars)
        new_vars.update(refstate.vars)
        new_vars.update({k: ctxobj.vars[k] for k in ctxobj.vars._modified})
        new.vars = new_vars
        new.volatile = fr.volatile or bool(v.attrs.get("volatile")) or extra_used
        new.caching = fr.caching and ctxobj.caching and refstate.metadata.get("caching", True)
        new.last_command = _action_list(a)
        new.commands = fr.commands + [new.last_command]
        new.attributes = dict({k: x for k, x in fr.attributes.items() if k[:1].isupper()}, **v.attrs)
        new.attributes["ns"] = v.ns
        new.ns_chain = fr.ns_chain + [v.ns]
        new.vocab_chain = fr.vocab_chain + [v]
        new.link_queries = link_queries
        new.sub_queries = list(ctxobj.sub_queries)
        return new


def frame_cacheable(fr):
    return (not fr.volatile) and fr.caching


class CacheSim(Interp):
    """Reference model of a caching evaluator doing the MINIMAL work the property C09 allows: a (sub)query whose canonical
    text is cached costs nothing; otherwise its predecessor is obtained the same way and only the last action is executed;
    every cacheable result admitted by `admit(frame)` is remembered."""

    def __init__(self, admit=None):
        Interp.__init__(self)
        self.cached = {}
        self.admit = admit or (lambda fr: True)

    def can_lookup(self, has_input, extra):
        return not has_input and not extra

    def can_store(self, has_input, extra):
        return not has_input and not extra

    def query(self, actions, filename, absolute, input_value, has_input, extra):
        key = canonical(actions, filename, absolute)
        if self.can_lookup(has_input, extra) and key in self.cached:
            return self.cached[key].copy()
        n = len(actions)
        if filename is not None:
            fr = self.query(actions, None, absolute, input_value, has_input, extra).copy()
            fr.filename = str(filename)
        elif n == 0:
            fr0 = _Frame(copy.deepcopy(input_value) if has_input else None, copy.deepcopy(DEFAULT_VARS))
            fr0.volatile = bool(has_input)
            return fr0
        else:
            pre = self.query(actions[:-1], None, absolute, input_value, has_input, None)
            fr = self.step(pre, actions, n - 1, absolute, input_value, has_input, extra)
        if self.can_store(has_input, extra) and frame_cacheable(fr) and self.admit(fr):
            self.cached[key] = fr.copy()
        return fr

    def run(self, q):
        """Expected CALLS of evaluating q (text) with the current simulated cache content; returns (calls, frame|None)."""
        saved = list(CALLS)
        del CALLS[:]
        fr = None
        try:
            absolute, actions, filename = _split_query(parse(q))
            fr = self.query(actions, filename, absolute, None, False, None)
        except SemFailure:
            pass
        finally:
            calls = list(CALLS)
            CALLS[:] = saved
        return calls, fr


class PollutedSim(CacheSim):
    """Model of the CONSEQUENCES of one defect, used only to classify observed violations: Context.evaluate(q, input_value=v) without
    input_value_specified bypasses the cache lookup but stores q and all its prefixes under their plain keys (and evaluates relative
    links without the input)."""

    def __init__(self):
        CacheSim.__init__(self)
        self.variant = {"rel_link_without_input"}

    def can_store(self, has_input, extra):
        return not extra

    def play(self, history):
        saved = list(CALLS)
        try:
            for op in history:
                k = op[0]
                try:
                    if k == "eval":
                        self.run(op[1])
                    elif k == "eval_input":
                        absolute, actions, filename = _split_query(parse(op[2]))
                        self.query(actions, filename, absolute, op[1], True, None)
                    elif k == "eval_extra":
                        absolute, actions, filename = _split_query(parse(op[2]))
                        if actions:
                            self.query(actions[:-1], None, absolute, None, False, None)
                        self.cached.pop(parse(op[2]).encode(), None)
                    elif k == "remove":
                        self.cached.pop(op[1], None)
                    elif k == "clean":
                        self.cached.clear()
                except SemFailure:
                    pass
                except Exception:
                    pass
        finally:
            CALLS[:] = saved
        return self


VARIANT = set()   # names of *deviations* switched on to classify an observed defect (never on for the reference itself)


def SemVariant(variant, *a, **k):
    """Outcome of the reference with the named deviation(s) switched on - used only to *classify* an observed defect."""
    global VARIANT
    old = VARIANT
    VARIANT = set(variant)
    try:
        return Sem(*a, **k)
    finally:
        VARIANT = old


_SEM_MEMO = {}


def Sem(query, input_value=None, extra=None, has_input=None):
    """Reference outcome of a query (text or parsed).  Never raises for query-level failures."""
    if has_input is None:
        has_input = input_value is not None
    memo_key = None
    if isinstance(query, str) and not has_input and not extra and not VARIANT:
        memo_key = query
        hit = _SEM_MEMO.get(memo_key)
        if hit is not None:
            return copy.deepcopy(hit)
    saved = list(CALLS)
    del CALLS[:]
    out = Outcome()
    try:
        q = parse(query) if isinstance(query, str) else query
        out.query = q.encode()
        absolute, actions, filename = _split_query(q)
        out.n_actions = len(actions)
        fr = Interp(VARIANT).query(actions, filename, absolute, input_value, has_input, extra)
        out.value, out.vars, out.volatile, out.caching_on = fr.value, fr.vars, fr.volatile, fr.caching
        out.last_command = fr.last_command
        out.commands = fr.commands
        out.attributes = fr.attributes
        out.ns_chain = fr.ns_chain
        out.vocab_names = [(v.ns, v.name, v.func.__name__) for v in fr.vocab_chain]
        out.link_queries = fr.link_queries
        out.sub_queries = getattr(fr, "sub_queries", [])
        if filename is not None:
            out.filename = str(filename)
            out.extension = out.filename.rsplit(".", 1)[1].lower() if "." in out.filename else None
    except SemFailure as e:
        out.ok = False
        out.failure = str(e)
        out.failure_kind = e.kind
        out.fail_path = e.path
        if e.path:
            top = e.path[0]
            out.failing_position = top["arg_offset"] if (top["kind"] == "link" and top["arg_offset"] is not None) else top["action_offset"]
            out.failing_action_offset = top["action_offset"]
    except Exception as e:     # not parseable
        out.ok = False
        out.failure = "not interpretable: %s" % e
        out.failure_kind = "unparseable"
    finally:
        out.calls = list(CALLS)
        CALLS[:] = saved
    if memo_key is not None:
        if len(_SEM_MEMO) > 100000:
            _SEM_MEMO.clear()
        _SEM_MEMO[memo_key] = copy.deepcopy(out)
    return out


def sem_cacheable(o):
    """May a cache serve data for a key with reference outcome o?"""
    return o.ok and not o.volatile and o.caching_on


# ---------------------------------------------------------------------------------------------------------------------
# run: the real evaluation
# ---------------------------------------------------------------------------------------------------------------------
def observe_state(state):
    """Outcome from a liquer State (returned by evaluate or by cache.get)."""
    out = Outcome()
    out.state = state
    md = state.metadata
    out.query = md.get("query")
    out.volatile = bool(state.is_volatile())
    out.vars = dict(md.get("vars") or {})
    out.filename = md.get("filename")
    out.extension = md.get("extension")
    cmds = md.get("commands") or []
    out.last_command = list(cmds[-1]) if cmds else None
    out.caching_on = bool(md.get("caching", True))
    if md.get("is_error"):
        out.ok = False
        out.failure_kind = "error-state"
        out.failure = md.get("message")
        for e in md.get("log") or []:
            if e.get("kind") == "error":
                pos = e.get("position")
                out.reported_position = None if pos is None else pos.get("offset")
                out.reported_query = e.get("query")
                out.failure = e.get("message")
        try:
            import io
            import contextlib
            with contextlib.redirect_stdout(io.StringIO()):
                state.get()
            out.get_raised = False
        except Exception as e:
            out.get_raised = True
            out.get_exception = e
    else:
        out.value = state.data
    return out


def run(query, cache=None, input_value=None, extra=None, use_cache_arg=False, store_key=None, context=None, keep_global=False,
        input_mode="evaluate_on"):
    """Evaluate with a fresh Context against the real code.  The cache (default NoCache) is installed as the global cache
    (the documented configuration: liquer.cache.set_cache); with use_cache_arg it is passed as evaluate(cache=...) instead.
    Never raises."""
    old = LCACHE.get_cache()
    if not keep_global:
        if use_cache_arg:
            LCACHE.set_cache(LCACHE.NoCache())
        else:
            LCACHE.set_cache(cache if cache is not None else LCACHE.NoCache())
    saved = list(CALLS)
    del CALLS[:]
    ctx_ = context if context is not None else LCTX.Context()
    try:
        kw = {}
        if store_key is not None:
            kw["store_key"] = store_key
        if input_value is not None and input_mode == "evaluate_on":
            state = ctx_.evaluate_on(input_value, query, extra_parameters=extra)
        elif input_value is not None:
            # evaluate(q, input_value=v) as tests/test_context.py::test_initial_value calls it (no input_value_specified)
            if use_cache_arg and cache is not None:
                kw["cache"] = cache
            state = ctx_.evaluate(query, input_value=input_value, extra_parameters=extra, **kw)
        else:
            if use_cache_arg and cache is not None:
                kw["cache"] = cache
            state = ctx_.evaluate(query, extra_parameters=extra, **kw)
        out = observe_state(state)
    except BaseException as e:  # noqa - an evaluation exception is a failure outcome
        if isinstance(e, (KeyboardInterrupt, SystemExit)):
            raise
        out = Outcome()
        out.ok = False
        out.failure_kind = "exception"
        out.failure = "%s: %s" % (type(e).__name__, getattr(e, "original_message", None) or e)
        out.exception = e
        pos = getattr(e, "position", None)
        out.reported_position = None if pos is None else getattr(pos, "offset", None)
        out.reported_query = getattr(e, "query", None)
    finally:
        out_calls = list(CALLS)
        CALLS[:] = saved
        if not keep_global:
            LCACHE.set_cache(old)
    out.calls = out_calls
    return out


def selfcheck_memo(queries):
    """Outcomes with the memoised parser must equal outcomes with the original parser.  Returns list of differing queries."""
    bad = []
    for q in queries:
        fast_parse(False)
        a = run(q)
        fast_parse(True)
        b = run(q)
        if a.ok != b.ok or (a.ok and outcome_diff(a, b)) or a.reported_position != b.reported_position:
            bad.append(q)
    return bad


# ---------------------------------------------------------------------------------------------------------------------
# query generators
# ---------------------------------------------------------------------------------------------------------------------
ESC = encode_token("a b/c-d~e")            # escaped token: space, slash, minus, tilde
URL = encode_token("http://x.y/z")

# argument shapes per command: list of argument-tuples (already encoded text); LINK is replaced by link texts
L = "<LINK>"
FIRST_ACTIONS = {
    "one": [()],
    "hello": [(), ("abc",), (ESC,), ("",), (L,)],
    "num": [(), ("3",), ("~5",), ("",), ("x",), ("%34",), (L,), ("1", "2")],
    "lst": [(), ("a",), ("a", "", ESC), (L, "z")],
    "dct": [(), ("k", "2")],
    "failfirst": [()],
    "vfirst": [()],
}
DATA_ACTIONS = {
    "add": [(), ("2",), ("~3",), ("",), ("x",), (L,), ("1", "2")],
    "mul": [(), ("2.5",), ("~1.5",), ("3",), ("",), (L,)],
    "tog": [(), ("t",), ("F", "no"), ("zzz", ""), (L,), ("t", "f", "t")],
    "cat": [(), ("abc",), (ESC, URL), ("", ""), (L, "x"), ("a", "b", "c")],
    "gen": [(), ("g",), ("",), (L,)],
    "req": [(), ("1",), ("1", "s"), ("x", "s"), (L, L), ("1", "s", "t")],
    "coll": [(), ("a",), ("a", "", ESC), (L, "z", L)],
    "mix": [(), ("1",), ("1", "2.5"), ("1", "2.5", "r", ""), ("1", "x"), (L, L, L)],
    "ctx": [(), ("4",), ("4", "5")],
    "cmid": [(), ("4",)],
    "ident": [()],
    "st": [(), ("s",)],
    "let": [("v", "new"), ("w", ESC), ("v",), ("v", L)],
    "state_variable": [("v",), ("w",), ("lv",), ()],
    "appendvar": [(), ("lv", "j"), ("v", "j")],
    "cset": [("w", "cw"), ("v", "cv")],
    "cmut": [(), ("v",)],
    "cget": [(), ("w",), ("lv",)],
    "ns": [("second",), (), ("second", "nosuch")],
    "sec": [(), ("2",)],
    "fail": [(), ("why",)],
    "vol": [(), ("1",)],
    "nocache": [()],
    "nocache2": [()],
    "push": [(), ("q",)],
    "setkey": [(), ("z", "9")],
    "poplen": [()],
    "cap": [()],
    "low": [()],
    "cap2": [()],
    "sub": [(), (encode_token("num-3/add-2"),), (encode_token("one/fail"),), (encode_token("hello/let-v-sv/st"),)],
    "nosuch": [(), ("1",)],
}

FILENAMES = ["out.txt", "data.json", "a.TAR.GZ", "x.", ".hidden"]

# link bodies (query text inside ~X~ ... ~E), by nesting depth
LINKS1 = ["/num-3", "/one/add-2", "add-2", "num-4", "/hello", "/one/fail", "fail", "/nosuch", "/num-3/x.txt", "state_variable-v", "/lst-a-b",
          "let-v-lk/state_variable-v"]
LINKS2 = ["/num-~X~/one~E", "add-~X~add-1~E", "/one/add-~X~add-1~E", "add-~X~/num-2~E", "/num-3/add-~X~/one/fail~E", "add-~X~fail~E",
          "/hello-~X~/hello~E"]
LINKS3 = ["/num-~X~/num-~X~/one~E~E", "add-~X~add-~X~add-1~E~E", "/one/add-~X~add-~X~/num-2~E~E", "add-~X~/one/add-~X~fail~E~E"]


def link_texts(depth):
    out = list(LINKS1)
    if depth >= 2:
        out += LINKS2
    if depth >= 3:
        out += LINKS3
    return ["~X~" + x + "~E" for x in out]


def action_texts(table, links, max_link_variants=None):
    """All action texts of a table; every LINK placeholder is replaced by each link text (all placeholders of one action by
    the same link, then - for two-link shapes - by a shifted pairing so that different links meet in one action)."""
    out = []
    for name, shapes in table.items():
        for shape in shapes:
            if L in shape:
                ls = links if max_link_variants is None else links[:max_link_variants]
                for j, lt in enumerate(ls):
                    k = 0
                    args = []
                    for a in shape:
                        if a == L:
                            args.append(ls[(j + k) % len(ls)])
                            k += 1
                        else:
                            args.append(a)
                    out.append(name + "".join("-" + a for a in args))
            else:
                out.append(name + "".join("-" + a for a in shape))
    return out


# reduced alphabets for the longer queries (kept small so that the enumeration stays exhaustive)
CORE_FIRST = ["one", "num-3", "hello", "lst-a-b", "dct", "vfirst"]
CORE_MID = ["add-2", "cat-" + ESC, "coll-a-", "let-v-new", "state_variable-v", "st-s", "ns-second", "sec", "fail",
            "vol-1", "nocache", "push", "setkey", "poplen", "cap", "low", "cset-w-cw", "appendvar", "add-~X~add-1~E", "add-~X~/num-3~E",
            "cat-~X~state_variable-v~E", "sub", "cget", "add", "nosuch", "add-x",
            "coll-~X~let-v-in/state_variable-v~E-~X~state_variable-v~E",
            "nocache2", "mul-2.5", "let-w-x", "tog-t", "ctx-4", "gen", "req-1", "ident-1", "cmut"]


def all_queries(tier="quick"):
    """Bounded-exhaustive generator of transformation queries over the vocabulary (text)."""
    depth = 2 if tier == "quick" else 3
    maxlen = 3 if tier == "quick" else 4
    links = link_texts(depth)
    seen = set()

    def emit(q):
        if q not in seen:
            seen.add(q)
            return True
        return False

    firsts = action_texts(FIRST_ACTIONS, links)
    datas = action_texts(DATA_ACTIONS, links)
    # length 1: every action shape of every command as the first (and only) action
    for a in firsts + datas:
        if emit(a):
            yield a
    # length 2: every action shape after a numeric, a text, a list and a dictionary producer
    for f in ["one", "hello", "lst-a-b", "dct", "num-~X~/num-2~E"] + (["vfirst", "failfirst", "/one"] if tier != "quick" else []):
        for a in datas + (firsts if tier != "quick" else firsts[:6]):
            q = f + "/" + a
            if emit(q):
                yield q
    # file names
    for fn in FILENAMES:
        for p in ["", "one", "one/add-2", "hello/cat-" + ESC, "one/fail", "lst-a/push", "one/let-v-f/add-~X~add-1~E"]:
            q = (p + "/" + fn) if p else fn
            if emit(q):
                yield q
    # length 3 (4): exhaustive over the reduced alphabets
    mids = CORE_MID if tier != "quick" else CORE_MID[:27]
    for f in (CORE_FIRST if tier != "quick" else CORE_FIRST[:4]):
        for m1 in mids:
            for m2 in mids:
                q = "%s/%s/%s" % (f, m1, m2)
                if emit(q):
                    yield q
    if maxlen >= 4:
        small = ["add-2", "let-v-new", "state_variable-v", "ns-second", "fail", "vol-1", "nocache", "push", "cap", "low",
                 "add-~X~add-1~E", "cat-~X~state_variable-v~E", "sub", "appendvar", "cset-w-cw", "st"]
        for f in ["one", "lst-a-b", "hello"]:
            for m in itertools.product(small, repeat=3):
                q = f + "/" + "/".join(m)
                if emit(q):
                    yield q
    # absolute spelling and a trailing file name on the 3-action queries
    for f in CORE_FIRST[:3]:
        for m1 in mids[:12]:
            q = "/%s/%s/add-~X~add-1~E/r.txt" % (f, m1)
            if emit(q):
                yield q


def random_queries(seed, n, depth=3, maxlen=5):
    """Random transformation queries (text), reproducible from the seed."""
    rnd = random.Random(seed)
    firsts = action_texts(FIRST_ACTIONS, link_texts(depth))
    datas = action_texts(DATA_ACTIONS, link_texts(depth))
    for _ in range(n):
        k = rnd.randint(1, maxlen)
        acts = [rnd.choice(firsts if rnd.random() < 0.85 else datas)]
        for _i in range(k - 1):
            acts.append(rnd.choice(datas if rnd.random() < 0.9 else firsts))
        q = "/".join(acts)
        if rnd.random() < 0.15:
            q += "/" + rnd.choice(FILENAMES)
        if rnd.random() < 0.1:
            q = "/" + q
        yield q


def prefixes(query):
    """Canonical texts of all proper prefixes (as the evaluator recurses through them) and of the query itself, longest last."""
    q = parse(query)
    out = []
    cur = q
    while cur is not None and not cur.is_empty():
        out.append(cur.encode())
        cur, _r = cur.predecessor()
    return list(reversed(out))


def link_subqueries(query):
    """Canonical texts of the queries evaluated for link arguments (recursively): absolute ones as they are, relative ones
    appended to the prefix left of their action."""
    out = []

    def walk(actions, absolute):
        for i, a in enumerate(actions):
            for p in a.parameters:
                if isinstance(p, LinkActionParameter):
                    try:
                        l_abs, l_actions, l_fn = _split_query(p.link)
                    except SemFailure:
                        continue
                    if l_abs:
                        out.append(canonical(l_actions, l_fn, True))
                        walk(l_actions, True)
                    else:
                        full = list(actions[:i]) + l_actions
                        out.append(canonical(full, l_fn, absolute))
                        walk(full, absolute)
    try:
        absolute, actions, filename = _split_query(parse(query))
    except Exception:
        return out
    walk(actions, absolute)
    res = []
    for x in out:
        if x not in res:
            res.append(x)
    return res


# ---------------------------------------------------------------------------------------------------------------------
# caches
# ---------------------------------------------------------------------------------------------------------------------
def cache_factories():
    """name -> zero-argument factory returning (cache, cleanup)."""
    from liquer.cache import (NoCache, MemoryCache, FileCache, XORFileCache, SQLCache, SQLStringCache, StoreCache, CacheProxy)
    from liquer.store import MemoryStore, FileStore
    dirs = []

    def tmp():
        d = tempfile.mkdtemp(prefix="liquer_evalcache_")
        return d

    def with_dir(make):
        def f():
            d = tmp()
            return make(d), (lambda: shutil.rmtree(d, ignore_errors=True))
        return f

    def plain(make):
        def f():
            return make(), (lambda: None)
        return f

    def two_dirs(make):
        def f():
            d1, d2 = tmp(), tmp()
            return make(d1, d2), (lambda: [shutil.rmtree(d, ignore_errors=True) for d in (d1, d2)])
        return f

    out = {
        "NoCache": plain(NoCache),
        "MemoryCache": plain(MemoryCache),
        "FileCache": with_dir(lambda d: FileCache(d)),
        "XORFileCache": with_dir(lambda d: XORFileCache(d, b"code")),
        "SQLCache.from_sqlite": plain(lambda: SQLCache.from_sqlite()),
        "SQLStringCache.from_sqlite": plain(lambda: SQLStringCache.from_sqlite()),
        "StoreCache(MemoryStore)": plain(lambda: StoreCache(MemoryStore(), "cache")),
        "StoreCache(MemoryStore,flat)": plain(lambda: StoreCache(MemoryStore(), "cache", flat=True)),
        "StoreCache(FileStore)": with_dir(lambda d: StoreCache(FileStore(d), "cache")),
        "StoreCache(FileStore,flat)": with_dir(lambda d: StoreCache(FileStore(d), "cache", flat=True)),
        "MemoryCache.if_not_contains(abc)": plain(lambda: MemoryCache().if_not_contains("abc")),
        "MemoryCache.if_contains(ABC)": plain(lambda: MemoryCache().if_contains("ABC")),
        "MemoryCache.if_attribute_equal(ns,root)": plain(lambda: MemoryCache().if_attribute_equal("ns", "root")),
        "MemoryCache.if_attribute_not_equal(ns,second)": plain(lambda: MemoryCache().if_attribute_not_equal("ns", "second")),
        "MemoryCache+MemoryCache": plain(lambda: MemoryCache() + MemoryCache()),
        "MemoryCache.if_contains(ABC)+MemoryCache": plain(lambda: MemoryCache().if_contains("ABC") + MemoryCache()),
        "MemoryCache.if_contains(ABC)+FileCache": with_dir(lambda d: MemoryCache().if_contains("ABC") + FileCache(d)),
        "NoCache+MemoryCache": plain(lambda: NoCache() + MemoryCache()),
        "FileCache.if_not_contains(abc)+SQLCache": with_dir(lambda d: FileCache(d).if_not_contains("abc") + SQLCache.from_sqlite()),
        "CacheProxy(MemoryCache)": plain(lambda: CacheProxy(MemoryCache())),
        "CacheProxy(FileCache)": with_dir(lambda d: CacheProxy(FileCache(d))),
    }
    try:
        from cryptography.fernet import Fernet
        from liquer.cache import FernetFileCache
        key = b"wDtgWDWfwXW2lMG0ZCqBBhOSLLlp1FGsgFsEBCyy0Ys="
        Fernet(key)
        out["FernetFileCache"] = with_dir(lambda d: FernetFileCache(d, key))
    except Exception:
        pass
    return out


def quiet(f, *a, **k):
    """call f with stdout/stderr swallowed (the library prints a lot)"""
    import io
    import contextlib
    with contextlib.redirect_stdout(io.StringIO()), contextlib.redirect_stderr(io.StringIO()):
        return f(*a, **k)


# ---------------------------------------------------------------------------------------------------------------------
# violation bookkeeping shared by the property modules
# ---------------------------------------------------------------------------------------------------------------------
class Collector:
    """Keeps, per root cause, ONE minimal witness (plus the number of instances): every distinct `known` text is a group;
    violations without a `known` text are kept individually (the `limit` smallest)."""

    def __init__(self, limit=6):
        self.limit = limit
        self.known = {}
        self.unknown = []
        self.evaluations = 0
        self.nontrivial = set()

    @staticmethod
    def _size(v):
        return (len(str(v.get("query", ""))) + 40 * len(v.get("history", []) or []) + (25 if v.get("input_value") is not None else 0)
                + (25 if v.get("extra_parameters") is not None else 0))

    def add(self, contract, function, known=None, **witness):
        v = dict(contract=contract, function=function)
        v.update({k: _simple(x) if not isinstance(x, (str, int, float, bool, type(None))) else x for k, x in witness.items()})
        if known:
            v["known"] = known
            cur = self.known.get(known)
            if cur is None:
                v["instances"] = 1
                self.known[known] = v
            else:
                n = cur["instances"] + 1
                if self._size(v) < self._size(cur):
                    self.known[known] = v
                    cur = v
                cur["instances"] = n
        else:
            self.unknown.append(v)
            self.unknown.sort(key=self._size)
            del self.unknown[self.limit:]

    def violations(self):
        return self.unknown + [self.known[k] for k in sorted(self.known)]


def standin(name, bound, cases, exhaustive):
    return dict(name=name, labelled="bounded", bound=bound, cases=cases, exhaustive=bool(exhaustive))


# ---------------------------------------------------------------------------------------------------------------------
# histories of cache-related operations (shared by C04 C05 C09 C10 C12)
# ---------------------------------------------------------------------------------------------------------------------
def apply_op(cache, op, mode="global"):
    """op: ["eval", q] | ["eval_on", v, q] | ["eval_input", v, q] | ["eval_extra", extra, q] | ["remove", key] | ["clean"].
    mode "global": the cache is the configured global cache (liquer.cache.set_cache); "argument": passed as evaluate(cache=)."""
    arg = (mode == "argument")
    k = op[0]
    if k == "eval":
        return run(op[1], cache=cache, use_cache_arg=arg)
    if k == "eval_on":
        return run(op[2], cache=cache, input_value=op[1], use_cache_arg=arg)
    if k == "eval_input":
        return run(op[2], cache=cache, input_value=op[1], input_mode="input_value", use_cache_arg=arg)
    if k == "eval_extra":
        return run(op[2], cache=cache, extra=op[1], use_cache_arg=arg)
    if k == "eval_on_extra":
        return run(op[3], cache=cache, input_value=op[1], extra=op[2], use_cache_arg=arg)
    if k == "remove":
        try:
            return quiet(cache.remove, op[1])
        except Exception as e:
            return e
    if k == "clean":
        try:
            return quiet(cache.clean)
        except Exception as e:
            return e
    raise ValueError(op)


def as_typed_variants(q):
    """Non-canonical spellings of the same query (same parse result): percent-encoded digit/letter, '~/' for '~I'."""
    out = []
    import re
    m = re.search(r"-([0-9a-z])(?=[-/]|$)", q)
    if m:
        out.append(q[:m.start(1)] + "%%%02X" % ord(m.group(1)) + q[m.end(1):])
    if "~I" in q:
        out.append(q.replace("~I", "~/", 1))
    res = []
    for x in out:
        try:
            if x != q and parse(x).encode() == parse(q).encode():
                res.append(x)
        except Exception:
            pass
    return res


def related_queries(q):
    """Queries related to q: canonical prefixes, link sub-queries, extensions, other spellings."""
    pre = prefixes(q)
    links = link_subqueries(q)
    canon = parse(q).encode()
    ext = []
    if parse(q).filename() is None:
        ext = [canon + "/ident", canon + "/r.txt", canon + "/coll-~X~ident~E"]
    else:
        ext = [pre[-2] + "/ident"] if len(pre) > 1 else []
    rel = []
    for x in pre + links + ext + as_typed_variants(q):
        if x not in rel:
            rel.append(x)
    return rel


def related_ops(q, inputs=(10,), extras=([5],)):
    """The operation alphabet of the histories for target query q."""
    rel = related_queries(q)
    ops = [["eval", x] for x in rel]
    canon = parse(q).encode()
    pre = prefixes(q)
    for v in inputs:
        ops.append(["eval_on", v, canon])
        ops.append(["eval_input", v, canon])
        if len(pre) > 1:
            ops.append(["eval_on", v, pre[0]])
            ops.append(["eval_input", v, pre[0]])
    for e in extras:
        if parse(q).filename() is None:
            ops.append(["eval_extra", e, canon])
            ops.append(["eval_on_extra", inputs[0], e, canon])
        if len(pre) > 1:
            ops.append(["eval_extra", e, pre[-2] if parse(q).filename() is None else pre[0]])
    for x in pre + link_subqueries(q)[:2]:
        ops.append(["remove", x])
    ops.append(["clean"])
    res = []
    for o in ops:
        if o not in res:
            res.append(o)
    return res


def all_keys_of_history(cache, history_queries):
    """Every key worth inspecting: what the cache lists + canonical and as-typed spellings of every (sub)query evaluated."""
    keys = []
    try:
        for k in quiet(lambda: list(cache.keys())):
            if k not in keys and isinstance(k, str):
                keys.append(k)
    except Exception:
        pass
    for q in history_queries:
        try:
            cands = [q, parse(q).encode()] + prefixes(q) + link_subqueries(q)
        except Exception:
            cands = [q]
        for k in cands:
            if k not in keys:
                keys.append(k)
    return keys


def shrink_history(history, still_fails):
    """Greedy minimisation: drop operations while the failure persists (still_fails(history) -> bool re-runs from scratch)."""
    h = list(history)
    changed = True
    while changed and len(h) > 0:
        changed = False
        for i in range(len(h)):
            cand = h[:i] + h[i + 1:]
            if still_fails(cand):
                h = cand
                changed = True
                break
    return h


def Counter_surplus(real_calls, allowed_calls):
    """calls (multiset) executed but not allowed"""
    import json
    from collections import Counter
    d = Counter(json.dumps(c, sort_keys=True, default=str) for c in real_calls) - Counter(json.dumps(c, sort_keys=True, default=str) for c in allowed_calls)
    return [json.loads(k) for k in d.elements()]


def canonical_parent(canon_query):
    """canonical text of the query the LAST ACTION of canon_query was applied to (a trailing file name is not an action)"""
    q = parse(canon_query)
    if q.filename() is not None:
        q, _r = q.predecessor()
    p, _r = q.predecessor()
    # the empty query has one text, '' (an absolute empty query would print as '/': the same query, nothing to apply an action to)
    return "" if (p is None or p.is_empty()) else p.encode()
