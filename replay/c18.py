"""C18: labelled *bounded* stand-in - metadata truthfully describes every result.  The metadata returned by evaluate()
(no cache, each cache kind cold and warm) is compared with what the reference interpreter derives; the copy kept by the
cache (get_metadata / get) and by the store (evaluate(..., store_key=)) must agree with the returned one."""
import time

import liquer.commands as LCMD
from liquer.constants import MIMETYPES, mimetype_from_extension
from liquer.state_types import type_identifier_of, data_characteristics
from liquer.store import get_store
from replay import evalmodel as M

CONTRACT = "returned metadata == reference (query, status/is_error/get, type, characteristics, last command+ns+version, parent_query, sub-queries, file name/extension/mimetype, attributes); cache and store copies agree; failures marked in both"

K_PARENT_FLAG = ("when a non-last action fails ('one/fail/add-1'), the metadata the evaluating contexts of the longer queries leave in the cache for "
                 "'one/fail/add-1' has status 'error' but is_error False (Context.evaluate, context.py:1083-1085 sets self.status = ERROR and stores "
                 "Context.metadata(), whose is_error comes from self.is_error which is never set there); the returned state and the store copy say True")

K_NOACTION = ("a query that consists of a file name only ('x.json': no action at all) returns the initial state relabelled: its metadata (and the store copy) has "
              "status 'none'/None, never 'ready' (Context.evaluate: the status is only set by evaluate_action for a real action)")
K_STORECACHE_MIME = ("StoreCache.store overwrites metadata['mimetype'] with the media type of its own serialisation format (cache.py StoreCache.store: "
                     "metadata['mimetype'] = mime): for 'hello/f.ps' the returned metadata says application/postscript, the cache's copy text/plain")

AGREE_FIELDS = ("query", "status", "is_error", "type_identifier", "data_characteristics", "parent_query", "filename", "extension", "mimetype")

SPECIAL = [
    "hello/cap/low/cat-~X~/num-3~E-~X~st~E/out.txt", "one/ns-second/sec", "one/ns-second/add-3", "one/ns-second/sec/add-1", "one/cap/add-1/low/cap2/add-2",
    "one/low/add-1", "one/cap/low", "one/cap2/cap", "one/sub", "one/sub-" + M.encode_token("hello/cat-a") + "/coll-~X~ident~E", "one/add-%32/add-1",
    "hello-a~/b/cat", "/one/add-2/add-~X~add-1~E", "lst-a-b/push", "dct/setkey", "one/mul-2.5", "ident", "one/tog-t", "one/vol-1", "one/vol-1/add-1",
    "one/nocache/add-1", "vfirst", "one/coll-~X~/one~E-~X~/one~E", "hello/x.TXT", "hello/a.tar.gz", "one/d.", "one/.hidden", "x.json",
    # failing
    "one/fail", "one/fail/add-1", "one/fail/add-1/add-2", "nosuch", "one/add-x", "one/req", "one/add-1-2/ident", "one/add-~X~/one/fail~E", "one/add-~X~fail~E/ident",
    # a first command (takes no input) after the first position: capitalised attributes collected so far persist through it
    "one/cap/hello", "one/cap/hello/low", "hello/cap/one/add-1", "one/cap/cap2/one",
    # long pipelines: a failure after more steps than the child log keeps entries, and one far before the end
    "one/add-1/add-1/add-1/add-1/add-1/add-1/fail/add-1", "one/add-1/add-1/add-1/add-1/add-1/add-1/add-1/add-1/add-1/fail",
    "one/fail/add-1/add-1/add-1/add-1/add-1/add-1/add-1/add-1",
    "failfirst/x.txt", "one/sub-" + M.encode_token("one/fail"), "one/sub-" + M.encode_token("one/fail") + "/ident", "one/ns-second/sec/fail/add-1",
]
ENCODABLE = {"text": ("txt", "html", "md", "csv", "json"), "generic": ("json", "html", "htm"), "dictionary": ("json", "djson"), "pickle": ("pickle", "pkl", "json", "html", "htm")}


def last_entry(md, name):
    v = md.get(name) or []
    return v[-1] if v else None


def error_messages(md):
    return [e.get("message") for e in (md.get("log") or []) + (md.get("child_log") or []) if e.get("kind") == "error" and e.get("message")]


def check_metadata(col, md, ref, data, what, w, have_data=True):
    """md: metadata under test; ref: Sem outcome (ok); data: the actual value (when have_data)"""
    def bad(field, expected, observed):
        known = None
        if field == "status/is_error" and ref.last_command is None and str(observed).lower().startswith("none"):
            known = K_NOACTION
        if field == "mimetype" and "StoreCache" in str(w.get("cache")) and ("cache.get" in what or w.get("phase") == "warm"):
            known = K_STORECACHE_MIME
        col.add(CONTRACT, what, known=known, field=field, expected=M._simple(expected), observed=M._simple(observed), **w)
    if md.get("query") != ref.query:
        bad("query", ref.query, md.get("query"))
    if md.get("status") != "ready" or md.get("is_error"):
        bad("status/is_error", "ready/False", "%s/%s" % (md.get("status"), md.get("is_error")))
    if have_data:
        if md.get("type_identifier") != type_identifier_of(data):
            bad("type_identifier", type_identifier_of(data), md.get("type_identifier"))
        if md.get("data_characteristics") != data_characteristics(data):
            bad("data_characteristics", data_characteristics(data), md.get("data_characteristics"))
    if ref.last_command is not None:
        if last_entry(md, "commands") != ref.last_command:
            bad("commands[-1]", ref.last_command, last_entry(md, "commands"))
        ec = last_entry(md, "extended_commands") or {}
        ns_, name_, fn_ = ref.vocab_names[-1]
        v = M.vocab_lookup([ns_], name_)
        if ec.get("ns") != ns_:
            bad("extended_commands[-1].ns", ns_, ec.get("ns"))
        if (ec.get("command_metadata") or {}).get("version") != LCMD.callable_hash(v.func):
            bad("extended_commands[-1].command_metadata.version", LCMD.callable_hash(v.func), (ec.get("command_metadata") or {}).get("version"))
        if ec.get("qcommand") != ref.last_command:
            bad("extended_commands[-1].qcommand", ref.last_command, ec.get("qcommand"))
        exp_parent = M.canonical_parent(ref.query)
        if md.get("parent_query") != exp_parent:
            bad("parent_query", exp_parent, md.get("parent_query"))
        argq = [x.get("query") for x in md.get("argument_queries") or []]
        exp_arg = [a[3:-2] for a in ref.last_command[1:] if isinstance(a, str) and a.startswith("~X~") and a.endswith("~E")]
        if argq != exp_arg:
            bad("argument_queries", exp_arg, argq)
        subq = sorted(set(x.get("query") for x in md.get("direct_subqueries") or []))
        exp_sub = sorted(set(list(ref.link_queries) + list(ref.sub_queries)))
        if subq != exp_sub:
            bad("direct_subqueries", exp_sub, subq)
        attrs = {k: x for k, x in (md.get("attributes") or {}).items() if k != "volatile"}
        exp_attrs = {k: x for k, x in ref.attributes.items() if k != "volatile"}
        if attrs != exp_attrs:
            bad("attributes (capitalised persist, others describe the last command)", exp_attrs, attrs)
        if bool((md.get("attributes") or {}).get("volatile", False)) != ref.volatile:
            bad("attributes.volatile", ref.volatile, (md.get("attributes") or {}).get("volatile"))
    if ref.filename is not None:
        if md.get("filename") != ref.filename:
            bad("filename", ref.filename, md.get("filename"))
        if (md.get("extension") or "").lower() != (ref.extension or ""):
            bad("extension", ref.extension, md.get("extension"))
        if ref.extension in MIMETYPES and md.get("mimetype") != mimetype_from_extension(ref.extension):
            bad("mimetype", mimetype_from_extension(ref.extension), md.get("mimetype"))
    else:
        if md.get("filename") is not None or md.get("extension") is not None:
            bad("filename/extension (no file name in the query)", None, [md.get("filename"), md.get("extension")])


def agree(col, returned, copy_, what, w, fields=AGREE_FIELDS):
    for f in fields:
        if f == "mimetype" and returned.get("filename") is None:
            continue        # a media type is only demanded when a trailing file name implies one
        if returned.get(f) != copy_.get(f):
            known = K_STORECACHE_MIME if (f == "mimetype" and "StoreCache" in str(w.get("cache")) and "cache.get" in what) else None
            col.add(CONTRACT, what, known=known, field=f, returned=M._simple(returned.get(f)), kept_copy=M._simple(copy_.get(f)), **w)
    for f in ("commands", "extended_commands"):
        a, b = last_entry(returned, f), last_entry(copy_, f)
        if f == "extended_commands":
            a = None if a is None else (a.get("ns"), (a.get("command_metadata") or {}).get("version"), a.get("qcommand"))
            b = None if b is None else (b.get("ns"), (b.get("command_metadata") or {}).get("version"), b.get("qcommand"))
        if a != b:
            col.add(CONTRACT, what, field=f + "[-1]", returned=M._simple(a), kept_copy=M._simple(b), **w)
    for f in ("argument_queries", "direct_subqueries"):
        a = sorted(x.get("query") for x in returned.get(f) or [])
        b = sorted(x.get("query") for x in copy_.get(f) or [])
        if a != b:
            col.add(CONTRACT, what, field=f, returned=a, kept_copy=b, **w)
    a = {k: x for k, x in (returned.get("attributes") or {}).items()}
    b = {k: x for k, x in (copy_.get("attributes") or {}).items()}
    if a != b:
        col.add(CONTRACT, what, field="attributes", returned=M._simple(a), kept_copy=M._simple(b), **w)


def check_failed(col, md, what, w, message=None, known=None, ref=None, raised=False):
    if md is None:
        return
    if md.get("status") != "error" or md.get("is_error") is not True:
        col.add(CONTRACT, what, known=known, field="status/is_error of a failed evaluation", expected="error/True", observed="%s/%s" % (md.get("status"), md.get("is_error")), **w)
    msgs = error_messages(md)
    if not msgs:
        col.add(CONTRACT, what, field="log/child_log of a failed evaluation",
                expected="an error entry with the message", observed=None, **w)
    elif message is not None and not any(message == m or message in m or m in message for m in msgs):
        col.add(CONTRACT, what, field="log/child_log of a failed evaluation", expected=message, observed=msgs, **w)


def check_query(col, kind, factory, q, with_store):
    ref = M.Sem(q)
    canon = M.parse(q).encode()
    c, cleanup = M.quiet(factory)
    try:
        for phase in ("cold", "warm"):
            w = dict(query=q, cache=kind, phase=phase)
            key = None
            if with_store and phase == "cold":
                key = "res/" + (ref.filename if (ref.ok and ref.filename and "." in ref.filename and not ref.filename.startswith(".") and not ref.filename.endswith(".")) else "result.bin")
            o = M.run(q, cache=c, store_key=key)
            col.evaluations += 1
            if o.ok != ref.ok or (ref.ok and not M.same_value(o.value, ref.value)):
                return    # the evaluator disagrees with the reference on the result itself: C01's business
            cm = M.quiet(c.get_metadata, canon)
            if ref.ok:
                md = o.state.metadata
                check_metadata(col, md, ref, o.state.data, "returned metadata", w)
                try:
                    got = o.state.get()
                    if not M.same_value(got, ref.value):
                        raise Exception("different value")
                except Exception as e:
                    col.add(CONTRACT, "State.get", field="status ready but get() does not deliver", observed=str(e), **w)
                if M.sem_cacheable(ref) and kind != "NoCache":
                    g = M.quiet(c.get, canon)
                    if g is not None:
                        agree(col, md, g.metadata, "metadata of cache.get(query) vs returned", w)
                        check_metadata(col, g.metadata, ref, g.data, "metadata of cache.get(query)", w)
                    if cm is not None and cm.get("status") == "ready":
                        agree(col, md, cm, "cache.get_metadata(query) vs returned", w)
                    # the copies kept for the PREFIXES of the query still describe the prefixes: a later step never rewrites them
                    try:
                        absolute, actions, _fn = M._split_query(M.parse(q))
                    except Exception:
                        actions = []
                    for i in range(1, len(actions) + (1 if _fn is not None and actions else 0)):
                        pq = M.canonical(actions[:i], None, absolute)
                        if pq == canon:
                            continue
                        pref = M.Sem(pq)
                        if not (pref.ok and M.sem_cacheable(pref)):
                            continue
                        pg = M.quiet(c.get, pq)
                        if pg is not None:
                            check_metadata(col, pg.metadata, pref, pg.data, "metadata the cache keeps for the prefix %r" % pq, w)
                if key is not None:
                    tid = md.get("type_identifier")
                    ext = (ref.extension or "")
                    if ref.filename is None or ext in ENCODABLE.get(tid, ()):
                        try:
                            sm = get_store().get_metadata(key)
                        except Exception as e:
                            sm = None
                            col.add(CONTRACT, "store copy", field="metadata missing in the store", observed=str(e), store_key=key, **w)
                        if sm is not None:
                            agree(col, md, sm, "store.get_metadata(store_key) vs returned", dict(w, store_key=key))
                            check_metadata(col, sm, ref, o.state.data, "store copy of the metadata", dict(w, store_key=key))
            else:
                msg = None
                if o.state is not None:
                    md = o.state.metadata
                    if md.get("query") != canon:
                        col.add(CONTRACT, "returned metadata", field="query", expected=canon, observed=md.get("query"), **w)
                    check_failed(col, md, "returned metadata", w)
                    if not getattr(o, "get_raised", False):
                        col.add(CONTRACT, "State.get", field="status error but get() returns", **w)
                    ms = error_messages(md)
                    msg = ms[-1] if ms else None
                if kind != "NoCache" and cm is not None:
                    known = None
                    if (ref.fail_path and ref.fail_path[0]["kind"] != "link" and ref.fail_path[0]["index"] < ref.n_actions - 1 + (1 if M.parse(q).filename() else 0)
                            and cm.get("status") == "error" and cm.get("is_error") is False):
                        known = K_PARENT_FLAG
                    check_failed(col, cm, "cache.get_metadata(query) of a failed evaluation", w, message=msg, known=known, ref=ref, raised=o.exception is not None)
                if key is not None:
                    try:
                        sm = get_store().get_metadata(key)
                    except Exception:
                        sm = None
                    if sm is None:
                        col.add(CONTRACT, "store copy", field="a failed evaluation left no metadata under the store key", store_key=key, **w)
                    else:
                        check_failed(col, sm, "store.get_metadata(store_key) of a failed evaluation", dict(w, store_key=key), message=msg, ref=ref, raised=o.exception is not None)
            col.nontrivial.add((kind, canon))
    finally:
        M.quiet(cleanup)


def bounded(tier, seed):
    import random
    t0 = time.time()
    M.setup_vocabulary()
    col = M.Collector()
    rnd = random.Random(seed)
    F = M.cache_factories()
    allq = list(M.all_queries(tier))
    ext_queries = ["hello/f.%s" % e for e in sorted(MIMETYPES)] + ["one/g.%s" % e for e in ("json", "html", "txt", "pickle", "unknownext")]
    standins = []
    for kind, factory in F.items():
        n0 = col.evaluations
        if kind in ("NoCache", "MemoryCache"):
            qs = SPECIAL + ext_queries + allq[:: (9 if tier == "quick" else 3)]
        elif kind in ("FileCache", "SQLCache.from_sqlite", "StoreCache(MemoryStore)"):
            qs = SPECIAL + ext_queries[::6] + rnd.sample(allq, 30 if tier == "quick" else 300)
        else:
            qs = SPECIAL[:: (2 if tier == "quick" else 1)] + rnd.sample(allq, 8 if tier == "quick" else 100)
        for q in qs:
            check_query(col, kind, factory, q, with_store=(kind in ("NoCache", "MemoryCache", "FileCache")))
        standins.append(M.standin("%s: returned / cached / stored metadata vs reference" % kind,
                                  "%d queries (hand-picked attribute/namespace/link/sub-evaluation/failing cases, a file name per known extension, a slice of "
                                  "all_queries(%s)), each cold and warm" % (len(qs), tier), col.evaluations - n0, False))
    return dict(evaluations=col.evaluations, distinct_nontrivial=len(col.nontrivial),
                rule="per cache kind: evaluate (cold, then warm) and compare the returned metadata with the reference interpreter (canonical query, status/is_error/"
                     "get(), type identifier and data characteristics of the actual value, commands[-1], namespace and version of its command, parent_query, "
                     "argument/direct sub-queries, file name/extension/mimetype, attribute propagation); cache.get / get_metadata and the store copy "
                     "(store_key=) must agree; failed evaluations must be marked error in status and flag with the message in log/child_log in all copies; "
                     "wall %.0fs" % (time.time() - t0),
                standins=standins, violations=col.violations())


def replay(doc):
    inp = doc.get("inputs") or {}
    q = inp.get("query")
    if not isinstance(q, str):
        return dict(confirmed=False, note="no replay scenario: inputs carry no query text")
    try:
        M.parse(q)
    except Exception as e:
        return dict(confirmed=False, note="query does not parse: %s" % e)
    M.setup_vocabulary()
    col = M.Collector()
    F = M.cache_factories()
    kind = inp.get("cache") if inp.get("cache") in F else "MemoryCache"
    check_query(col, kind, F[kind], q, True)
    v = col.violations()
    return dict(confirmed=bool(v), violations=v)
