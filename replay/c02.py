"""C02: replay + labelled *bounded* stand-in -- canonical query text is a fixed point of parse/encode.

Run-time contract checked against the real liquer.parser for every string s that parse() ACCEPTS:
  F1  c = parse(s).encode() is accepted by parse()
  F2  parse(c) is structurally identical to parse(s)  (explicit field-by-field comparison: absoluteness, segment kinds, headers
      incl. level / name / resource flag / parameters, actions, arguments incl. nested link queries, resource path, file name;
      positions ignored; a missing header counts as the trivial header of its segment kind, see s_header)
  F3  parse(c).encode() == c
and for programmatically constructed queries q (Query / segments / SegmentHeader / ActionRequest.from_arguments / with_action):
  G1  parse(q.encode()) is accepted and structurally identical to q;  G2  parse(q.encode()).encode() == q.encode()

Strings come from (A) all sequences of grammar tokens up to a bound, (B) bounded-exhaustive sentences of the documented grammar
over a small lexicon covering every production, (C) seeded random long sentences, some of them mutated."""
import itertools
import random
import time

from liquer.parser import (parse, Query, TransformQuerySegment, ResourceQuerySegment, SegmentHeader, ActionRequest,
                           StringActionParameter, LinkActionParameter, ResourceName)

K_RES_NOPATH = ("a resource segment without a path ('-R', '-R-p', '-Rname', '-R/-/a') is encoded with a trailing '/' ('-R/', '-R-p/', '-R//-/a'), "
                "which parse() rejects: the canonical text of an accepted query is not accepted")
K_RTQ = ("a leading transform segment without header followed by a segment with a header is re-read by parse() as a resource path when its "
         "canonical text is resource-name safe: 'a-%41/-/c' is two transform segments, its canonical text 'a-A/-/c' is resource 'a-A' + transform")
K_RESHEADER_EMPTY = ("resource segment header parameters are separated by Word('-'): an empty-string parameter followed by another one "
                     "(SegmentHeader(resource=True, parameters=['', 'p']) -> '-R--p/x') is dropped by parse, and ['', ''] comes back as ['']")
K_LINK_RTQ = ("a link whose query is 'resource path/-header/...' (what parse('x/y/-/c') returns) is encoded as '~X~x/y/-/c~E', but inside a link "
              "the text is parsed without the resource-path rule: x and y come back as actions of a transform segment")


# ---------------------------------------------------------------- explicit structure
def s_param(p):
    if isinstance(p, LinkActionParameter):
        return dict(kind="link", query=s_query(p.link))
    if isinstance(p, StringActionParameter):
        return dict(kind="string", string=p.string)
    return dict(kind=type(p).__name__)


def s_header(h, resource):
    """A missing header and the trivial header (level 1, no name, no parameters: SegmentHeader.is_trivial) are the same header: 'a' and
    '-/a', 'x/y/-/c' and '-R/x/y/-/c' denote the same query, and Query.encode itself writes a lone header-less resource segment as '-R/...'."""
    if h is None:
        return dict(kind="header", level=1, name="", resource=resource, parameters=[], implicit=True)
    return dict(kind="header", level=h.level, name=h.name, resource=bool(h.resource), parameters=[s_param(p) for p in h.parameters], implicit=False)


def s_action(a):
    return dict(kind="action", name=a.name, parameters=[s_param(p) for p in a.parameters])


def s_segment(seg):
    if isinstance(seg, TransformQuerySegment):
        return dict(kind="transform", header=s_header(seg.header, False), actions=[s_action(a) for a in seg.query],
                    filename=None if seg.filename is None else str(seg.filename))
    if isinstance(seg, ResourceQuerySegment):
        return dict(kind="resource", header=s_header(seg.header, True), path=[x.name if isinstance(x, ResourceName) else str(x) for x in seg.query])
    return dict(kind=type(seg).__name__)


def s_query(q):
    return dict(kind="query", absolute=bool(q.absolute), segments=[s_segment(s) for s in q.segments])


def diff(a, b, path="query"):
    """First structural difference between two structures, or None."""
    if type(a) is not type(b):
        return "%s: %s != %s" % (path, brief(a), brief(b))
    if isinstance(a, dict):
        if a.get("kind") != b.get("kind"):
            return "%s: kind %s != %s" % (path, a.get("kind"), b.get("kind"))
        for k in a:
            if k == "implicit":         # written or not, the trivial header is the same header
                continue
            d = diff(a[k], b.get(k), path + "." + k)
            if d:
                return d
        return None
    if isinstance(a, list):
        if len(a) != len(b):
            return "%s: %d items != %d items" % (path, len(a), len(b))
        for i, (x, y) in enumerate(zip(a, b)):
            d = diff(x, y, "%s[%d]" % (path, i))
            if d:
                return d
        return None
    if a != b:
        return "%s: %s != %s" % (path, brief(a), brief(b))
    return None


def brief(x):
    if isinstance(x, dict):
        return "<%s>" % x.get("kind")
    return ascii(x)


def build(st):
    """Structure -> liquer objects (used to test whether repairing one root cause makes a witness pass)."""
    def par(p):
        return LinkActionParameter(build(p["query"])) if p["kind"] == "link" else StringActionParameter(p["string"])

    def hdr(h):
        if h.get("implicit"):
            return None
        return SegmentHeader(h["name"], h["level"], [par(p) for p in h["parameters"]], resource=h["resource"])
    segs = []
    for seg in st["segments"]:
        if seg["kind"] == "transform":
            segs.append(TransformQuerySegment(hdr(seg["header"]), [ActionRequest(a["name"], [par(p) for p in a["parameters"]]) for a in seg["actions"]],
                                              seg["filename"]))
        else:
            segs.append(ResourceQuerySegment(hdr(seg["header"]), [ResourceName(n) for n in seg["path"]]))
    return Query(segs, absolute=st["absolute"])


def passes(q):
    try:
        c = q.encode()
        q2 = parse(c)
        return diff(s_query(q), s_query(q2)) is None and q2.encode() == c
    except Exception:
        return False


def rewrite(st, fix, inside=False):
    """Deep copy of a query structure with `fix(query_copy, inside_link)` applied to it and to every nested link query."""
    out = dict(kind="query", absolute=st["absolute"], segments=[])

    def par(p):
        return dict(kind="link", query=rewrite(p["query"], fix, True)) if p["kind"] == "link" else dict(p)

    def hdr(h):
        return dict(h, parameters=[par(p) for p in h["parameters"]])
    for seg in st["segments"]:
        seg2 = dict(seg, header=hdr(seg["header"]))
        if seg["kind"] == "transform":
            seg2["actions"] = [dict(a, parameters=[par(p) for p in a["parameters"]]) for a in seg["actions"]]
        else:
            seg2["path"] = list(seg["path"])
        out["segments"].append(seg2)
    fix(out, inside)
    return out


def repairs():
    """(label, fix) per known root cause; fix mutates a query structure and sets applied[0] when it changed something."""
    def nopath(applied):
        def fix(q, inside):
            for seg in q["segments"]:
                if seg["kind"] == "resource" and not seg["path"]:
                    seg["path"].append("p")
                    applied[0] = True
        return fix

    def rtq(applied):
        def fix(q, inside):
            segs = q["segments"]
            if (not inside and len(segs) >= 2 and segs[0]["kind"] == "transform" and segs[0]["header"]["implicit"]
                    and segs[-1]["kind"] == "transform" and not segs[-1]["header"]["implicit"]):
                segs[0]["header"] = dict(kind="header", level=1, name="", resource=False, parameters=[], implicit=False)
                applied[0] = True
        return fix

    def resheader(applied):
        def fix(q, inside):
            for seg in q["segments"]:
                if seg["kind"] == "resource" and seg["header"]:
                    for p in seg["header"]["parameters"][:-1]:
                        if p["kind"] == "string" and p["string"] == "":
                            p["string"] = "e"
                            applied[0] = True
        return fix

    def linkrtq(applied):
        def fix(q, inside):
            segs = q["segments"]
            if inside and len(segs) >= 2 and segs[0]["kind"] == "resource" and segs[0]["header"]["implicit"]:
                segs[0]["header"] = dict(kind="header", level=1, name="", resource=True, parameters=[], implicit=False)
                applied[0] = True
        return fix
    return [(K_RES_NOPATH, nopath), (K_RTQ, rtq), (K_RESHEADER_EMPTY, resheader), (K_LINK_RTQ, linkrtq)]


def classify(st_expected):
    """Known-defect label for a witness, attached only when repairing exactly that root cause in the witness (giving the path-less resource
    a path, the leading segment a header, ...) makes the query pass; witnesses that still fail after the repairs stay unlabelled."""
    present = []
    for label, mk in repairs():
        applied = [False]
        st = rewrite(st_expected, mk(applied))
        if applied[0]:
            if passes(build(st)):
                return label
            present.append((label, mk))
    if len(present) > 1:
        st = st_expected
        for label, mk in present:
            st = rewrite(st, mk([False]))
        if passes(build(st)):
            return present[0][0]
    return None


class Collector:
    """Keeps, per root cause (known label) or else per (function, contract), the two smallest witnesses and the number of instances."""
    def __init__(self):
        self.groups = {}
        self.counts = {}
        self.n = 0

    def add(self, contract, function, known, size, **witness):
        key = known or (function, contract)
        self.counts[key] = self.counts.get(key, 0) + 1
        self.n += 1
        v = dict(contract=contract, function=function, **witness)
        if known:
            v["known"] = known
        g = self.groups.setdefault(key, [])
        wid = witness.get("s") or witness.get("text")
        if wid is not None and any((x[2].get("s") or x[2].get("text")) == wid for x in g):
            return
        g.append((size, self.n, v))
        g.sort(key=lambda x: (x[0], x[1]))
        del g[2:]

    def result(self, limit=8):
        out = []
        keys = sorted(self.groups, key=lambda k: (isinstance(k, str), str(k)))       # unlabelled first
        for rank in (0, 1):
            for key in keys:
                g = self.groups[key]
                if rank < len(g) and len(out) < limit:
                    out.append(dict(g[rank][2], instances=self.counts[key]))
        return out


FUNC_S = "liquer.parser.parse / Query.encode"
FUNC_P = "liquer.parser.Query.encode / parse (constructed query)"


def check_string(s, col, stats):
    """F1-F3 for one string. Returns 'rejected', 'ok' or 'violation'."""
    stats["generated"] += 1
    try:
        q = parse(s)
    except Exception:
        return "rejected"
    stats["accepted"] += 1
    a = s_query(q)
    try:
        c = q.encode()
    except Exception as ex:
        col.add("F1 canonical text exists and is accepted", FUNC_S, None, len(s), s=ascii(s), observed="encode raised %s: %s" % (type(ex).__name__, ex))
        return "violation"
    stats["canon"].add(c)
    if c != s:
        stats["noncanonical"] += 1
    try:
        q2 = parse(c)
    except Exception as ex:
        col.add("F1 canonical text exists and is accepted", FUNC_S, classify(a), len(s), s=ascii(s), canonical=ascii(c),
                observed="parse(canonical) raised %s" % type(ex).__name__)
        return "violation"
    b = s_query(q2)
    d = diff(a, b)
    if d:
        col.add("F2 parse(canonical) is structurally identical to parse(s)", FUNC_S, classify(a), len(s), s=ascii(s), canonical=ascii(c), difference=d)
        return "violation"
    try:
        c2 = q2.encode()
    except Exception as ex:
        c2 = "<encode raised %s>" % type(ex).__name__
    if c2 != c:
        col.add("F3 parse(canonical).encode() == canonical", FUNC_S, None, len(s), s=ascii(s), canonical=ascii(c), observed=ascii(c2))
        return "violation"
    return "ok"


def check_constructed(q, col, stats, how):
    stats["constructed"] += 1
    a = s_query(q)
    try:
        c = q.encode()
    except Exception as ex:
        col.add("G1a constructed query has an accepted text", FUNC_P, None, 0, built=how, observed="encode raised %s: %s" % (type(ex).__name__, ex))
        return "violation"
    stats["canon"].add(c)
    try:
        q2 = parse(c)
    except Exception as ex:
        col.add("G1a constructed query has an accepted text", FUNC_P, classify(a), len(c), built=how, text=ascii(c),
                observed="parse(q.encode()) raised %s" % type(ex).__name__)
        return "violation"
    b = s_query(q2)
    d = diff(a, b)
    if d:
        col.add("G1b parse(q.encode()) is structurally identical to q", FUNC_P, classify(a), len(c), built=how, text=ascii(c), difference=d)
        return "violation"
    c2 = q2.encode()
    if c2 != c:
        col.add("G2 parse(q.encode()).encode() == q.encode()", FUNC_P, None, len(c), built=how, text=ascii(c), observed=ascii(c2))
        return "violation"
    return "ok"


# ---------------------------------------------------------------- (A) raw token sequences
TOKENS = ["a", "b1", "_", "A", "-", "/", ".", "..", "f.t", "R", "~~", "~_", "~5", "~.", "~I", "~/", "~h", "~H", "~f", "~P", "~X~", "~E", "%41", "%2F",
          "%C3%A9", "+", " "]


def raw_sequences(maxlen):
    for n in range(1, maxlen + 1):
        for tup in itertools.product(TOKENS, repeat=n):
            yield "".join(tup)


# ---------------------------------------------------------------- (B) grammar-directed bounded-exhaustive
ENTITIES = ["~~", "~_", "~5", "~0", "~.", "~I", "~/", "~h", "~H", "~f", "~P"]
PERCENT = ["%41", "%2F", "%2f", "%7E", "%2D", "%20", "%25", "%2E", "%C3%A9", "%c3%a9", "%E2%82%AC", "%F0%9F%98%80", "%FF", "%00"]
TEXTS = ["", "x", "A1", "1.5", "a+b", "_", "R", "E", "X"]
MIXED = ["x~~y", "~~%41", "%25" + "41", "~_~_", "~h~Hx.y", "%C3~~%A9", "x%41~.y", "~~X~~q~~E", "~5~5", "abc~Idef", "~P%2F%2F", "http%3A%2F%2Fx", "%3A~I~/", "file%3a%2f%2F", "x y"]
LINKS = ["~X~q~E", "~X~/q~E", "~X~q-%41/r-~_~E", "~X~q/f.txt~E", "~X~-R/p/q.txt~E", "~X~/-R/p~E", "~X~p/q/-/r~E", "~X~-ns-u/q~E", "~X~--R~E",
         "~X~q-~X~r~E~E", "~X~q-~X~/r-~X~-R/./s~E~E-t~E", "~X~q-~X~r-~X~s-%41~E~E~E", "~X~a-%41/-/c~E"]
PARAMS = TEXTS + ENTITIES + PERCENT + MIXED + LINKS
PARAMS_MID = ["", "x", "1.5", "~~", "~_", "~5", "~.", "~I", "~/", "~h", "~P", "%41", "%2F", "%C3%A9", "a+b", "~X~q~E", "~X~/q-~X~r~E~E"]
PARAMS_SMALL = ["", "x", "~_", "%41", "~X~q~E"]
TBODIES = ["", "/a", "/a-%41", "/a-~X~q~E-", "/a/b-x", "/f.txt", "/a/.x", "/a-x/b_2/c-1-2/y.tar.gz"]
RBODIES = ["", "/p", "/p/q.txt", "/.", "/..", "/./p", "/../p-q/_r", "/.x/a-b.c", "/p/../q/."]
RPATHS = ["p", "p/q.txt", ".", "..", "./p", "../p-q", ".x", "a-A", "1/2"]
SEGMENTS = ["a", "a-%41", "a-x/b", "f.txt", "a/f.txt", "-/a", "-x", "-x-p/a-~_", "--y/a/f.t", "-R/p/q", "-R", "-Rn-p/./..", "---R-~_/p", "a-~X~q~E", "--/b"]


def headers():
    for level in (1, 2, 3):
        dashes = "-" * level
        for kind in ("", "ns", "R", "Rn", "R_1", "zEta_9"):
            yield dashes + kind, kind
            for p in PARAMS_MID:
                yield dashes + kind + "-" + p, kind
            for p, q in itertools.product(PARAMS_SMALL, repeat=2):
                yield dashes + kind + "-" + p + "-" + q, kind
            if kind.startswith("R"):
                yield dashes + kind + "--x", kind          # several dashes before a resource header parameter
                yield dashes + kind + "---", kind


def grammar_sentences(tier):
    quick = tier == "quick"
    # B1 single actions with 1..3 parameters
    for p in PARAMS:
        yield "a-" + p
        yield "/zEta_9-" + p + "/b"
    for p, q in itertools.product(PARAMS_MID if not quick else PARAMS_MID[:12], repeat=2):
        yield "a-%s-%s" % (p, q)
    for p, q, r in itertools.product(PARAMS_SMALL, repeat=3):
        yield "a-%s-%s-%s" % (p, q, r)
    # B2 headers x bodies x absoluteness
    for h, kind in headers():
        bodies = RBODIES if kind.startswith("R") else TBODIES
        for body in bodies:
            yield h + body
            if not quick or body in ("", "/a", "/p"):
                yield "/" + h + body
    # B3 resource path + headed transform segment (the resource_transform_query form) and longer tails
    for path in RPATHS:
        for seg in ["-/a", "-", "-x", "-x-p", "--y-~_/a-%41/f.t", "-/a/-/b", "-R/z", "-/a/-R/z"]:
            yield path + "/" + seg
            yield "/" + path + "/" + seg
    # B4 sequences of segments
    n = 2 if quick else 3
    for k in range(1, n + 1):
        for tup in itertools.product(SEGMENTS, repeat=k):
            s = "/".join(tup)
            yield s
            if not quick or k == 1:
                yield "/" + s
    if quick:
        sub = ["a-%41", "f.txt", "-x", "-R", "-R/p/q", "-/a", "a-x/b"]
        for tup in itertools.product(sub, repeat=3):
            yield "/".join(tup)
    # B5 links: every base query nested 1..3 deep, relative and absolute, as action argument and as header parameter
    base = ["q", "q-%41", "q-~_/r", "q/f.txt", "-R/p/q.txt", "-R", "-R-p", "p/q/-/r", "-ns-u/q", "--R/./x", "q-%41/-/c", "-x/f.t/a", "a.b", "-x--/a"]
    for b in base:
        for ab in ("", "/"):
            d1 = "~X~%s%s~E" % (ab, b)
            d2 = "~X~%sm-%s-z~E" % (ab, d1)
            d3 = "~X~%sn-y-%s~E" % (ab, d2)
            for d in (d1, d2, d3):
                yield "a-" + d
                yield "a-x-%s-y/b" % d
                yield "-ns-%s/a" % d
                yield "-R-%s/p" % d
                if not quick:
                    yield "/a-%s/-/b-%s" % (d, d)
                    yield "--Rn-%s-%s" % (d, d)


# ---------------------------------------------------------------- (C) random long sentences
NAMES = ["a", "b2", "c_d", "_x", "ns", "zEta", "dr", "r"]
HNAMES = ["", "", "ns", "x", "zEta_9", "r"]
RNAMES = ["", "", "n", "X1", "_a", "9"]
RESNAMES = ["p", "q.txt", ".", "..", "a-b", ".x", "_y", "A.B-c", "1", "d.tar.gz", "x-"]
FILENAMES = ["f.txt", ".x", "a.b-c", "x.", "data.tar.gz", "_.1", "."]


def r_text(rng):
    r = rng.random()
    if r < 0.35:
        return rng.choice(["x", "abc", "A1", "1.5", "a+b", "_", "R", "E", "X", "0", "..", "q.t", "http", "file"])
    if r < 0.65:
        return rng.choice(ENTITIES)
    if r < 0.9:
        if rng.random() < 0.5:
            return rng.choice(PERCENT)
        cp = rng.choice([rng.randint(0, 0x7f), rng.randint(0x80, 0x7ff), rng.randint(0x800, 0xd7ff), rng.randint(0xe000, 0xffff),
                         rng.randint(0x10000, 0x10ffff)])
        return "".join("%%%02X" % b for b in chr(cp).encode("utf-8"))
    return "%%%02x" % rng.randint(0, 255)


def r_param(rng, depth, size):
    if depth < 3 and rng.random() < (0.18 if depth == 0 else 0.3):
        return "~X~" + r_query(rng, depth + 1, max(1, size - 1)) + "~E"
    return "".join(r_text(rng) for _ in range(rng.choice([0, 1, 1, 1, 2, 3, size + 2])))


def r_params(rng, depth, size, multi_dash=False):
    out = ""
    for _ in range(rng.choice([0, 0, 1, 1, 2, size])):
        out += ("-" * rng.randint(1, 3) if multi_dash and rng.random() < 0.3 else "-") + r_param(rng, depth, size)
    return out


def r_tbody(rng, depth, size, must):
    acts = [rng.choice(NAMES) + r_params(rng, depth, size) for _ in range(rng.choice([0, 1, 1, 2, size]))]
    if rng.random() < 0.3:
        acts.append(rng.choice(FILENAMES))
    if must and not acts:
        acts.append(rng.choice(NAMES))
    return "/".join(acts)


def r_segment(rng, depth, size):
    r = rng.random()
    if r < 0.3:
        return r_tbody(rng, depth, size, True)
    if r < 0.7:
        name = rng.choice(HNAMES)
        h = "-" * rng.randint(1, 3) + name + (r_params(rng, depth, size) if name else "")
        body = r_tbody(rng, depth, size, not name)
        return h + ("/" + body if body else "")
    h = "-" * rng.randint(1, 3) + "R" + rng.choice(RNAMES) + r_params(rng, depth, size, True)
    path = [rng.choice(RESNAMES) for _ in range(rng.choice([0, 1, 2, 3, size]))]
    return h + ("/" + "/".join(path) if path else "")


def r_query(rng, depth=0, size=3):
    ab = "/" if rng.random() < 0.3 else ""
    if rng.random() < 0.2:
        path = "/".join(rng.choice(RESNAMES) for _ in range(rng.randint(1, 3)))
        name = rng.choice(HNAMES)
        h = "-" * rng.randint(1, 3) + name + (r_params(rng, depth, size) if name else "")
        body = r_tbody(rng, depth, size, not name)
        return ab + path + "/" + h + ("/" + body if body else "")
    return ab + "/".join(r_segment(rng, depth, size) for _ in range(rng.choice([1, 1, 2, 3, size])))


MUT = "~-/%.RXE_a1A+ \né"


def mutate(rng, s):
    for _ in range(rng.randint(1, 2)):
        i = rng.randint(0, len(s))
        r = rng.random()
        if r < 0.4:
            s = s[:i] + rng.choice(MUT) + s[i:]
        elif r < 0.7 and s:
            s = s[:i] + s[i + 1:]
        else:
            s = s[:i] + rng.choice(MUT) + s[i + 1:]
    return s


# ---------------------------------------------------------------- programmatic construction
P_ALPHA = ["~", "%", "/", "-", "+", ":", " ", ".", "_", "h", "X", "E", "0", "5", "A", "é", "€", "\U0001F600", "\n", "?", "#", "&", "="]
P_PIECES = ["http://", "https://", "file://", "://", "~X~", "~E", "~H", "~.", "%41", "%2F", "%zz", "-1", "1.5", "abc", "R", "a b", "x/y", "-/", "--"]


def p_string(rng):
    r = rng.random()
    if r < 0.1:
        return ""
    if r < 0.3:
        return rng.choice(["x", "abc", "A1", "1.5", "f.txt", "a-A", "."])
    return "".join(rng.choice(P_PIECES) if rng.random() < 0.3 else rng.choice(P_ALPHA) for _ in range(rng.randint(1, 6)))


def p_param(rng, depth):
    if depth < 3 and rng.random() < 0.2:
        return LinkActionParameter(p_query(rng, depth + 1))
    return StringActionParameter(p_string(rng))


def p_action(rng, depth):
    args = []
    for _ in range(rng.choice([0, 1, 1, 2, 3])):
        r = rng.random()
        if r < 0.12:
            args.append(rng.choice([0, 5, -5, 1.5, -0.25, 1e-7, True, False]))
        elif r < 0.5:
            args.append(p_string(rng))
        else:
            args.append(p_param(rng, depth))
    return ActionRequest.from_arguments(rng.choice(NAMES), *args)


def p_tsegment(rng, depth, headerless_ok):
    header = None
    if not headerless_ok or rng.random() < 0.65:
        name = rng.choice(HNAMES)
        header = SegmentHeader(name, rng.randint(1, 3), [p_param(rng, depth) for _ in range(rng.choice([0, 0, 1, 2]))] if name else [])
    acts = [p_action(rng, depth) for _ in range(rng.choice([0, 1, 1, 2, 3]))]
    filename = rng.choice(FILENAMES) if rng.random() < 0.3 else None
    if not acts and filename is None and (header is None or not header.name):
        acts = [p_action(rng, depth)]
    return TransformQuerySegment(header, acts, filename)


def p_rsegment(rng, depth):
    header = SegmentHeader(rng.choice(RNAMES), rng.randint(1, 3), [p_param(rng, depth) for _ in range(rng.choice([0, 0, 1, 2, 3]))], resource=True)
    return ResourceQuerySegment(header, [ResourceName(rng.choice(RESNAMES)) for _ in range(rng.choice([0, 1, 1, 2, 3]))])


def p_query(rng, depth=0):
    """Only structures the grammar can denote: a transform segment without header stands first or after a segment ending in a
    file name; header names / action names / resource names / file names are taken from the grammar's lexical classes."""
    ab = rng.random() < 0.3
    r = rng.random()
    if r < 0.15:
        q = Query(absolute=ab)
        for _ in range(rng.randint(1, 3)):
            a = p_action(rng, depth)
            q.with_action(a.name, *a.parameters)
        return q
    if r < 0.3:
        res = ResourceQuerySegment(None, [ResourceName(rng.choice(RESNAMES)) for _ in range(rng.randint(1, 3))])
        return Query([res, p_tsegment(rng, depth, False)], absolute=ab)
    segs = []
    for _ in range(rng.choice([1, 1, 2, 3])):
        prev_file = bool(segs) and isinstance(segs[-1], TransformQuerySegment) and segs[-1].filename is not None
        if rng.random() < 0.3:
            segs.append(p_rsegment(rng, depth))
        else:
            segs.append(p_tsegment(rng, depth, not segs or prev_file))
    return Query(segs, absolute=ab)


# ---------------------------------------------------------------- driver
def bounded(tier, seed):
    quick = tier == "quick"
    t0 = time.time()
    budget = 50 if quick else 470
    rng = random.Random(seed)
    col = Collector()
    stats = dict(generated=0, accepted=0, noncanonical=0, constructed=0, canon=set())
    standins = []

    def run(name, bound, gen, exhaustive, stop_at=None):
        g0, a0 = stats["generated"], stats["accepted"]
        seen = set()
        complete = True
        for s in gen:
            if s in seen:
                continue
            seen.add(s)
            check_string(s, col, stats)
            if stop_at is not None and (len(seen) & 63) == 0 and time.time() - t0 > stop_at:
                complete = False
                break
        standins.append(dict(name=name, labelled="bounded", bound="%s; %d strings, %d accepted by parse()" % (
            bound, stats["generated"] - g0, stats["accepted"] - a0), cases=stats["generated"] - g0, exhaustive=bool(exhaustive and complete)))

    maxlen = 3 if quick else 4
    run("(B) bounded-exhaustive sentences of the documented grammar",
        "single actions with 1-3 parameters over %d parameter spellings (every entity, percent-escapes incl. multi-byte and invalid UTF-8, links nested "
        "to depth 3); every header form (level 1-3, unnamed/named/-R/-Rname, 0-2 parameters) x body x leading '/'; resource path + headed segment; all "
        "sequences of <= %d segments over %d segment spellings; links of 14 base queries nested 1-3 deep in action and header parameters" % (
            len(PARAMS), 2 if quick else 3, len(SEGMENTS)), grammar_sentences(tier), True, stop_at=budget * 0.55)
    run("(A) all sequences of grammar tokens", "all concatenations of <= %d tokens from %s" % (maxlen, " ".join(TOKENS)), raw_sequences(maxlen), True,
        stop_at=budget * (0.75 if quick else 0.8))

    nrand = 1800 if quick else 40000

    def rand_gen():
        for i in range(nrand):
            s = r_query(rng, 0, 2 + (i % 5))
            yield s
            if i % 3 == 0:
                yield mutate(rng, s)
    run("(C) seeded random long sentences and mutants", "%d random sentences (size parameter 2-6, links to depth 3) and a mutant of every third; seed %d" % (
        nrand, seed), rand_gen(), False, stop_at=budget * 0.9)

    ncon = 1000 if quick else 30000
    c0 = stats["constructed"]
    for i in range(ncon):
        check_constructed(p_query(rng), col, stats, "random Query/segments/SegmentHeader/ActionRequest.from_arguments/with_action #%d" % i)
        if (i & 31) == 0 and time.time() - t0 > budget:
            break
    # deterministic constructed corner cases: every pair of header parameters / arguments from the significant strings
    corner = ["", "x", "-", "~", "/", " ", "%41", "~X~a~E", "http://", "é"]
    for p, q in itertools.product(corner, repeat=2):
        for level in (1, 2):
            check_constructed(Query([TransformQuerySegment(SegmentHeader("ns", level, [StringActionParameter(p), StringActionParameter(q)]),
                                                           [ActionRequest.from_arguments("a", p, q)], "f.txt")]), col, stats,
                              "transform header 'ns' level %d parameters %r, action a-%r-%r, file name" % (level, [p, q], p, q))
            check_constructed(Query([ResourceQuerySegment(SegmentHeader("", level, [StringActionParameter(p), StringActionParameter(q)], resource=True),
                                                          [ResourceName("p"), ResourceName("q.txt")])], absolute=True), col, stats,
                              "resource header level %d parameters %r, path p/q.txt, absolute" % (level, [p, q]))
    for text in ["x/y/-/c", "-R/a/-/b", "a/b", "/-R/a", "-R", "a-%41/-/c", "a/b/-x/c/-y/d"]:
        q0 = parse(text)
        check_constructed(Query().with_action("a", LinkActionParameter(q0)), col, stats, "with_action('a', LinkActionParameter(parse(%r)))" % text)
        pred = q0.predecessor()[0]
        if pred is not None and not pred.is_empty():
            check_constructed(pred, col, stats, "parse(%r).predecessor()[0]" % text)
    standins.append(dict(name="(G) programmatically constructed queries", labelled="bounded",
                         bound="%d seeded random structures (1-3 segments, headers level 1-3 with 0-3 parameters needing escapes, 0-3 actions with 0-3 string/"
                               "number/link arguments, links to depth 3, file names, resource paths, absolute or not) + %d corner cases" % (
                                   min(ncon, stats["constructed"] - c0), len(corner) ** 2 * 4 + 14),
                         cases=stats["constructed"] - c0, exhaustive=False))
    return dict(evaluations=stats["accepted"] + stats["constructed"], distinct_nontrivial=max(2, len(stats["canon"])),
                rule="every generated string is given to parse(); for each accepted one the canonical text parse(s).encode() must be accepted, denote a "
                     "structurally identical query (explicit walk over absoluteness, segments, headers, actions, arguments, nested links, resource path, "
                     "file name) and be a fixed point of parse/encode; constructed queries must survive encode/parse structurally. generated=%d accepted=%d "
                     "non-canonical spellings=%d; distinct = distinct canonical texts" % (stats["generated"], stats["accepted"], stats["noncanonical"]),
                standins=standins, violations=col.result())


def _strings(x, out):
    if isinstance(x, str):
        out.append(x)
    elif isinstance(x, dict):
        for v in x.values():
            _strings(v, out)
    elif isinstance(x, (list, tuple)):
        for v in x:
            _strings(v, out)


def replay_encode(doc):
    """Counterexamples of the encode-side contracts: rebuild the object of the counter-model and re-check the clause natively."""
    from liquer.parser import ActionRequest, StringActionParameter
    ob = doc.get("obligation", "")
    me = (doc.get("inputs") or {}).get("self") or {}
    if "ActionRequest.encode" in ob:
        name = me.get("name") if isinstance(me.get("name"), str) else "q"
        n = len(me.get("parameters") or [])
        bad = []
        for k in sorted({n, 0, 1, 2}):
            for text in ("", "x"):
                a = ActionRequest(name, [StringActionParameter(text) for _ in range(k)])
                enc = a.encode()
                if k == 0 and enc != name:
                    bad.append(dict(name=name, arguments=[], encoded=enc, expected=name))
                if k > 0 and not enc.startswith(name + "-"):
                    bad.append(dict(name=name, arguments=[text] * k, encoded=enc, expected_prefix=name + "-"))
        return dict(confirmed=bool(bad), inputs=dict(name=name, parameters=n), violations=bad[:4])
    return None


def replay(doc):
    """Every string of the counter-model is tried as a query text (and as an argument of a one-action query)."""
    r = replay_encode(doc)
    if r is not None:
        return r
    strings = []
    _strings(doc.get("inputs") or {}, strings)
    strings = list(dict.fromkeys(strings))
    if not strings:
        return dict(confirmed=False, note="no string in the counter-model inputs")
    col = Collector()
    stats = dict(generated=0, accepted=0, noncanonical=0, constructed=0, canon=set())
    for s in strings:
        check_string(s, col, stats)
        check_string("a-" + s, col, stats)
    if not stats["accepted"]:
        return dict(confirmed=False, note="parse() rejects every string of the counter-model", inputs=dict(strings=[ascii(s) for s in strings[:6]]))
    v = col.result()
    return dict(confirmed=bool(v), inputs=dict(strings=[ascii(s) for s in strings[:6]]), violations=v[:4])
