"""C06: labelled *bounded* stand-in - error containment.  One action is made to fail in each listed way (raise, unknown
command, argument not convertible, too few / too many arguments, failing link at depth 1-3 absolute/relative, failing
sub-evaluation, missing resource) at each position, followed by 0-3 further actions, without and with a cache:
 (a) the evaluation reports failure (error state whose get() raises, or evaluate raises);
 (b) no command outside those the reference interpreter runs up to the failing step is executed;
 (c) the reported failure names a query and a character position, and the position points at the failing action (or the
     failing link argument) *within the named query*."""
import time

from liquer.cache import MemoryCache
from replay import evalmodel as M

CONTRACT = "a failing step yields a failure, nothing right of it runs, the report names (query, position of the failing action / link argument within it)"

K_ABSLINKPOS = ("a failing link argument inside a link that is evaluated as a parsed Query (an ABSOLUTE link, or a relative link of the first action) "
                "is reported with the text of the inner link query but with the position measured in the top-level query text "
                "(Context.evaluate_parameter / apply evaluate p.link as a Query object: raw_query = link.encode(), positions still refer to the outer "
                "text): 'hello/add-~X~/one/add-~X~/one/fail~E~E' reports query '/one/add-~X~/one/fail~E' at offset 22 (the inner link argument is at 9)")
K_CANONPOS = ("when the failing action is not the last action of a query typed in a non-canonical spelling (e.g. 'num-%35/fail/ident'), the report names "
              "the CANONICAL text of the prefix ('num-5/fail') with the position measured in the as-typed text (8): the position does not point at "
              "the failing action within the named query")
K_RESOURCE = ("a missing store key ('-R/missing.txt', '-R/missing.txt/-/ident') yields an error state whose failure record has no query and no position "
              "(Context.evaluate_resource logs through State.log_exception without position/query; State.get raises with query None, Position())")
K_NODATA = ("a resource key that exists WITHOUT data - an entry with metadata only ('-R/nodata/x.txt'), a directory ('-R/filled') - yields a normal-looking "
            "state (is_error False, get() returns None) and the commands to its right run on None: Context.evaluate_resource reports these cases through "
            "state.error(...), a method State does not have; the AttributeError is swallowed by the bare except, which marks the context, not the state")
K_EENOLOG = ("a command that fails with an EvaluationException (sub(): context.evaluate(q).get() of a sub-query whose link argument fails) is not "
             "logged - Context.evaluate_action (context.py:716-720) only sets state.exception, which State.next_state() drops as soon as another "
             "action or a file name follows: the returned error state has no error entry, state.get() raises with query None and no position")
K_CMID = "see C01: 'cmid' (context parameter not last) rejects a textual argument"

PREFIXES = ["", "one", "hello/let-v-x", "num-%35", "one/add-2"]
E = M.encode_token
FAILING = [
    "fail", "fail-why", "failfirst", "nosuch", "nosuch-1-2", "add-x", "mul-", "add-~X~/hello~E", "mix-1-x", "req", "req-1", "let-v", "add-1-2", "ident-1",
    "cat-a-b-c", "add-~X~/one/fail~E", "coll-a-~X~/nosuch~E-b", "add-~X~/num-x~E", "add-~X~/one/req~E", "add-~X~/one/add-1-2~E", "add-~X~fail~E",
    "coll-~X~ident~E-~X~nosuch~E", "add-~X~/one/add-1/fail/add-2~E", "add-~X~add-1/fail/add-2~E",
    "add-~X~/one/add-~X~/one/fail~E~E", "add-~X~add-~X~fail~E~E", "add-~X~/one/add-~X~fail~E~E", "add-~X~add-~X~/nosuch~E~E", "coll-~X~/one~E-~X~/one/add-~X~/num-x~E~E",
    "sub-" + E("one/fail"), "sub-" + E("one/add-~X~/nosuch~E"), "cat-~X~/-R/missing.txt~E", "cat-~X~/-R/nodata/x.txt~E",
]
FAILING3 = ["add-~X~/one/add-~X~/one/add-~X~/one/fail~E~E~E", "add-~X~add-~X~add-~X~fail~E~E~E", "add-~X~/one/add-~X~add-~X~/nosuch~E~E~E",
            "add-~X~add-~X~/one/add-~X~/one/req~E~E~E"]
SUFFIXES = [[], ["add-1"], ["ident", "coll-a"], ["let-w-z", "ident", "add-1"], ["x.txt"], ["add-~X~/num-3~E"], ["coll-~X~ident~E"]]
RESOURCE_QUERIES = ["-R/missing.txt", "-R/missing.txt/-/ident", "-R/missing.txt/-/ident/add-1", "-R/dir/missing.txt/-/coll-a/x.txt",
                    # keys that exist without data (see populate_store): metadata only, a directory
                    "-R/nodata/x.txt", "-R/nodata/x.txt/-/ident", "-R/nodata/x.txt/-/ident/add-1", "-R/filled", "-R/filled/-/ident"]


def populate_store():
    """the store of the vocabulary is empty; two keys exist without data: an entry with metadata only, and a directory"""
    import liquer.store as LSTORE
    st = LSTORE.get_store()
    st.store_metadata("nodata/x.txt", dict(note="metadata only"))
    st.store("filled/y.txt", b"1", {})


def is_nodata(raw):
    return "-R/nodata/x.txt" in raw or "-R/filled" in raw


def consistent(rq, off, raw, ref):
    """Does (rq, off) name a query of the failure path and the failing action / link argument inside it?"""
    if rq is None or off is None:
        return False
    canon = M.parse(raw).encode()
    for lvl, e in enumerate(ref.fail_path):
        texts = {e["query"], e["full_query"]}
        if lvl == 0:
            texts |= {canon}
            if rq == raw or (raw.startswith(rq) and len(rq) > e["action_offset"]):
                # the as-typed text (or an as-typed prefix containing the failing action): offsets of the parser apply directly
                if off == e["action_offset"] or (e["arg_offset"] is not None and off == e["arg_offset"]):
                    return True
        if rq in texts:
            tail = rq[off:]
            if tail.startswith(e["action_text"]) and (off == 0 or rq[off - 1] == "/"):
                return True
            if e["arg_text"] is not None and tail.startswith(e["arg_text"]) and off > 0 and rq[off - 1] == "-":
                return True
    return False


def classify(raw, ref, rq, off, obs=None):
    if is_nodata(raw) and obs is not None and M.Counter_surplus(obs.calls, ref.calls):
        return K_NODATA         # the link went through with None; what is reported is the failure of a later command
    if rq is None and "-R/" in raw.split("~X~")[0]:
        return K_RESOURCE
    if (rq is None and obs is not None and obs.state is not None and len(ref.fail_path) > 1 and ref.fail_path[0]["kind"] == "raise"
            and ref.fail_path[0]["name"] == "sub" and not any(x.get("kind") == "error" for x in obs.state.metadata.get("log") or [])):
        return K_EENOLOG
    canon_differs = M.parse(raw).encode() != raw
    for lvl, e in enumerate(ref.fail_path):
        if lvl >= 1 and rq in (e["query"], e["full_query"]) and off is not None:
            # the named query is an inner link query: is the position the one of the failing element in an ENCLOSING text?
            enclosing = [raw] + [x[k] for x in ref.fail_path[:lvl] for k in ("query", "full_query")]
            for t in enclosing:
                tail = t[off:]
                if tail.startswith(e["action_text"]) or (e["arg_text"] is not None and tail.startswith(e["arg_text"])):
                    return K_ABSLINKPOS
        if lvl == 0 and canon_differs and rq == e["query"] and not raw.startswith(rq) and off in (e["action_offset"], e["arg_offset"]):
            return K_CANONPOS
    return None


def report_of(obs):
    if obs.exception is not None:
        return "exception raised by evaluate", obs.reported_query, obs.reported_position
    ge = getattr(obs, "get_exception", None)
    if ge is not None:
        pos = getattr(ge, "position", None)
        off = getattr(pos, "offset", None)
        if pos is not None and getattr(pos, "line", 1) == 0 and off == 0:
            off = None      # Position(): "(unknown position)"
        return "exception raised by state.get()", getattr(ge, "query", None), off
    return "log of the error state", obs.reported_query, obs.reported_position


def check(col, raw, cache_name, cache):
    is_resource = raw.startswith("-R/")
    ref = None if is_resource else M.Sem(raw)
    if ref is not None and ref.ok:
        return
    obs = M.run(raw, cache=cache)
    col.evaluations += 1
    w = dict(query=raw, cache=cache_name)
    if obs.ok:
        col.add(CONTRACT, "Context.evaluate", known=K_NODATA if is_nodata(raw) else None, problem="a normal-looking result is returned", observed=obs.brief(),
                expected=None if ref is None else ref.brief(), **w)
        return
    if obs.state is not None:
        if not obs.state.metadata.get("is_error") or not getattr(obs, "get_raised", False):
            col.add(CONTRACT, "State.get", problem="error state does not raise on get()", **w)
    if ref is not None:
        extra = M.Counter_surplus(obs.calls, ref.calls)
        if extra:
            col.add(CONTRACT, "Context.evaluate", known=K_NODATA if is_nodata(raw) else None, problem="a command right of the failing step was executed",
                    executed=obs.calls, reference_executes=ref.calls, surplus=extra, **w)
    elif obs.calls:
        col.add(CONTRACT, "Context.evaluate", known=K_NODATA if is_nodata(raw) else None,
                problem="a command right of the failing (missing resource) step was executed", executed=obs.calls, **w)
    how, rq, off = report_of(obs)
    if is_resource:
        ok = rq is not None and off == 0 and (rq == raw or raw.startswith(rq))
        known = K_RESOURCE if rq is None else (K_NODATA if (is_nodata(raw) and obs.calls) else None)      # a later command failed on the None it was given
    else:
        ok = consistent(rq, off, raw, ref)
        known = None if ok else classify(raw, ref, rq, off, obs)
    if not ok:
        col.add(CONTRACT, "failure report (%s)" % how, known=known, problem="the report does not name (query, position of the failing action/link argument within it)",
                reported_query=rq, reported_offset=off,
                failure_path=[dict(query=e["query"], action=e["action_text"], action_offset=e["action_offset"], link_argument_offset=e["arg_offset"], kind=e["kind"])
                              for e in (ref.fail_path if ref is not None else [])], **w)
    col.nontrivial.add(raw)


def queries(tier):
    out = []
    failing = FAILING + (FAILING3 if tier != "quick" else FAILING3[:1])
    prefixes = PREFIXES
    suffixes = SUFFIXES
    for p in prefixes:
        for f in failing:
            if f == "failfirst" and p:
                pass
            for s in suffixes:
                out.append("/".join(([p] if p else []) + [f] + s))
    if tier != "quick":
        # the failing action deeper in the pipeline and absolute spelling
        for f in failing:
            out.append("/one/add-1/add-2/" + f + "/ident")
            out.append("one/let-v-a/ns-second/sec/" + f + "/add-1/add-1/add-1")
    return out + RESOURCE_QUERIES


def bounded(tier, seed):
    t0 = time.time()
    M.setup_vocabulary()
    populate_store()
    col = M.Collector()
    qs = queries(tier)
    for q in qs:
        check(col, q, "NoCache", None)
    n1 = col.evaluations
    c = MemoryCache()
    for q in qs:
        check(col, q, "MemoryCache (cold, shared by the whole run)", c)
    for q in qs[:: (3 if tier == "quick" else 1)]:
        check(col, q, "MemoryCache (warm)", c)
    F = M.cache_factories()
    if tier != "quick":
        for kind in ("FileCache", "SQLCache.from_sqlite", "StoreCache(MemoryStore)"):
            cc, cleanup = M.quiet(F[kind])
            try:
                for rnd_ in range(2):
                    for q in qs[::2]:
                        check(col, q, kind, cc)
            finally:
                M.quiet(cleanup)
    return dict(evaluations=col.evaluations, distinct_nontrivial=len(col.nontrivial),
                rule="%d prefixes x %d failing actions (every listed way; links to depth %d; failing step also inside a link, followed by further link actions) x "
                     "%d suffixes of 0-3 actions (incl. a file name and actions with links), plus missing-resource queries; each evaluated under NoCache, a cold "
                     "and a warm MemoryCache%s; failure, executed commands (instrumented CALLS vs the reference interpreter's) and the (query, position) of the "
                     "report (state.get() exception / evaluate exception) are checked; wall %.0fs"
                     % (len(PREFIXES), len(FAILING), 2 if tier == "quick" else 3, len(SUFFIXES), "" if tier == "quick" else ", file/SQL/store caches", time.time() - t0),
                standins=[M.standin("failing step at every position, NoCache", "see rule", n1, True),
                          M.standin("failing step at every position, with caches", "see rule", col.evaluations - n1, True)],
                violations=col.violations())


def replay(doc):
    inp = doc.get("inputs") or {}
    q = inp.get("query")
    if not isinstance(q, str):
        return dict(confirmed=False, note="no replay scenario: inputs carry no query text")
    try:
        M.parse(q)
    except Exception as e:
        return dict(confirmed=False, note="query does not parse: %s" % e)
    M.setup_vocabulary()
    populate_store()
    col = M.Collector()
    check(col, q, "NoCache", None)
    check(col, q, "MemoryCache", MemoryCache())
    v = col.violations()
    return dict(confirmed=bool(v), violations=v)
