"""C07: labelled *bounded* stand-in — every writable store kind and proxy composition against the reference model —
and replay of MemoryStore counterexamples."""
import shutil
import tempfile

from liquer.store import MemoryStore, FileStore, ProxyStore, IndexerStore, OverlayStore, MountPointStore
from replay.storemodel import Explorer, RefStore, apply_op, observe, expected, diff, Prefixed

UNIVERSE = ["a", "d", "d/x.txt", "d/x.csv", "d/e", "d/e/z"]       # two siblings share their stem: only the full name tells them apart


def base_factory(kind):
    def f():
        if kind == "mem":
            return MemoryStore(), (lambda: None)
        d = tempfile.mkdtemp(prefix="liquer_bounded_")
        return FileStore(d), (lambda: shutil.rmtree(d, ignore_errors=True))
    return f


COMPOSITIONS = {
    "plain": lambda s: s,
    "ProxyStore": lambda s: ProxyStore(s),
    "IndexerStore": lambda s: IndexerStore(s),
    "Overlay(empty fall-back)": lambda s: OverlayStore(s, MemoryStore()),
    "MountPointStore(default)": lambda s: MountPointStore(s),
    "mounted at m": lambda s: Prefixed(MountPointStore(MemoryStore()).mount("m", s), "m"),
    "global composition, mounted at m/n": lambda s: Prefixed(MountPointStore().with_indexer().mount("m/n", s), "m/n"),
}


def bounded(tier, seed):
    standins, violations = [], []
    total_eval, total_states = 0, 0
    for kind in ("mem", "file"):
        for cname, comp in COMPOSITIONS.items():
            depth = (3 if kind == "mem" else 2) if tier == "quick" else (4 if kind == "mem" else 3)
            if tier == "quick" and cname in ("ProxyStore", "MountPointStore(default)") and kind == "file":
                depth = 2

            def factory(kind=kind, comp=comp):
                s, cleanup = base_factory(kind)()
                return comp(s), cleanup, None
            ex = Explorer(factory, UNIVERSE, depth, limit=3000 if tier == "quick" else 40000).explore()
            total_eval += ex.evaluations
            total_states += len(ex.distinct_states)
            standins.append(dict(name="%s store, %s, vs reference model" % (kind, cname), labelled="bounded",
                                 bound="all well-formed histories of depth <= %d over %d keys, payloads b'one' and b''" % (depth, len(UNIVERSE)),
                                 cases=ex.histories, exhaustive=not (ex.limit and ex.histories >= ex.limit)))
            for v in ex.violations:
                if len(violations) < 6:
                    violations.append(dict(contract="store == reference model (bytes, caller metadata, key/name/is_dir/size/md5, presence, listings each once)",
                                           function="%s/%s" % (kind, cname), **v))
    return dict(evaluations=total_eval, distinct_nontrivial=total_states,
                rule="depth-first enumeration of every well-formed history (store with two payloads incl. empty, metadata update, remove, makedir, "
                     "removedir empty/recursive) over a 6-key universe for memory and directory stores behind 7 compositions; every read compared "
                     "with the reference model after every history, and reads repeated to show they change nothing; distinct = model states reached",
                standins=standins, violations=violations)


def replay_finalize(inp):
    """counterexample of Store.finalize_metadata@fields: call the real function on the model's arguments and re-check the clauses"""
    import hashlib
    from liquer.store import key_name
    md = inp.get("metadata")
    md = {k: (dict(v) if isinstance(v, dict) else v) for k, v in md.items()} if isinstance(md, dict) else {}
    data = inp.get("data")
    data = data.encode("latin-1", "replace") if isinstance(data, str) else None
    key = inp.get("key")
    out = MemoryStore().finalize_metadata(md, key, is_dir=bool(inp.get("is_dir")), data=data, update=bool(inp.get("update")))
    fi = out.get("fileinfo") or {}
    k = key or ""
    bad = []
    if out.get("key") != k:
        bad.append(("key", out.get("key"), k))
    if fi.get("name") != key_name(k) or fi.get("is_dir") != bool(inp.get("is_dir")):
        bad.append(("name/is_dir", (fi.get("name"), fi.get("is_dir")), (key_name(k), bool(inp.get("is_dir")))))
    if data is not None and fi.get("size") != len(data):
        bad.append(("size", fi.get("size"), len(data)))
    if data is not None and fi.get("md5") != hashlib.md5(data).hexdigest():
        bad.append(("md5", fi.get("md5"), hashlib.md5(data).hexdigest()))
    return dict(confirmed=bool(bad), differences=[dict(field=a, observed=repr(b), expected=repr(c)) for a, b, c in bad],
                inputs=dict(metadata=inp.get("metadata"), key=key, data=repr(data)))


def replay(doc):
    inp = doc.get("inputs") or {}
    ob = doc["obligation"]
    me = inp.get("self") or {}
    if "finalize_metadata" in ob:
        return replay_finalize(inp)
    if "MemoryStore" not in ob:
        return dict(confirmed=False, note="no replay scenario for this obligation")
    s = MemoryStore()
    ref = RefStore()
    for k in me.get("directories") or []:
        if k:
            s.directories.add(k)
            ref.dirs.add(k)
    for k, b in (me.get("data") or {}).items():
        if k:
            s.data[k] = str(b).encode("latin-1", "replace")
            s.metadata[k] = {}
            ref.data[k] = s.data[k]
            ref.meta[k] = {}
    key = inp.get("key")
    meth = ob.split("#")[0].split(".")[-1]
    universe = sorted(set(ref.keys() + ([key] if key else [])))
    op = {"store": ("store", key, b"new", {}), "remove": ("remove", key), "makedir": ("makedir", key)}.get(meth)
    try:
        if op is not None:
            apply_op(s, op)
            apply_op(ref, op)
        d = [x for x in diff(observe(s, universe, caller_fields=()), expected(ref, universe, caller_fields=())) if not x[1].startswith("meta")]
        return dict(confirmed=bool(d), differences=[dict(key=a, read=b, observed=repr(c), expected=repr(e)) for a, b, c, e in d[:4]],
                    inputs=dict(op=repr(op), keys=s.keys()))
    except Exception as e:
        return dict(confirmed=True, observed="raised %s: %s" % (type(e).__name__, e))
